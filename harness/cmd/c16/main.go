// c16: ingest protocols preserve content and time.
//
//  1. unit level: the real readers of a time value (utils.ExtractTimeStamp,
//     ConvertTimestampToMillis, IsTimeInMilli/IsTimeInNano, ParseTimeForPromQL ->
//     normalizeIntToSeconds, metrics.ExtractOTSDBPayload / ExtractOTLPPayload,
//     prometheus parseTimestamp) on boundary and random integers, compared value by value
//     with the Coq model and with the documented unit ranges (oracle);
//  2. logs end to end: the same generated logical events through the real handlers of
//     ES bulk, ES single-document requests (every route of ProcessPutPostSingleDocRequest), Splunk HEC,
//     Loki push (JSON), OTLP logs, OTLP traces; flush; match-all search;
//     stored time and stored columns against the logical event (oracle) and the model; the two ES
//     protocols against each other; stream L: number literals in every spelling (64-bit integers,
//     long decimals, large / small exponents) through every protocol that can express them;
//     stream K (keys.go): events that are trees whose member names collide with names the ingest path treats
//     specially (the timestamp key, ES metadata names, HEC / Loki / OTLP envelope names), below the root and at
//     the root, through every log protocol; stream R: names of the record's own root fields (known findings);
//  3. metrics end to end: logical datapoints through OpenTSDB put, Prometheus remote write
//     and OTLP metrics; rotate; PromQL query path; stored series / time / value against the
//     logical point (oracle) and the model.
package main

import (
	"context"
	"encoding/hex"
	"encoding/json"
	"fmt"
	"math"
	"math/big"
	"os"
	"path/filepath"
	"sort"
	"strconv"
	"strings"
	"time"

	gogoproto "github.com/gogo/protobuf/proto"
	"github.com/golang/snappy"
	"github.com/prometheus/prometheus/prompb"
	"github.com/siglens/siglens/pkg/ast/pipesearch"
	"github.com/siglens/siglens/pkg/config"
	eswriter "github.com/siglens/siglens/pkg/es/writer"
	"github.com/siglens/siglens/pkg/integrations/loki"
	otsdbw "github.com/siglens/siglens/pkg/integrations/otsdb/writer"
	promw "github.com/siglens/siglens/pkg/integrations/prometheus/ingest"
	"github.com/siglens/siglens/pkg/integrations/prometheus/promql"
	"github.com/siglens/siglens/pkg/integrations/splunk"
	"github.com/siglens/siglens/pkg/otlp"
	"github.com/siglens/siglens/pkg/segment"
	"github.com/siglens/siglens/pkg/segment/memory/limit"
	"github.com/siglens/siglens/pkg/segment/query"
	"github.com/siglens/siglens/pkg/segment/writer"
	"github.com/siglens/siglens/pkg/segment/writer/metrics"
	"github.com/siglens/siglens/pkg/segment/writer/metrics/meta"
	serverutils "github.com/siglens/siglens/pkg/server/utils"
	"github.com/siglens/siglens/pkg/utils"
	vtable "github.com/siglens/siglens/pkg/virtualtable"
	log "github.com/sirupsen/logrus"
	"github.com/valyala/fasthttp"
	collogpb "go.opentelemetry.io/proto/otlp/collector/logs/v1"
	colmetricspb "go.opentelemetry.io/proto/otlp/collector/metrics/v1"
	coltracepb "go.opentelemetry.io/proto/otlp/collector/trace/v1"
	commonpb "go.opentelemetry.io/proto/otlp/common/v1"
	logpb "go.opentelemetry.io/proto/otlp/logs/v1"
	metricspb "go.opentelemetry.io/proto/otlp/metrics/v1"
	resourcepb "go.opentelemetry.io/proto/otlp/resource/v1"
	tracepb "go.opentelemetry.io/proto/otlp/trace/v1"
	"google.golang.org/protobuf/proto"

	"verifharness/vhlib"
)

const (
	milliT = uint64(99999999999)
	nanoT  = uint64(1000000000000000000)
	two53  = int64(1) << 53
)

var failCount = map[string]int{}

// at most 3 failures per class are reported, so that a frequent class cannot hide another
func fail(sum *vhlib.Summary, class, detail string, c interface{}) {
	failCount[class]++
	sum.Count("oracle_fail/" + class)
	if failCount[class] <= 3 {
		sum.Fail(class, detail, c)
	}
}

// ---------- Coq printing ----------
func coqS(s string) string {
	ok := true
	for i := 0; i < len(s); i++ {
		if s[i] < 32 || s[i] > 126 || s[i] == '"' {
			ok = false
		}
	}
	if ok {
		return `(s2b "` + s + `")`
	}
	return vhlib.CoqBytes([]byte(s))
}
func coqZ(z int64) string {
	if z < 0 {
		return "(" + strconv.FormatInt(z, 10) + ")%Z"
	}
	return strconv.FormatInt(z, 10) + "%Z"
}
func coqN(n uint64) string { return strconv.FormatUint(n, 10) }

// a scalar value of a logical event
type sv struct {
	Kind string  `json:"kind"` // s i f b | w: an integer outside int64 (decimal text in W)
	S    string  `json:"s,omitempty"`
	I    int64   `json:"i,omitempty"`
	F    float64 `json:"f,omitempty"`
	B    bool    `json:"b,omitempty"`
	W    string  `json:"w,omitempty"`
	// the number literal as it is written into JSON bodies (stream L: every spelling of a number);
	// I / W / F hold the value the literal denotes (F: the nearest float64)
	Lit string `json:"lit,omitempty"`
}

var two63f = math.Ldexp(1, 63)

// the integer an integral float64 denotes, exactly
func exactInt(f float64) string {
	i, _ := new(big.Float).SetFloat64(f).Int(nil)
	return i.String()
}

// canonical form of a number: an integral float64 is the integer it denotes (int64 when it fits)
func (v sv) canonical() sv {
	if v.Kind == "f" && v.F == math.Trunc(v.F) && !math.IsInf(v.F, 0) {
		if math.Abs(v.F) < two63f {
			return sv{Kind: "i", I: int64(v.F)}
		}
		return sv{Kind: "w", W: exactInt(v.F)}
	}
	v.Lit = ""
	return v
}

// what the property demands of the stored value: an integer literal inside 64 bits (signed or unsigned) exactly;
// a wider one as the nearest float64 (the widest number a column holds)
func (v sv) expected() sv {
	if v.Kind == "w" {
		z, _ := new(big.Int).SetString(v.W, 10)
		if z.Sign() < 0 || z.BitLen() > 64 {
			f, _ := strconv.ParseFloat(v.W, 64)
			return sv{Kind: "f", F: f}.canonical()
		}
	}
	return v.canonical()
}

// the nearest float64 of an integer value, in canonical form
func (v sv) viaFloat() sv {
	switch v.Kind {
	case "i":
		return sv{Kind: "f", F: float64(v.I)}.canonical()
	case "w":
		f, _ := strconv.ParseFloat(v.W, 64)
		return sv{Kind: "f", F: f}.canonical()
	}
	return v
}

func (v sv) coq() string {
	v = v.canonical()
	switch v.Kind {
	case "s":
		return "SStr " + coqS(v.S)
	case "i":
		return "SInt " + coqZ(v.I)
	case "w":
		if strings.HasPrefix(v.W, "-") {
			return "SInt (" + v.W + ")%Z"
		}
		return "SInt " + v.W + "%Z"
	case "f":
		return "SFlt " + coqN(math.Float64bits(v.F))
	}
	return "SBool " + vhlib.CoqBool(v.B)
}
func (v sv) json() string {
	if v.Lit != "" {
		return v.Lit
	}
	switch v.Kind {
	case "s":
		b, _ := json.Marshal(v.S)
		return string(b)
	case "i":
		return strconv.FormatInt(v.I, 10)
	case "w":
		return v.W
	case "f":
		return strconv.FormatFloat(v.F, 'f', -1, 64)
	}
	return strconv.FormatBool(v.B)
}
func (v sv) eq(w sv) bool {
	v, w = v.canonical(), w.canonical()
	if v.Kind != w.Kind {
		return false
	}
	switch v.Kind {
	case "s":
		return v.S == w.S
	case "i":
		return v.I == w.I
	case "w":
		return v.W == w.W
	case "f":
		return math.Float64bits(v.F) == math.Float64bits(w.F)
	}
	return v.B == w.B
}
func (v sv) String() string {
	switch v.Kind {
	case "i":
		return "i:" + strconv.FormatInt(v.I, 10)
	case "w":
		return "w:" + v.W
	case "f":
		return "f:" + strconv.FormatFloat(v.F, 'g', -1, 64)
	}
	return v.Kind + ":" + v.json()
}

type kv struct {
	K string `json:"k"`
	V sv     `json:"v"`
}

func coqEvent(fs []kv) string {
	items := make([]string, len(fs))
	for i, f := range fs {
		items[i] = "(" + coqS(f.K) + ", " + f.V.coq() + ")"
	}
	return vhlib.CoqList(items)
}
func jsonObj(fs []kv) string { return "{" + jsonMembers(fs) + "}" }

// the members of a JSON object; the keys "ctx.<k>" (stream L) are written as ONE nested object "ctx":{"<k>":..}
// at the position of the first of them (the store flattens it back to the dotted column name)
func jsonMembers(fs []kv) string {
	var parts []string
	nested := false
	for _, f := range fs {
		if strings.HasPrefix(f.K, "ctx.") {
			if nested {
				continue
			}
			nested = true
			var in []string
			for _, g := range fs {
				if strings.HasPrefix(g.K, "ctx.") {
					kb, _ := json.Marshal(g.K[4:])
					in = append(in, string(kb)+":"+g.V.json())
				}
			}
			parts = append(parts, `"ctx":{`+strings.Join(in, ",")+"}")
			continue
		}
		kb, _ := json.Marshal(f.K)
		parts = append(parts, string(kb)+":"+f.V.json())
	}
	return strings.Join(parts, ",")
}

// canonical form of a value returned by the search path
func canon(x interface{}) (sv, bool) {
	switch t := x.(type) {
	case string:
		return sv{Kind: "s", S: t}, true
	case bool:
		return sv{Kind: "b", B: t}, true
	case int64:
		return sv{Kind: "i", I: t}, true
	case uint64:
		if t < 1<<63 {
			return sv{Kind: "i", I: int64(t)}, true
		}
		return sv{Kind: "w", W: strconv.FormatUint(t, 10)}, true
	case int:
		return sv{Kind: "i", I: int64(t)}, true
	case float64:
		return sv{Kind: "f", F: t}.canonical(), true
	case json.Number:
		if i, err := t.Int64(); err == nil {
			return sv{Kind: "i", I: i}, true
		}
		f, _ := t.Float64()
		return sv{Kind: "f", F: f}, true
	case nil:
		return sv{}, false
	}
	return sv{Kind: "s", S: fmt.Sprintf("?%T:%v", x, x)}, true
}

// ---------- siglens in-process ----------
func initSiglens(dir string) error {
	config.InitializeTestingConfig(dir + "/")
	config.SetNewQueryPipelineEnabled(true)
	limit.InitMemoryLimiter()
	writer.InitWriterNode()
	if err := vtable.InitVTable(serverutils.GetMyIds); err != nil {
		return err
	}
	if err := query.InitQueryNode(serverutils.GetMyIds, serverutils.ExtractKibanaRequests); err != nil {
		return err
	}
	query.InitMaxRunningQueries()
	go query.PullQueriesToRun(context.Background())
	metrics.InitTestingConfig()
	return meta.InitMetricsMeta()
}

func flushLogs() {
	z := time.Duration(0)
	z2 := time.Duration(0)
	writer.FlushWipBufferToFile(&z, &z2)
}

var qid uint64 = 1000

type stored struct {
	ts     uint64
	fields map[string]sv
}

func search(index string) ([]stored, error) { return searchQ(index, "*") }

func searchQ(index, text string) ([]stored, error) {
	qid++
	req := map[string]interface{}{
		"searchText": text, "indexName": index, "startEpoch": uint64(1), "endEpoch": ^uint64(0),
		"size": uint64(10000), "queryLanguage": "Splunk QL", "includeNulls": true,
	}
	resp, _, _, err := pipesearch.ParseAndExecutePipeRequest(req, qid, 0, time.Now(), "", nil)
	if err != nil {
		return nil, err
	}
	var out []stored
	for _, h := range resp.Hits.Hits {
		st := stored{fields: map[string]sv{}}
		for k, x := range h {
			if k == "timestamp" {
				switch t := x.(type) {
				case uint64:
					st.ts = t
				case int64:
					st.ts = uint64(t)
				case float64:
					st.ts = uint64(t)
				}
				continue
			}
			if k == "_index" {
				continue
			}
			if v, ok := canon(x); ok {
				st.fields[k] = v
			}
		}
		out = append(out, st)
	}
	return out, nil
}

func mkctx(body []byte, ctype string) *fasthttp.RequestCtx {
	ctx := &fasthttp.RequestCtx{}
	ctx.Request.Header.SetMethod("POST")
	ctx.Request.Header.SetContentType(ctype)
	ctx.Request.SetBody(body)
	return ctx
}

func nowMs() uint64 { return uint64(time.Now().UTC().UnixNano()) / 1000000 }

// ---------- logical log events ----------
type timeRep struct {
	Unit string `json:"unit"` // none s ms ns us
	Form string `json:"form"` // num str | frac exp big: a JSON number M * 10^E spelled with a fraction / an exponent / as a long integer
	Val  uint64 `json:"val"`
	M    string `json:"m,omitempty"`
	E    int    `json:"e,omitempty"`
}

func (t timeRep) spelled() bool { return t.Form == "frac" || t.Form == "exp" || t.Form == "big" }

// JSON text of the number M * 10^E in the given spelling
func (t timeRep) text() string {
	switch t.Form {
	case "frac": // E < 0
		d := t.M
		for len(d) <= -t.E {
			d = "0" + d
		}
		return d[:len(d)+t.E] + "." + d[len(d)+t.E:]
	case "exp":
		mant := t.M[:1]
		if len(t.M) > 1 {
			mant += "." + t.M[1:]
		}
		return mant + "e" + strconv.Itoa(t.E+len(t.M)-1)
	case "big": // E >= 0
		return t.M + strings.Repeat("0", t.E)
	}
	return coqN(t.Val)
}

// exact floor of M*10^E and of M*10^(E+3)
func (t timeRep) floors() (*big.Int, *big.Int) {
	fl := func(e int) *big.Int {
		m, _ := new(big.Int).SetString(t.M, 10)
		if e >= 0 {
			return m.Mul(m, new(big.Int).Exp(big.NewInt(10), big.NewInt(int64(e)), nil))
		}
		return m.Div(m, new(big.Int).Exp(big.NewInt(10), big.NewInt(int64(-e)), nil))
	}
	return fl(t.E), fl(t.E + 3)
}

// a spelled number: the instant it denotes (ms), and what cutting the sub-second fraction would give
func (t timeRep) denoted() (trueMs uint64, cutMs uint64, ok bool) {
	f0, f3 := t.floors()
	if f0.Sign() <= 0 || f0.BitLen() > 64 {
		return 0, 0, false
	}
	v := f0.Uint64()
	if v < milliT {
		return f3.Uint64(), v * 1000, true
	}
	return v, v, true
}

// the instant in ms if (unit, form, value) is a supported way to say it, per the documented ranges
func (t timeRep) supported() (uint64, bool) {
	if t.spelled() {
		ms, _, ok := t.denoted()
		return ms, ok
	}
	switch t.Unit {
	case "s":
		if t.Val > 0 && t.Val < milliT {
			return t.Val * 1000, true
		}
	case "ms":
		if t.Val >= milliT && (t.Form == "num" && t.Val < 1<<63 || t.Form == "str" && t.Val < nanoT) {
			return t.Val, true
		}
	case "ns":
		if t.Form == "str" && t.Val >= nanoT {
			return t.Val / 1000000, true
		}
	}
	return 0, false
}

type levent struct {
	Cid    string  `json:"cid"`
	Stream string  `json:"stream"` // A: free of known triggers; B: trigger-rich
	Time   timeRep `json:"time"`
	TimeNs uint64  `json:"time_ns"` // the instant in ns for the protocols with a ns field (0 = no time)
	Msg    string  `json:"msg"`
	Attrs  []kv    `json:"attrs"`
	Res    []kv    `json:"res"` // resource attributes / HEC host,source / labels
	Trace  []byte  `json:"trace,omitempty"`
	Span   []byte  `json:"span,omitempty"`
	// stream K: nested members of the event (objects, arrays) next to the flat attributes; the flat members of the
	// HEC envelope's own "fields" object
	Tree   jobj `json:"tree,omitempty"`
	Fields []kv `json:"hec_fields,omitempty"`
}

// every key has one value kind: a column that holds strings and numbers in one block is
// re-typed by the writer (property C01), which is not what this check is about
var keyPool = []string{"k1", "status_code", "user", "a.b", "http.method", "latency_ms", "n", "x_y", "Region", "v2"}
var keyKind = map[string]string{"k1": "s", "status_code": "i", "user": "s", "a.b": "i", "http.method": "s", "latency_ms": "f", "n": "i", "x_y": "b", "Region": "s", "v2": "f"}
var strPool = []string{"x", "GET", "hello world", "a=b", "200", "007", "true", "ok:1", "caf", "{j}", "a,b", "1e3"}
var resKeyPool = []string{"service.name", "host.name", "env", "k8s.pod"}

func genAttrs(r *vhlib.Rng, bigInts bool) []kv {
	n := r.Range(1, 5)
	used := map[string]bool{}
	var out []kv
	for len(out) < n {
		k := vhlib.Pick(r, keyPool)
		if used[k] {
			continue
		}
		used[k] = true
		var v sv
		switch keyKind[k] {
		case "s":
			v = sv{Kind: "s", S: vhlib.Pick(r, strPool)}
			if r.Chance(30) {
				v.S = fmt.Sprintf("v%d", r.Intn(100000))
			}
		case "i":
			v = sv{Kind: "i", I: int64(r.Intn(2000)) - 1000}
			if r.Chance(30) {
				v.I = vhlib.Pick(r, []int64{two53 - 1, -(two53 - 1), 1 << 31, 1<<32 + 1, 1600000000123, 0, -1})
			}
			if bigInts && r.Chance(60) {
				v.I = vhlib.Pick(r, []int64{two53 + 1, -(two53 + 1), two53 + 3, 1<<62 + 1, 1234567890123456789, two53*4 + 2})
			}
		case "f":
			v = sv{Kind: "f", F: float64(r.Intn(4000)-2000) + vhlib.Pick(r, []float64{0.5, 0.25, 0.75, 0.125})}
		case "b":
			v = sv{Kind: "b", B: r.Bool()}
		}
		out = append(out, kv{k, v})
	}
	return out
}

func genEvent(r *vhlib.Rng, i int, stream string) levent {
	e := levent{Cid: fmt.Sprintf("%s%d", strings.ToLower(stream), i), Stream: stream}
	e.Msg = fmt.Sprintf("msg %s %d %s", stream, i, vhlib.Pick(r, strPool))
	e.Attrs = genAttrs(r, stream == "B")
	nres := r.Range(1, 2)
	for j := 0; j < nres; j++ {
		e.Res = append(e.Res, kv{resKeyPool[(i+j)%len(resKeyPool)], sv{Kind: "s", S: fmt.Sprintf("r%d", r.Intn(50))}})
	}
	// instant: 2020-01-01 .. 2023-11-14, or none
	if stream == "A" && r.Chance(25) {
		e.Time = timeRep{Unit: "none"}
	} else {
		ms := uint64(1577836800000) + r.U64()%uint64(122163200000)
		ns := ms*1000000 + r.U64()%1000000
		e.TimeNs = ns
		switch r.Intn(5) {
		case 0:
			e.Time = timeRep{Unit: "s", Form: "num", Val: ms / 1000}
		case 1:
			e.Time = timeRep{Unit: "ms", Form: "num", Val: ms}
		case 2:
			e.Time = timeRep{Unit: "s", Form: "str", Val: ms / 1000}
		case 3:
			e.Time = timeRep{Unit: "ms", Form: "str", Val: ms}
		case 4:
			e.Time = timeRep{Unit: "ns", Form: "str", Val: ns}
		}
		if e.Time.Unit == "s" {
			e.TimeNs = (ms / 1000) * 1000000000
		}
	}
	if r.Chance(70) {
		e.Trace = make([]byte, 16)
		e.Span = make([]byte, 8)
		for j := range e.Trace {
			e.Trace[j] = byte(r.Intn(256))
		}
		for j := range e.Span {
			e.Span[j] = byte(r.Intn(256))
		}
	}
	return e
}

// numeric spellings of a time: M * 10^E as fraction / exponent / long integer
func spellings(r *vhlib.Rng, n int) []timeRep {
	var out []timeRep
	add := func(form, m string, e int) { out = append(out, timeRep{Unit: "num", Form: form, M: m, E: e}) }
	for i := 0; i < n; i++ {
		ms := uint64(1577836800000) + r.U64()%uint64(122163200000)
		sec := ms / 1000
		switch i % 8 {
		case 0: // seconds with a zero fraction: 1714352490.000
			add("frac", coqN(sec)+"000", -3)
		case 1: // seconds with milliseconds: 1714352490.251 (the fraction is cut by the reader)
			if ms%1000 == 0 {
				ms += 251
			}
			add("frac", coqN(ms), -3)
		case 2: // milliseconds with a fraction: 1714352490251.5
			f := vhlib.Pick(r, []string{"5", "25", "999"})
			add("frac", coqN(ms)+f, -len(f))
		case 3: // milliseconds, exponent form: 1.714352490251e12
			add("exp", coqN(ms), 0)
		case 4: // seconds, exponent form: 1.71435249e9
			add("exp", coqN(sec), 0)
		case 5: // seconds with milliseconds, exponent form: 1.714352490251e9
			if ms%1000 == 0 {
				ms += 7
			}
			add("exp", coqN(ms), -3)
		case 6: // integer literals beyond int64 (exactly representable as float64)
			add("big", vhlib.Pick(r, []string{"9223372036854775808", "9223372036854779904", "12", "92233720368547758080000"}), 0)
			if out[len(out)-1].M == "12" {
				out[len(out)-1].E = 18
			}
			if len(out[len(out)-1].M) > 20 { // 9223372036854775808.0000 spelled as a fraction instead
				out[len(out)-1].Form, out[len(out)-1].E = "frac", -4
			}
		case 7: // milliseconds with trailing zeros in exponent form: 1.7143524e12
			add("exp", strings.TrimRight(coqN(ms/100000), "0"), 5+len(coqN(ms/100000))-len(strings.TrimRight(coqN(ms/100000), "0")))
		}
	}
	return out
}

func spellingEvents(r *vhlib.Rng, n int) []levent {
	var out []levent
	for i, t := range spellings(r, n) {
		out = append(out, levent{Cid: fmt.Sprintf("n%d", i), Stream: "N", Time: t, Msg: "numeric spelling " + t.text(),
			Attrs: []kv{{"n", sv{Kind: "i", I: int64(i)}}}, Res: []kv{{"service.name", sv{Kind: "s", S: "hostN"}}}})
	}
	return out
}

// boundary events for the ES path only (the protocol whose wire format carries every representation)
func boundaryEvents() []levent {
	var out []levent
	vals := []uint64{1, 999, 1600000000, 9999999999, 10000000000, 99999999998, 99999999999, 100000000000,
		999999999999, 1000000000000, 1600000000123, 9999999999999, 1600000000123456, 999999999999999999,
		1000000000000000000, 1000000000000000001, 1600000000123456789, 9223372036854775807, 4102444800}
	for i, v := range vals {
		for _, form := range []string{"num", "str"} {
			unit := "s"
			if v >= nanoT {
				unit = "ns"
			} else if v >= milliT {
				unit = "ms"
			}
			if v == 1600000000123456 {
				unit = "us"
			}
			e := levent{Cid: fmt.Sprintf("t%d%s", i, form), Stream: "T", Time: timeRep{Unit: unit, Form: form, Val: v}, Msg: "boundary",
				Attrs: []kv{{"n", sv{Kind: "i", I: int64(i)}}}}
			out = append(out, e)
		}
	}
	return out
}

func otlpAny(v sv) *commonpb.AnyValue {
	switch v.Kind {
	case "s":
		return &commonpb.AnyValue{Value: &commonpb.AnyValue_StringValue{StringValue: v.S}}
	case "i":
		return &commonpb.AnyValue{Value: &commonpb.AnyValue_IntValue{IntValue: v.I}}
	case "f":
		return &commonpb.AnyValue{Value: &commonpb.AnyValue_DoubleValue{DoubleValue: v.F}}
	}
	return &commonpb.AnyValue{Value: &commonpb.AnyValue_BoolValue{BoolValue: v.B}}
}
func otlpKVs(fs []kv) []*commonpb.KeyValue {
	var out []*commonpb.KeyValue
	for _, f := range fs {
		out = append(out, &commonpb.KeyValue{Key: f.K, Value: otlpAny(f.V)})
	}
	return out
}

type window struct{ lo, hi uint64 }

type logObs struct {
	found int
	st    stored
	win   window
}

func (o logObs) coq() string {
	ks := make([]string, 0, len(o.st.fields))
	for k := range o.st.fields {
		ks = append(ks, k)
	}
	sort.Strings(ks)
	fs := make([]kv, 0, len(ks))
	for _, k := range ks {
		fs = append(fs, kv{k, o.st.fields[k]})
	}
	return fmt.Sprintf("(mk_lobs %d %d %d %s)", o.win.lo, o.win.hi, o.st.ts, coqEvent(fs))
}

// expected columns: the protocol's attribute -> column mapping, written down independently of the model
type expect struct {
	cols      map[string]sv // must be present with this value
	exact     bool          // no other column may be present
	carried   uint64        // the instant the event carries (ms), 0 = none
	skipTime  bool          // the time representation is outside the documented ranges: not judged
	timeKnown string        // class to use when a carried time is replaced by the arrival time
	altTime   uint64        // a specific wrong time with its own class (seconds whose fraction was cut)
	altClass  string
	lostClass   func(k string) string // a more specific class for a missing column (stream K)
	nestedTimes map[uint64]string     // instants that nested fields named like the timestamp key denote -> their column
	nestedClass string                // class for a stored time found in nestedTimes (default <proto>_time_taken_from_nested_field)
	alteredClass func(k string, got sv) string // a more specific class for an altered column (stream R)
}

func checkStored(sum *vhlib.Summary, proto string, cid string, ex expect, o logObs, extraOK func(k string) string, c interface{}) {
	if o.found == 0 {
		fail(sum, proto+"_event_lost", fmt.Sprintf("%s: event %s was accepted but is not returned by a match-all search", proto, cid), c)
		return
	}
	if o.found > 1 {
		fail(sum, proto+"_event_duplicated", fmt.Sprintf("%s: event %s is stored %d times", proto, cid, o.found), c)
	}
	inWin := o.st.ts >= o.win.lo && o.st.ts <= o.win.hi
	if ex.skipTime {
		// nothing
	} else if ex.carried != 0 {
		if o.st.ts != ex.carried {
			cl := proto + "_time_not_preserved"
			if inWin && ex.timeKnown != "" {
				cl = ex.timeKnown
			} else if inWin {
				cl = proto + "_time_replaced_by_arrival_time"
			} else if ex.altClass != "" && o.st.ts == ex.altTime {
				cl = ex.altClass
			}
			if col, ok := ex.nestedTimes[o.st.ts]; ok {
				cl = proto + "_time_taken_from_nested_field"
				if ex.nestedClass != "" {
					cl = ex.nestedClass
				}
				fail(sum, cl, fmt.Sprintf("%s: event %s carried time %d ms of its own, stored timestamp %d is the value of its field %q", proto, cid, ex.carried, o.st.ts, col), c)
			} else {
				fail(sum, cl, fmt.Sprintf("%s: event %s carried time %d ms, stored timestamp %d (arrival window %d..%d)", proto, cid, ex.carried, o.st.ts, o.win.lo, o.win.hi), c)
			}
		}
	} else if col, ok := ex.nestedTimes[o.st.ts]; ok && !inWin {
		fail(sum, proto+"_time_taken_from_nested_field", fmt.Sprintf("%s: event %s carries no time at its root, stored timestamp %d is the value of its nested field %q", proto, cid, o.st.ts, col), c)
	} else if !inWin {
		fail(sum, proto+"_arrival_time_wrong", fmt.Sprintf("%s: event %s carries no time, stored timestamp %d is outside the arrival window %d..%d", proto, cid, o.st.ts, o.win.lo, o.win.hi), c)
	}
	keys := make([]string, 0, len(ex.cols))
	for k := range ex.cols {
		keys = append(keys, k)
	}
	sort.Strings(keys)
	for _, k := range keys {
		want := ex.cols[k]
		got, ok := o.st.fields[k]
		if !ok {
			cl := proto + "_field_lost"
			if ex.lostClass != nil {
				if c2 := ex.lostClass(k); c2 != "" {
					cl = c2
				}
			}
			fail(sum, cl, fmt.Sprintf("%s: event %s: column %q (%v) is missing; stored columns %v", proto, cid, k, want, o.st.fields), c)
			continue
		}
		if !got.eq(want) {
			cl := proto + "_field_altered"
			if ex.alteredClass != nil {
				if c2 := ex.alteredClass(k, got); c2 != "" {
					fail(sum, c2, fmt.Sprintf("%s: event %s: column %q must be %v, stored as %v", proto, cid, k, want, got), c)
					continue
				}
			}
			// an integer literal that went through a float64 (decoded into interface{} without UseNumber): the
			// nearest float64, or the integer its shortest decimal text denotes
			if want.Kind == "i" && (want.I >= two53 || want.I <= -two53) {
				if v, ok := viaFloatText(want.I); ok && got.Kind == "i" && got.I == int64(v) || got.eq(want.viaFloat()) {
					cl = proto + "_int_via_float64"
				}
			} else if want.Kind == "w" && got.eq(want.viaFloat()) {
				// an integer literal in [2^63, 2^64): the JSON reader of the segment writer knows int64 and float64 only
				cl = "uint64_beyond_int64_stored_as_float64"
			}
			fail(sum, cl, fmt.Sprintf("%s: event %s: column %q sent as %v, stored as %v", proto, cid, k, want, got), c)
		}
	}
	if ex.exact {
		var extra []string
		for k := range o.st.fields {
			if _, ok := ex.cols[k]; !ok {
				extra = append(extra, k)
			}
		}
		sort.Strings(extra)
		for _, k := range extra {
			cl := proto + "_field_extra"
			if extraOK != nil {
				if c2 := extraOK(k); c2 != "" {
					cl = c2
				}
			}
			fail(sum, cl, fmt.Sprintf("%s: event %s: stored column %q=%v was not part of the event", proto, cid, k, o.st.fields[k]), c)
		}
	}
}

// json.Marshal(float64(z)) read back as an int64
func viaFloatText(z int64) (uint64, bool) {
	b, err := json.Marshal(float64(z))
	if err != nil {
		return 0, false
	}
	i, err := strconv.ParseInt(string(b), 10, 64)
	if err != nil {
		return 0, false
	}
	return uint64(i), true
}

func indexBy(obs []stored, key string) map[string][]stored {
	m := map[string][]stored{}
	for _, s := range obs {
		if v, ok := s.fields[key]; ok && v.Kind == "s" {
			m[v.S] = append(m[v.S], s)
		}
	}
	return m
}

func pickObs(m map[string][]stored, cid string, w window) logObs {
	l := m[cid]
	o := logObs{found: len(l), win: w}
	if len(l) > 0 {
		o.st = l[0]
	} else {
		o.st = stored{fields: map[string]sv{}}
	}
	return o
}

const batch = 25

// ---------- ES bulk ----------
func (t timeRep) esJSON() string {
	if t.Unit == "none" {
		return ""
	}
	if t.spelled() {
		return `"timestamp":` + t.text() + ","
	}
	if t.Form == "num" {
		return `"timestamp":` + coqN(t.Val) + ","
	}
	return `"timestamp":"` + coqN(t.Val) + `",`
}

// the timestamp value as a Coq sval (numbers only)
func (t timeRep) coqSval() string {
	switch t.Form {
	case "frac", "exp":
		return fmt.Sprintf("(SDec %s%%Z (%d)%%Z)", t.M, t.E)
	case "big":
		return "(SInt " + t.text() + "%Z)"
	}
	return "(SInt " + coqN(t.Val) + "%Z)"
}
func (t timeRep) coqWire() string {
	if t.Unit == "none" {
		return "WNone"
	}
	switch t.Form {
	case "frac", "exp":
		return fmt.Sprintf("(WDec %s%%Z (%d)%%Z)", t.M, t.E)
	case "big":
		return "(WNum " + t.text() + "%Z)"
	case "num":
		return "(WNum " + coqN(t.Val) + "%Z)"
	}
	return "(WStr " + coqS(coqN(t.Val)) + ")"
}

// the document of an event as it is written into ES bulk bodies and single-document requests
func esDoc(e levent) string {
	doc := "{" + e.Time.esJSON() + `"cid":"` + e.Cid + `","message":` + sv{Kind: "s", S: e.Msg}.json()
	if len(e.Attrs) > 0 {
		doc += "," + jsonMembers(e.Attrs)
	}
	if len(e.Tree) > 0 {
		doc += "," + membersJSON(e.Tree)
	}
	return doc + "}"
}

// what an ES document must be stored as (both ES protocols): every field as sent, the time it carries
func esExpect(sum *vhlib.Summary, proto string, e levent) expect {
	ex := expect{cols: map[string]sv{"cid": {Kind: "s", S: e.Cid}, "message": {Kind: "s", S: e.Msg}}, exact: true}
	for _, a := range e.Attrs {
		ex.cols[a.K] = a.V.expected()
	}
	if e.Stream == "K" {
		expectTree(&ex, proto, "", 0, e.Tree)
	}
	if t, ok := e.Time.supported(); ok {
		ex.carried = t
		if e.Time.spelled() {
			if _, cut, _ := e.Time.denoted(); cut != t {
				ex.altTime, ex.altClass = cut, "ts_fractional_seconds_truncated"
			}
		}
	} else if e.Time.Unit != "none" {
		// a representation outside the documented ranges: only content is judged, the time goes to the model
		ex.skipTime = true
		sum.Count(proto + "/unsupported_time_representation")
	}
	return ex
}

// what ES bulk stored for an event (by case id): the single-document protocol must store the same
var bulkStored = map[string]stored{}

func runES(sum *vhlib.Summary, evs []levent, cases *[]string, ix string) {
	wins := make([]window, len(evs))
	for b := 0; b < len(evs); b += batch {
		var sb strings.Builder
		end := b + batch
		if end > len(evs) {
			end = len(evs)
		}
		for _, e := range evs[b:end] {
			sb.WriteString(`{"index":{"_index":"` + ix + `"}}` + "\n" + esDoc(e) + "\n")
		}
		lo := nowMs() - 1
		n, resp, err := eswriter.HandleBulkBody([]byte(sb.String()), nil, 0, 0, false)
		hi := nowMs() + 1
		if err != nil || n != end-b || resp["errors"] != false {
			sum.HarnessError(fmt.Sprintf("es bulk: n=%d err=%v errors=%v", n, err, resp["errors"]))
		}
		for i := b; i < end; i++ {
			wins[i] = window{lo, hi}
		}
	}
	flushLogs()
	obs, err := search(ix)
	if err != nil {
		sum.HarnessError("es search: " + err.Error())
		return
	}
	byCid := indexBy(obs, "cid")
	earlier := map[string]bool{}
	for i, e := range evs {
		if i%batch == 0 {
			earlier = map[string]bool{} // one bulk body
		}
		o := pickObs(byCid, e.Cid, wins[i])
		if o.found > 0 {
			bulkStored[e.Cid] = o.st
		}
		ex := esExpect(sum, "es", e)
		countLits(sum, "es", e)
		countTree(sum, "es", e)
		sum.Count("es/time_" + e.Time.Unit + "_" + e.Time.Form)
		sum.Eval("es/"+e.Cid, true)
		checkStored(sum, "es", e.Cid, ex, o, leakClass("es", earlier, ""), map[string]interface{}{"protocol": "es_bulk", "event": e})
		for _, a := range e.Attrs {
			earlier[a.K] = true
		}
		attrs := append([]kv{{"cid", sv{Kind: "s", S: e.Cid}}, {"message", sv{Kind: "s", S: e.Msg}}}, e.Attrs...)
		if len(e.Tree) > 0 { // a tree document: the model's flattener itself
			*cases = append(*cases, fmt.Sprintf("(LEsTree %s %s %s, %s, %s)", e.Time.coqWire(), coqEvent(attrs), coqTree(e.Tree), coqS(ix), o.coq()))
		} else {
			*cases = append(*cases, fmt.Sprintf("(LEs %s %s, %s, %s)", e.Time.coqWire(), coqEvent(attrs), coqS(ix), o.coq()))
		}
		if i%40 == 0 {
			sum.Sample(map[string]interface{}{"protocol": "es_bulk", "event": e, "stored_ts": o.st.ts, "stored_columns": len(o.st.fields)})
		}
	}
}

// ---------- stream L: number literals ----------
// Every way a JSON document spells a number, each under a key of its own (one value kind per column):
//   order_id, span_start_ns, ctx.id (nested object): integers beyond 2^53 inside int64 (64-bit ids, nanosecond epochs)
//   u64id: integers in [2^63, 2^64);  wide: integer literals beyond 64 bits (the store keeps the nearest float64)
//   ratio: non-integral decimals: shortest digits of a float64 in fraction / exponent spelling, and long
//          decimals (40 places) whose nearest float64 is that value;  mag: large and small exponents, denormals
//   small, note: an ordinary integer and a string with characters that JSON writers escape
// The expected stored value is the literal's own value: the exact integer inside 64 bits, else the nearest float64.
var litOrderIDs = []int64{two53 + 1, two53 + 3, -(two53 + 1), math.MaxInt64, math.MinInt64, math.MinInt64 + 1, 1541815603606036481,
	1<<62 + 1, 1714352490251123457, 999999999999999999, -1234567890123456789, two53*2 + 2}
var litU64s = []uint64{1 << 63, 1<<63 + 1, math.MaxUint64, math.MaxUint64 - 1, 12345678901234567891, 1<<63 + 1025}
var litRatios = []float64{0.1, 1.0 / 3, 3.141592653589793, 2.718281828459045, 0.30000000000000004, 123456.78901234567, -0.000123456789012345, 1714352490.2511234}
var litMags = []string{"1e300", "1.7976931348623157e308", "2.2250738585072014e-308", "5e-324", "1E-300", "6.02214076e+23", "1e22", "1.5e-10",
	"-1e300", "4.9406564584124654e-324", "1.0E+25", "-2.5e-7"}
var litWides = []string{"18446744073709551616", "100000000000000000000001", "340282366920938463463374607431768211456", "-18446744073709551617",
	"92233720368547758080", "-9223372036854775809"}
var litNotes = []string{"plain", "a<b&c>d", "q\"uote\\back", "tab\there", "nl\nx", "é ü 漢", "sep x", "{\"j\":1}", "1e3", "007"}

func litEvents(r *vhlib.Rng, n int) []levent {
	var out []levent
	bigInt := func(idx int, fixed []int64) int64 {
		if idx >= 0 && idx < len(fixed) {
			return fixed[idx]
		}
		v := int64(r.U64()>>1) | 1
		if v < two53 {
			v += 1 << 60
		}
		if r.Bool() {
			v = -v
		}
		return v
	}
	for i := 0; i < n; i++ {
		e := genEvent(r, i, "L")
		e.Msg = fmt.Sprintf("number literals %d", i)
		if len(e.Trace) == 0 {
			e.Trace = []byte{0xaa, 2, 3, 4, 5, 6, 7, 8, 9, 10, 11, 12, 13, 14, byte(i >> 8), byte(i)}
			e.Span = []byte{0xbb, 2, 3, 4, 5, 6, byte(i >> 8), byte(i)}
		}
		if i%5 == 4 {
			e.Time = timeRep{Unit: "none"} // the document carries no time (the ns field of the OTLP protocols still does)
		}
		var at []kv
		add := func(k string, v sv) { at = append(at, kv{k, v}) }
		add("small", sv{Kind: "i", I: int64(r.Intn(1000))})
		if i%2 == 0 || r.Chance(40) {
			idx := -1
			if i%2 == 0 {
				idx = i / 2
			}
			add("order_id", sv{Kind: "i", I: bigInt(idx, litOrderIDs)})
		}
		if i%3 != 1 {
			add("span_start_ns", sv{Kind: "i", I: int64(1577836800000000000+r.U64()%120000000000000000) | 1})
		}
		if i%4 == 1 || r.Chance(25) {
			u := r.U64() | 1<<63 | 1
			if i/4 < len(litU64s) && i%4 == 1 {
				u = litU64s[i/4]
			}
			add("u64id", sv{Kind: "w", W: coqN(u)})
		}
		if i%3 == 0 || r.Chance(30) {
			f := math.Float64frombits(uint64(1023+r.Range(-20, 20))<<52 | r.U64()&(1<<52-1) | 1)
			if i/3 < len(litRatios) && i%3 == 0 {
				f = litRatios[i/3]
			} else if r.Bool() {
				f = -f
			}
			lit := strconv.FormatFloat(f, 'f', -1, 64)
			switch r.Intn(4) {
			case 1:
				lit = strconv.FormatFloat(f, 'e', -1, 64)
			case 2:
				lit = strings.Replace(strings.ToUpper(strconv.FormatFloat(f, 'e', -1, 64)), "E+", "E", 1)
			case 3: // a long decimal: 40 places of the exact value
				lit = strconv.FormatFloat(f, 'f', 40, 64)
			}
			if g, err := strconv.ParseFloat(lit, 64); err != nil || g != f {
				lit = strconv.FormatFloat(f, 'f', -1, 64)
			}
			add("ratio", sv{Kind: "f", F: f, Lit: lit})
		}
		if i%4 == 2 || r.Chance(20) {
			lit := vhlib.Pick(r, litMags)
			if i/4 < len(litMags) && i%4 == 2 {
				lit = litMags[i/4]
			}
			f, _ := strconv.ParseFloat(lit, 64)
			add("mag", sv{Kind: "f", F: f, Lit: lit})
		}
		if i%6 == 3 || r.Chance(10) {
			lit := vhlib.Pick(r, litWides)
			if i/6 < len(litWides) && i%6 == 3 {
				lit = litWides[i/6]
			}
			add("wide", sv{Kind: "w", W: lit})
		}
		if i%3 == 2 || r.Chance(20) {
			add("ctx.id", sv{Kind: "i", I: bigInt(-1, nil)})
			if r.Bool() {
				add("ctx.shard", sv{Kind: "i", I: int64(r.Intn(64))})
			}
		}
		if i%2 == 1 {
			add("note", sv{Kind: "s", S: litNotes[(i/2)%len(litNotes)]})
		}
		// the order of the members varies
		if r.Bool() {
			for a, b := 0, len(at)-1; a < b; a, b = a+1, b-1 {
				at[a], at[b] = at[b], at[a]
			}
		}
		e.Attrs = at
		out = append(out, e)
	}
	return out
}

// histogram of the number literals a protocol was given
func countLits(sum *vhlib.Summary, proto string, e levent) {
	if e.Stream != "L" {
		return
	}
	for _, a := range e.Attrs {
		switch {
		case a.V.Kind == "i" && (a.V.I > two53 || a.V.I < -two53):
			sum.Count(proto + "/literal_int_beyond_2^53")
		case a.V.Kind == "w" && a.K == "u64id":
			sum.Count(proto + "/literal_int_2^63..2^64")
		case a.V.Kind == "w":
			sum.Count(proto + "/literal_int_beyond_64_bits")
		case a.V.Kind == "f" && a.K == "mag":
			sum.Count(proto + "/literal_exponent")
		case a.V.Kind == "f" && len(a.V.Lit) > 30:
			sum.Count(proto + "/literal_long_decimal")
		case a.V.Kind == "f":
			sum.Count(proto + "/literal_decimal")
		}
	}
}

// the part of a stream-L event a protocol can express: typed protocols (OTLP) have int64 and double values;
// HEC is given what stays inside int64 after its float64 detour (the detour itself is the known finding)
func litFor(proto string, evs []levent) []levent {
	out := make([]levent, len(evs))
	for i, e := range evs {
		var at []kv
		for _, a := range e.Attrs {
			if a.V.Kind == "w" && (proto != "hec" || a.K == "u64id") {
				continue
			}
			at = append(at, a)
		}
		e.Attrs = at
		out[i] = e
	}
	return out
}

// ---------- ES single-document requests ----------
// PUT/POST /{index}/_doc[/{id}], /{index}/_create/{id}, /{index}/_update/{id} and the pre-7.x routes with a document
// type all end in ProcessPutPostSingleDocRequest; the router hands over the user values indexName, _id, docType.
type docVariant struct {
	Route   string `json:"route"`
	ID      string `json:"id,omitempty"`      // as the client means it
	Escaped string `json:"escaped,omitempty"` // as it stands in the URL
	DocType string `json:"doc_type,omitempty"`
	Update  bool   `json:"update,omitempty"`
	Refresh bool   `json:"refresh,omitempty"`
}

func docVariantOf(i int, cid string) docVariant {
	switch i % 7 {
	case 0:
		return docVariant{Route: "POST /{index}/_doc"}
	case 1:
		return docVariant{Route: "PUT /{index}/_doc/{id}", ID: "d-" + cid, Escaped: "d-" + cid}
	case 2:
		return docVariant{Route: "PUT /{index}/_create/{id}", ID: "c-" + cid, Escaped: "c-" + cid}
	case 3:
		return docVariant{Route: "POST /{index}/_update/{id}", ID: "u-" + cid, Escaped: "u-" + cid, Update: true}
	case 4:
		return docVariant{Route: "PUT /{index}/{docType}/{id}", ID: "t-" + cid, Escaped: "t-" + cid, DocType: "logs"}
	case 5:
		return docVariant{Route: "POST /{index}/_doc/{id}?refresh=true", ID: "o/" + cid + " x", Escaped: "o%2F" + cid + "+x", Refresh: true}
	}
	return docVariant{Route: "POST /{index}/_doc/ (empty id)"}
}

func (v docVariant) coq(gen string) string {
	route := "RDoc"
	if strings.Contains(v.Route, "_create") {
		route = "RCreate"
	} else if v.Update {
		route = "RUpdate"
	}
	id := "None"
	if v.ID != "" {
		id = "(Some " + coqS(v.ID) + ")"
	} else if strings.Contains(v.Route, "empty id") {
		id = "(Some [])"
	}
	return fmt.Sprintf("%s (mk_docq %s %s %s %s)", coqS(gen), route, id, coqS(v.DocType), vhlib.CoqBool(v.Refresh))
}

func looksLikeUUID(s string) bool {
	if len(s) != 36 {
		return false
	}
	for i := 0; i < len(s); i++ {
		c := s[i]
		if i == 8 || i == 13 || i == 18 || i == 23 {
			if c != '-' {
				return false
			}
		} else if !(c >= '0' && c <= '9' || c >= 'a' && c <= 'f') {
			return false
		}
	}
	return true
}

func runESDoc(sum *vhlib.Summary, evs []levent, cases *[]string, ix string) {
	wins := make([]window, len(evs))
	vars := make([]docVariant, len(evs))
	respID := make([]string, len(evs))
	for i, e := range evs {
		v := docVariantOf(i, e.Cid)
		vars[i] = v
		ctx := mkctx([]byte(esDoc(e)), "application/json")
		uri := "/elastic/" + ix + "/_doc"
		if v.Refresh {
			uri += "/" + v.Escaped + "?refresh=true"
		}
		ctx.Request.SetRequestURI(uri)
		ctx.SetUserValue("indexName", ix)
		if v.ID != "" {
			ctx.SetUserValue("_id", v.Escaped)
		} else if strings.Contains(v.Route, "empty id") {
			ctx.SetUserValue("_id", "")
		}
		if v.DocType != "" {
			ctx.SetUserValue("docType", v.DocType)
		}
		lo := nowMs() - 1
		eswriter.ProcessPutPostSingleDocRequest(ctx, v.Update, 0)
		hi := nowMs() + 1
		wins[i] = window{lo, hi}
		c := map[string]interface{}{"protocol": "es_doc", "request": v, "event": e, "body": esDoc(e)}
		var resp map[string]interface{}
		if ctx.Response.StatusCode() != 200 || json.Unmarshal(ctx.Response.Body(), &resp) != nil {
			fail(sum, "es_doc_request_rejected", fmt.Sprintf("es_doc: %s for event %s answered %d %s", v.Route, e.Cid, ctx.Response.StatusCode(), ctx.Response.Body()), c)
			continue
		}
		respID[i], _ = resp["_id"].(string)
		want := "created"
		if v.Update {
			want = "updated"
		}
		if resp["result"] != want {
			fail(sum, "es_doc_response_result_wrong", fmt.Sprintf("es_doc: %s for event %s answered result=%v, expected %s", v.Route, e.Cid, resp["result"], want), c)
		}
	}
	flushLogs()
	obs, err := search(ix)
	if err != nil {
		sum.HarnessError("es doc search: " + err.Error())
		return
	}
	byCid := indexBy(obs, "cid")
	autoIDs := map[string]string{}
	for i, e := range evs {
		v := vars[i]
		o := pickObs(byCid, e.Cid, wins[i])
		c := map[string]interface{}{"protocol": "es_doc", "request": v, "event": e, "body": esDoc(e)}
		ex := esExpect(sum, "es_doc", e)
		// the identifier: the one of the URL; a generated one (told to the client in the response) when the URL has none
		gen := ""
		wantID := v.ID
		if v.ID != "" {
			if respID[i] != v.ID {
				fail(sum, "es_doc_response_id_wrong", fmt.Sprintf("es_doc: %s with id %q for event %s: the response names _id=%q", v.Route, v.ID, e.Cid, respID[i]), c)
			}
		} else {
			gen = respID[i]
			wantID = gen
			if !looksLikeUUID(gen) {
				fail(sum, "es_doc_generated_id_malformed", fmt.Sprintf("es_doc: %s for event %s: generated _id %q is not a UUID", v.Route, e.Cid, gen), c)
			} else if other, dup := autoIDs[gen]; dup {
				fail(sum, "es_doc_generated_id_reused", fmt.Sprintf("es_doc: events %s and %s were given the same generated _id %q", other, e.Cid, gen), c)
			}
			autoIDs[gen] = e.Cid
		}
		// "_id" and "_type" are ES metadata: the record reader leaves them out of the records it returns
		// (recordreader.go: !esQuery), so a match-all search does not show them; if it does, they must be right
		for _, m := range []struct{ k, want string }{{"_id", wantID}, {"_type", v.DocType}} {
			if got, ok := o.st.fields[m.k]; ok {
				if m.want == "" || got.Kind != "s" || got.S != m.want {
					fail(sum, "es_doc"+m.k+"_altered", fmt.Sprintf("es_doc: %s for event %s: %s must be %q, stored as %v", v.Route, e.Cid, m.k, m.want, got), c)
				}
				delete(o.st.fields, m.k)
				sum.Count("es_doc/" + m.k + "_visible")
			}
		}
		countLits(sum, "es_doc", e)
		countTree(sum, "es_doc", e)
		sum.Count("es_doc/route " + v.Route)
		sum.Count("es_doc/stream_" + e.Stream)
		sum.Count("es_doc/time_" + e.Time.Unit + "_" + e.Time.Form)
		sum.Eval("es_doc/"+e.Cid, true)
		checkStored(sum, "es_doc", e.Cid, ex, o, nil, c)
		// the same event through the other ES protocol: stored identically (content and time)
		if b, ok := bulkStored[e.Cid]; ok && o.found > 0 {
			var diff []string
			for _, a := range append(append([]kv{{"message", sv{}}}, e.Attrs...), flatTree("", e.Tree)...) {
				bv, bok := b.fields[a.K]
				dv, dok := o.st.fields[a.K]
				if bok != dok || bok && !bv.eq(dv) {
					diff = append(diff, fmt.Sprintf("%s: bulk %v / doc %v (sent %s)", a.K, bv, dv, a.V.json()))
				}
			}
			if e.Time.Unit != "none" && b.ts != o.st.ts {
				diff = append(diff, fmt.Sprintf("timestamp: bulk %d / doc %d", b.ts, o.st.ts))
			}
			if len(diff) > 0 {
				fail(sum, "es_doc_stored_differently_from_es_bulk", fmt.Sprintf("event %s sent as the same document through _bulk and through %s is stored differently: %s", e.Cid, v.Route, strings.Join(diff, "; ")), c)
			}
			sum.Count("es_doc/compared_with_es_bulk")
		}
		attrs := append([]kv{{"cid", sv{Kind: "s", S: e.Cid}}, {"message", sv{Kind: "s", S: e.Msg}}}, e.Attrs...)
		*cases = append(*cases, fmt.Sprintf("(LEsDoc %s %s %s, %s, %s)", v.coq(gen), e.Time.coqWire(), coqAttrsTree(attrs, e.Tree), coqS(ix), o.coq()))
		if i%40 == 5 {
			sum.Sample(map[string]interface{}{"protocol": "es_doc", "request": v, "event": e, "stored_ts": o.st.ts, "stored_columns": len(o.st.fields)})
		}
	}
}

// ---------- ES bulk through aliases and jaeger-* indices ----------
// The time key of a bulk document is decided by the REAL index (alias resolved): "startTimeMillis" for
// an index whose name starts with "jaeger-", the configured timestamp key otherwise (seed C16d).
func runESRoutes(sum *vhlib.Summary, r *vhlib.Rng, cases *[]string) {
	type route struct{ name, real string }
	routes := []route{
		{"c16rplain", "c16rplain"},
		{"jaeger-c16rsp", "jaeger-c16rsp"},
		{"c16rspans-write", "jaeger-c16rsp2"}, // plain-looking alias of a jaeger index
		{"jaeger-c16ralias", "c16rplain2"},    // jaeger-looking alias of a plain index
	}
	var al []string
	for _, rt := range routes {
		if rt.name != rt.real {
			real := rt.real
			if err := vtable.AddVirtualTable(&real, 0); err != nil {
				sum.HarnessError("routes: AddVirtualTable: " + err.Error())
				return
			}
			if err := vtable.AddAliases(rt.real, []string{rt.name}, 0); err != nil {
				sum.HarnessError("routes: AddAliases: " + err.Error())
				return
			}
			al = append(al, fmt.Sprintf("(%s, %s)", coqS(rt.name), coqS(rt.real)))
		}
	}
	alCoq := "[" + strings.Join(al, "; ") + "]"
	type rev struct {
		cid          string
		ts, jt       uint64 // 0 = key absent
		rt           route
		win          window
	}
	var evs []rev
	n := 0
	for _, rt := range routes {
		for k := 0; k < 6; k++ {
			e := rev{cid: fmt.Sprintf("rt%d", n), rt: rt}
			n++
			base := uint64(1600000000000) + uint64(r.Intn(90000000))*1000
			switch k % 4 {
			case 0:
				e.ts, e.jt = base, base+777000
			case 1:
				e.ts = base
			case 2:
				e.jt = base
			}
			evs = append(evs, e)
		}
	}
	// one bulk body per route, and one body mixing all routes
	send := func(idx []int) {
		var sb strings.Builder
		for _, i := range idx {
			e := evs[i]
			doc := `{"cid":"` + e.cid + `","message":"m ` + e.cid + `"`
			if e.ts != 0 {
				doc += fmt.Sprintf(`,"timestamp":%d`, e.ts)
			}
			if e.jt != 0 {
				doc += fmt.Sprintf(`,"startTimeMillis":%d`, e.jt)
			}
			doc += "}"
			sb.WriteString(`{"index":{"_index":"` + e.rt.name + `"}}` + "\n" + doc + "\n")
		}
		lo := nowMs() - 1
		nn, resp, err := eswriter.HandleBulkBody([]byte(sb.String()), nil, 0, 0, false)
		hi := nowMs() + 1
		if err != nil || nn != len(idx) || resp["errors"] != false {
			sum.HarnessError(fmt.Sprintf("es routes bulk: n=%d err=%v errors=%v", nn, err, resp["errors"]))
		}
		for _, i := range idx {
			evs[i].win = window{lo, hi}
		}
	}
	var mixed []int
	for ri := range routes {
		var own []int
		for i := range evs {
			if evs[i].rt == routes[ri] {
				if i%2 == 0 {
					own = append(own, i)
				} else {
					mixed = append(mixed, i)
				}
			}
		}
		send(own)
	}
	send(mixed)
	flushLogs()
	for _, rt := range routes {
		obs, err := search(rt.real)
		if err != nil {
			sum.HarnessError("es routes search: " + err.Error())
			return
		}
		byCid := indexBy(obs, "cid")
		for _, e := range evs {
			if e.rt != rt {
				continue
			}
			o := pickObs(byCid, e.cid, e.win)
			jaeger := strings.HasPrefix(rt.real, "jaeger-")
			ex := expect{cols: map[string]sv{"cid": {Kind: "s", S: e.cid}, "message": {Kind: "s", S: "m " + e.cid}}, exact: false,
				timeKnown: "es_route_time_replaced_by_arrival_time"}
			carried, other := e.ts, e.jt
			if jaeger {
				carried, other = e.jt, e.ts
			}
			ex.carried = carried
			if other != 0 && other != carried {
				ex.altTime, ex.altClass = other, "es_route_time_read_from_wrong_key"
			}
			kind := "plain"
			if jaeger {
				kind = "jaeger"
			}
			if rt.name != rt.real {
				kind += "_via_alias"
			}
			sum.Count("es_routes/" + kind)
			sum.Eval("esr/"+e.cid, true)
			checkStored(sum, "es", e.cid, ex, o, func(string) string { return "" }, map[string]interface{}{"protocol": "es_bulk_route", "requested": rt.name, "real_index": rt.real, "timestamp": e.ts, "startTimeMillis": e.jt})
			tw := "WNone"
			if e.ts != 0 {
				tw = fmt.Sprintf("(WNum %d)", e.ts)
			}
			attrs := []kv{{"cid", sv{Kind: "s", S: e.cid}}, {"message", sv{Kind: "s", S: "m " + e.cid}}}
			if e.jt != 0 {
				attrs = append(attrs, kv{"startTimeMillis", sv{Kind: "i", I: int64(e.jt)}})
			}
			*cases = append(*cases, fmt.Sprintf("(LEsVia %s %s %s, %s, %s)", alCoq, tw, coqEvent(attrs), coqS(rt.name), o.coq()))
		}
	}
}

// ---------- Splunk HEC ----------
func runHEC(sum *vhlib.Summary, evs []levent, cases *[]string, ix string) {
	wins := make([]window, len(evs))
	for b := 0; b < len(evs); b += batch {
		var sb strings.Builder
		end := b + batch
		if end > len(evs) {
			end = len(evs)
		}
		for _, e := range evs[b:end] {
			env := "{"
			if e.Stream == "N" { // non-standard, but honoured: a root "timestamp" in a numeric spelling
				env += e.Time.esJSON()
			}
			if e.TimeNs != 0 {
				env += `"time":` + coqN(e.TimeNs/1000000000) + ","
			}
			env += `"index":"` + ix + `"`
			for j, rk := range e.Res {
				name := []string{"host", "source", "sourcetype"}[j%3]
				env += `,"` + name + `":` + rk.V.json()
			}
			ev := append([]kv{{"cid", sv{Kind: "s", S: e.Cid}}, {"message", sv{Kind: "s", S: e.Msg}}}, e.Attrs...)
			if len(e.Fields) > 0 {
				env += `,"fields":` + jsonObj(e.Fields)
			}
			if len(e.Tree) > 0 {
				env += `,"event":{` + jsonMembers(ev) + "," + membersJSON(e.Tree) + "}}"
			} else {
				env += `,"event":` + jsonObj(ev) + "}"
			}
			sb.WriteString(env)
		}
		lo := nowMs() - 1
		ctx := mkctx([]byte(sb.String()), "application/json")
		splunk.ProcessSplunkHecIngestRequest(ctx, 0)
		hi := nowMs() + 1
		if ctx.Response.StatusCode() != 200 {
			sum.HarnessError(fmt.Sprintf("hec: status %d %s", ctx.Response.StatusCode(), ctx.Response.Body()))
		}
		for i := b; i < end; i++ {
			wins[i] = window{lo, hi}
		}
	}
	flushLogs()
	obs, err := search(ix)
	if err != nil {
		sum.HarnessError("hec search: " + err.Error())
		return
	}
	byCid := indexBy(obs, "event.cid")
	earlier := map[string]bool{}
	for i, e := range evs {
		if i%batch == 0 {
			earlier = map[string]bool{} // one HEC body
		}
		o := pickObs(byCid, e.Cid, wins[i])
		ex := expect{cols: map[string]sv{"event.cid": {Kind: "s", S: e.Cid}, "event.message": {Kind: "s", S: e.Msg}, "index": {Kind: "s", S: ix}},
			exact: true, timeKnown: "hec_time_ignored"}
		for _, a := range e.Attrs {
			ex.cols["event."+a.K] = a.V.expected()
		}
		if e.Stream == "K" {
			expectTree(&ex, "hec", "event.", 1, e.Tree)
		}
		var rootFs []kv
		for _, a := range e.Fields {
			ex.cols["fields."+a.K] = a.V.expected()
			rootFs = append(rootFs, kv{"fields." + a.K, a.V})
		}
		var metaFs []kv
		for j, rk := range e.Res {
			name := []string{"host", "source", "sourcetype"}[j%3]
			ex.cols[name] = rk.V
			metaFs = append(metaFs, kv{name, rk.V})
		}
		tm := "None"
		if e.TimeNs != 0 {
			ex.carried = (e.TimeNs / 1000000000) * 1000
			ex.cols["time"] = sv{Kind: "i", I: int64(e.TimeNs / 1000000000)}
			tm = "(Some (SInt " + coqN(e.TimeNs/1000000000) + "%Z))"
		}
		root := coqEvent(rootFs)
		if e.Stream == "N" {
			if t, ok := e.Time.supported(); ok {
				ex.carried, ex.timeKnown = t, ""
				if _, cut, _ := e.Time.denoted(); cut != t {
					ex.altTime, ex.altClass = cut, "ts_fractional_seconds_truncated"
				}
			}
			root = "[(k_timestamp, " + e.Time.coqSval() + ")]"
		}
		sum.Eval("hec/"+e.Cid, true)
		sum.Count("hec/stream_" + e.Stream)
		countLits(sum, "hec", e)
		countTree(sum, "hec", e)
		checkStored(sum, "hec", e.Cid, ex, o, leakClass("hec", earlier, ""), map[string]interface{}{"protocol": "splunk_hec", "event": e})
		for k := range ex.cols {
			earlier[k] = true
		}
		ev := append([]kv{{"cid", sv{Kind: "s", S: e.Cid}}, {"message", sv{Kind: "s", S: e.Msg}}}, e.Attrs...)
		*cases = append(*cases, fmt.Sprintf("(LHec {| h_time := %s; h_index := %s; h_meta := %s; h_root := %s; h_event := HObj %s |}, %s, %s)",
			tm, coqS(ix), coqEvent(metaFs), root, coqAttrsTree(ev, e.Tree), coqS(ix), o.coq()))
	}
}

// ---------- OTLP export requests with several resources / scopes / records ----------
// The plan of a request: 1-4 resources; the attribute lists shrink ("desc": later resources
// LACK what earlier ones have) or grow ("asc"); some resources have no Resource message at all;
// 1-3 scopes per resource (named+versioned+attributes, then bare, then no Scope message);
// 1-3 records per scope.
type planScope struct {
	Name, Version string
	Attrs         []kv
	Nil           bool
	Recs          []int // indices into the event list
}
type planRes struct {
	Attrs  []kv
	Nil    bool
	Scopes []planScope
}
type planReq struct {
	Shape string
	Res   []planRes
}

func planRequests(r *vhlib.Rng, idxs []int, withService bool) []planReq {
	var out []planReq
	pos := 0
	rq := 0
	for pos < len(idxs) {
		shape := []string{"desc", "asc", "single", "desc", "asc", "mixed"}[rq%6]
		nres := r.Range(2, 4)
		if shape == "single" {
			nres = 1
		}
		req := planReq{Shape: shape}
		for j := 0; j < nres && pos < len(idxs); j++ {
			// service.name is the first attribute to go when the list shrinks
			base := []kv{{"env", sv{Kind: "s", S: vhlib.Pick(r, []string{"prod", "dev", "qa"})}},
				{"host.name", sv{Kind: "s", S: fmt.Sprintf("host%d_%d", rq, j)}},
				{"service.name", sv{Kind: "s", S: fmt.Sprintf("svc%d_%d", rq, j)}}}
			if !withService {
				base[2].K = "service.namespace"
			}
			var keep int
			switch shape {
			case "desc":
				keep = 3 - j
			case "asc":
				keep = j - (4 - nres) + 1
				if nres == 4 {
					keep = j
				}
			case "single":
				keep = r.Range(0, 3)
			default:
				keep = r.Range(0, 3)
			}
			if keep < 0 {
				keep = 0
			}
			if keep > 3 {
				keep = 3
			}
			pr := planRes{}
			switch {
			case keep == 0 && r.Chance(50):
				pr.Nil = true
			case shape == "mixed" && keep > 0 && r.Chance(50):
				pr.Attrs = base[3-keep:] // lacks env, keeps the later ones
			default:
				pr.Attrs = base[:keep]
			}
			nsc := r.Range(1, 3)
			for k := 0; k < nsc && pos < len(idxs); k++ {
				ps := planScope{}
				kk := k
				if shape == "asc" {
					kk = nsc - 1 - k
				}
				switch kk {
				case 0:
					ps.Name, ps.Version = fmt.Sprintf("lib%d", rq), "v1.2"
					ps.Attrs = []kv{{"scope.kind", sv{Kind: "s", S: "auto"}}}
				case 1:
					ps.Name = fmt.Sprintf("bare%d", rq)
				default:
					ps.Nil = true
				}
				nrec := r.Range(1, 3)
				for q := 0; q < nrec && pos < len(idxs); q++ {
					ps.Recs = append(ps.Recs, idxs[pos])
					pos++
				}
				pr.Scopes = append(pr.Scopes, ps)
			}
			req.Res = append(req.Res, pr)
		}
		out = append(out, req)
		rq++
	}
	return out
}

// designed events: all keys, then none, then all again (a later record LACKS what an earlier one has, and the reverse)
func designedEvents() []levent {
	var out []levent
	full := func(tag string) []kv {
		return []kv{{"k1", sv{Kind: "s", S: "full" + tag}}, {"status_code", sv{Kind: "i", I: 503}}, {"user", sv{Kind: "s", S: "u" + tag}},
			{"a.b", sv{Kind: "i", I: 7}}, {"http.method", sv{Kind: "s", S: "PUT"}}, {"latency_ms", sv{Kind: "f", F: 12.5}},
			{"n", sv{Kind: "i", I: -3}}, {"x_y", sv{Kind: "b", B: true}}, {"Region", sv{Kind: "s", S: "eu"}}, {"v2", sv{Kind: "f", F: 0.25}}}
	}
	for g := 0; g < 4; g++ {
		for j := 0; j < 4; j++ {
			e := levent{Cid: fmt.Sprintf("s%d_%d", g, j), Stream: "S", Msg: fmt.Sprintf("designed %d %d", g, j), Time: timeRep{Unit: "none"}}
			if (j+g)%2 == 0 {
				e.Attrs = full(e.Cid)
				e.Res = []kv{{"service.name", sv{Kind: "s", S: "hostA"}}, {"host.name", sv{Kind: "s", S: "srcA"}}}
				e.Trace = []byte{1, 2, 3, 4, 5, 6, 7, 8, 9, 10, 11, 12, 13, 14, 15, byte(16 + g*4 + j)}
				e.Span = []byte{1, 2, 3, 4, 5, 6, 7, byte(8 + g*4 + j)}
				e.TimeNs = 1650000000000000000 + uint64(g*4+j)*1000000007
				e.Time = timeRep{Unit: "ns", Form: "str", Val: e.TimeNs}
			}
			out = append(out, e)
		}
	}
	return out
}

func leakClass(proto string, earlier map[string]bool, fallback string) func(k string) string {
	prev := map[string]bool{}
	for k := range earlier {
		prev[k] = true
	}
	return func(k string) string {
		if prev[k] {
			return proto + "_field_leaks_between_records"
		}
		return fallback
	}
}

func (ps planScope) pb() *commonpb.InstrumentationScope {
	if ps.Nil {
		return nil
	}
	return &commonpb.InstrumentationScope{Name: ps.Name, Version: ps.Version, Attributes: otlpKVs(ps.Attrs)}
}
func (pr planRes) pb() *resourcepb.Resource {
	if pr.Nil {
		return nil
	}
	return &resourcepb.Resource{Attributes: otlpKVs(pr.Attrs)}
}

// ---------- OTLP logs ----------
const otlpDefaultIndex = "otel-logs"
const otlpIdKindsIndex = "otel-logs-idkinds"
const otlpLitIndex = "otel-logs-lit"
const otlpKeyIndex = "otel-logs-key"

// text of an attribute value as an identifier (what a reader of the attribute would print)
func idText(v sv) string {
	switch v.Kind {
	case "s":
		return v.S
	case "i":
		return strconv.FormatInt(v.I, 10)
	case "b":
		if v.B {
			return "true"
		}
		return "false"
	}
	return v.json()
}

// the identifier a record carries: its own field when that is set, else the attribute of the same name
// (the last one if the key is repeated), else none
func idExpect(own []byte, attrs []kv, key string) (string, *string) {
	var attr *string
	for _, a := range attrs {
		if a.K == key {
			t := idText(a.V)
			attr = &t
		}
	}
	if len(own) > 0 {
		return hex.EncodeToString(own), attr
	}
	if attr != nil {
		return *attr, attr
	}
	return "", attr
}

func idMode(own []byte, attr *string) string {
	switch {
	case len(own) > 0 && attr == nil:
		return "field"
	case len(own) == 0 && attr != nil:
		return "attribute"
	case len(own) > 0 && *attr == hex.EncodeToString(own):
		return "both_same"
	case len(own) > 0:
		return "both_different"
	}
	return "neither"
}

func idClass(key string, own []byte, attr *string, got sv) string {
	switch {
	case got.Kind != "s":
		return "otlp_log_" + key + "_altered"
	case len(own) > 0 && attr != nil && got.S == *attr:
		return "otlp_log_" + key + "_field_overwritten_by_attribute"
	case len(own) > 0 && got.S == "":
		return "otlp_log_" + key + "_field_dropped"
	case len(own) == 0 && attr != nil && got.S == "":
		return "otlp_log_" + key + "_attribute_not_taken"
	case len(own) == 0 && attr == nil:
		return "otlp_log_" + key + "_invented"
	}
	return "otlp_log_" + key + "_altered"
}

// stream I: records that carry their two trace-context identifiers DIFFERENTLY. Each of trace id / span id is
// carried in one of the ways {own field, attribute only, both with different values, neither}: all 16
// combinations per round (round 0 in table order, later rounds shuffled, so neighbours inside one export
// request differ), plus "both with the same value" extras. kinds=false: attribute values are hex strings
// (what SDKs send); kinds=true: the trace_id attribute is an integer and the span_id attribute a boolean
// (rendered with %v by the fall-back) -- these go to an index of their own, a key has one value kind per index.
func idEvents(r *vhlib.Rng, rounds int, kinds bool) []levent {
	var out []levent
	hexs := func(n int) []byte {
		b := make([]byte, n)
		for j := range b {
			b[j] = byte(r.Intn(256))
		}
		if b[0] == 0 {
			b[0] = 0xa1
		}
		return b
	}
	pfx := "i"
	if kinds {
		pfx = "k"
	}
	mk := func(cid string, tm, sm int) levent {
		e := levent{Cid: cid, Stream: "I", Msg: fmt.Sprintf("ids %s trace=%d span=%d", cid, tm, sm), Time: timeRep{Unit: "none"}}
		if r.Chance(50) {
			e.TimeNs = (uint64(1577836800000)+r.U64()%uint64(122163200000))*1000000 + r.U64()%1000000
		}
		e.Attrs = genAttrs(r, false)
		var idAttrs []kv
		for w, m := range []int{tm, sm} {
			key, n := "trace_id", 16
			if w == 1 {
				key, n = "span_id", 8
			}
			var own []byte
			if m == 0 || m == 2 || m == 4 {
				own = hexs(n)
			}
			if m == 1 || m == 2 || m == 4 {
				var v sv
				switch {
				case kinds && w == 0:
					v = sv{Kind: "i", I: vhlib.Pick(r, []int64{0, 7, -42, 1234567890123, two53 - 1, -(two53 - 1)})}
					if r.Chance(50) {
						v.I = int64(r.Intn(1000000)) - 1000
					}
				case kinds:
					v = sv{Kind: "b", B: r.Bool()}
				case m == 4:
					v = sv{Kind: "s", S: hex.EncodeToString(own)}
				default:
					v = sv{Kind: "s", S: hex.EncodeToString(hexs(n))}
				}
				idAttrs = append(idAttrs, kv{key, v})
			}
			if w == 0 {
				e.Trace = own
			} else {
				e.Span = own
			}
		}
		// the identifier attributes sit anywhere among the other attributes, in either order
		if len(idAttrs) == 2 && r.Bool() {
			idAttrs[0], idAttrs[1] = idAttrs[1], idAttrs[0]
		}
		for _, a := range idAttrs {
			p := r.Intn(len(e.Attrs) + 1)
			e.Attrs = append(e.Attrs[:p], append([]kv{a}, e.Attrs[p:]...)...)
		}
		return e
	}
	for rd := 0; rd < rounds; rd++ {
		combos := make([][2]int, 0, 16)
		for tm := 0; tm < 4; tm++ {
			for sm := 0; sm < 4; sm++ {
				combos = append(combos, [2]int{tm, sm})
			}
		}
		if rd > 0 {
			for j := len(combos) - 1; j > 0; j-- {
				k := r.Intn(j + 1)
				combos[j], combos[k] = combos[k], combos[j]
			}
		}
		for _, c := range combos {
			out = append(out, mk(fmt.Sprintf("%s%d_%d%d", pfx, rd, c[0], c[1]), c[0], c[1]))
		}
		if !kinds {
			// both carried with the SAME value next to each way of carrying the other identifier
			for m := 0; m < 4; m++ {
				out = append(out, mk(fmt.Sprintf("%s%d_4%d", pfx, rd, m), 4, m), mk(fmt.Sprintf("%s%d_%d4", pfx, rd, m), m, 4))
			}
		}
	}
	return out
}
func runOTLPLogs(sum *vhlib.Summary, r *vhlib.Rng, evs []levent, cases *[]string, ix string) {
	idxs := make([]int, len(evs))
	for i := range evs {
		idxs[i] = i
	}
	plans := planRequests(r, idxs, true)
	if ix != otlpDefaultIndex {
		// another index is chosen by the resource attribute siglensIndexName: every resource then has a
		// Resource message whose first attribute names the index (the attribute is stored like any other)
		for pi := range plans {
			for ri := range plans[pi].Res {
				pr := &plans[pi].Res[ri]
				pr.Nil = false
				pr.Attrs = append([]kv{{"siglensIndexName", sv{Kind: "s", S: ix}}}, pr.Attrs...)
				if ix == otlpKeyIndex {
					// stream K: resource and scope attributes whose names are reserved elsewhere on the path
					pr.Attrs = append(pr.Attrs, kv{"timestamp", sv{Kind: "s", S: fmt.Sprintf("res-ts-%d-%d", pi, ri)}}, kv{"body", sv{Kind: "s", S: "res-body"}})
					if ri%2 == 0 {
						pr.Attrs = append(pr.Attrs, kv{"attributes", sv{Kind: "i", I: int64(1400000000 + pi)}})
					}
					for si := range pr.Scopes {
						if ps := &pr.Scopes[si]; !ps.Nil {
							ps.Attrs = append(ps.Attrs, kv{"timestamp", sv{Kind: "i", I: int64(1400000100 + si)}}, kv{"name", sv{Kind: "s", S: "scope-attr-name"}})
						}
					}
				}
			}
		}
	}
	wins := make([]window, len(evs))
	for _, pl := range plans {
		req := &collogpb.ExportLogsServiceRequest{}
		for _, pr := range pl.Res {
			rl := &logpb.ResourceLogs{Resource: pr.pb()}
			for _, ps := range pr.Scopes {
				sl := &logpb.ScopeLogs{Scope: ps.pb()}
				for _, i := range ps.Recs {
					e := evs[i]
					sl.LogRecords = append(sl.LogRecords, &logpb.LogRecord{TimeUnixNano: e.TimeNs, SeverityNumber: 9, SeverityText: "INFO",
						Body:       otlpAny(sv{Kind: "s", S: e.Msg}),
						Attributes: append(otlpKVs(append([]kv{{"cid", sv{Kind: "s", S: e.Cid}}}, e.Attrs...)), otlpTreeKVs(e.Tree)...), Flags: 1, TraceId: e.Trace, SpanId: e.Span})
				}
				rl.ScopeLogs = append(rl.ScopeLogs, sl)
			}
			req.ResourceLogs = append(req.ResourceLogs, rl)
		}
		pb, _ := proto.Marshal(req)
		lo := nowMs() - 1
		ctx := mkctx(pb, "application/x-protobuf")
		otlp.ProcessLogIngest(ctx, 0)
		hi := nowMs() + 1
		if ctx.Response.StatusCode() != 200 || len(ctx.Response.Body()) != 0 {
			sum.HarnessError(fmt.Sprintf("otlp logs: status %d body %q", ctx.Response.StatusCode(), ctx.Response.Body()))
		}
		for _, pr := range pl.Res {
			for _, ps := range pr.Scopes {
				for _, i := range ps.Recs {
					wins[i] = window{lo, hi}
				}
			}
		}
	}
	flushLogs()
	obs, err := search(ix)
	if err != nil {
		sum.HarnessError("otlp logs search: " + err.Error())
		return
	}
	byCid := indexBy(obs, "attributes.cid")
	for pi, pl := range plans {
		earlier := map[string]bool{}
		var resTerms, obsTerms []string
		for _, pr := range pl.Res {
			var scTerms []string
			for _, ps := range pr.Scopes {
				var recTerms []string
				for _, i := range ps.Recs {
					e := evs[i]
					o := pickObs(byCid, e.Cid, wins[i])
					z := sv{Kind: "i", I: 0}
					wantTrace, traceAttr := idExpect(e.Trace, e.Attrs, "trace_id")
					wantSpan, spanAttr := idExpect(e.Span, e.Attrs, "span_id")
					ex := expect{cols: map[string]sv{"attributes.cid": {Kind: "s", S: e.Cid}, "body": {Kind: "s", S: e.Msg},
						"severity_text": {Kind: "s", S: "INFO"}, "severity_number": {Kind: "i", I: 9},
						"scope.name": {Kind: "s", S: ps.Name}, "scope.version": {Kind: "s", S: ps.Version}, "scope.schema_url": {Kind: "s", S: ""},
						"scope.dropped_attributes_count": z, "resource.dropped_attributes_count": z, "resource.schema_url": {Kind: "s", S: ""},
						"dropped_attributes_count": z, "flags": {Kind: "i", I: 1}, "observed_time_unix_nano": z,
						"time_unix_nano": {Kind: "i", I: int64(e.TimeNs)},
						"trace_id": {Kind: "s", S: wantTrace}, "span_id": {Kind: "s", S: wantSpan}},
						exact: true, timeKnown: "otlp_log_time_replaced"}
					own := map[string]bool{}
					for _, a := range e.Attrs {
						ex.cols["attributes."+a.K] = a.V
					}
					if e.Stream == "K" {
						expectTree(&ex, "otlp_log", "attributes.", 1, e.Tree)
					}
					for _, a := range pr.Attrs {
						ex.cols["resource.attributes."+a.K] = a.V
					}
					for _, a := range ps.Attrs {
						ex.cols["scope.attributes."+a.K] = a.V
					}
					for k := range ex.cols {
						own[k] = true
					}
					if e.TimeNs != 0 {
						ex.carried = e.TimeNs / 1000000
					}
					sum.Eval("otlp_log/"+e.Cid, true)
					sum.Count("otlp_log/stream_" + e.Stream)
					countLits(sum, "otlp_log", e)
					countTree(sum, "otlp_log", e)
					sum.Count("otlp_log/request_" + pl.Shape)
					c := map[string]interface{}{"protocol": "otlp_logs", "event": e, "request": pl}
					// scope name / version of an earlier scope showing up on a record of a bare or absent scope
					if got, ok := o.st.fields["scope.name"]; ok && o.found > 0 && got.S != ps.Name && earlier["scope.name="+got.S] {
						fail(sum, "otlp_log_scope_inherited_from_previous_scope", fmt.Sprintf("otlp_log: record %s belongs to scope %q, stored scope.name=%q of an earlier scope of the request", e.Cid, ps.Name, got.S), c)
						ex.cols["scope.name"] = got // reported once, under its own class
					}
					sum.Count("otlp_log/ids_trace:" + idMode(e.Trace, traceAttr) + "_span:" + idMode(e.Span, spanAttr))
					// the two trace-context identifiers, each judged on its own: own field when present, else the
					// attribute of the same name, else empty -- whatever the OTHER identifier looks like
					for _, id := range []struct {
						key  string
						own  []byte
						attr *string
						oth  string
					}{{"trace_id", e.Trace, traceAttr, "span_id:" + idMode(e.Span, spanAttr)}, {"span_id", e.Span, spanAttr, "trace_id:" + idMode(e.Trace, traceAttr)}} {
						got, ok := o.st.fields[id.key]
						if !ok || o.found == 0 {
							continue // reported by checkStored as lost
						}
						want := ex.cols[id.key]
						if got.eq(want) {
							continue
						}
						at := "none"
						if id.attr != nil {
							at = fmt.Sprintf("%q", *id.attr)
						}
						fail(sum, idClass(id.key, id.own, id.attr, got), fmt.Sprintf("otlp_log: record %s: %s field=%q, attribute %s=%s (other identifier %s): must be stored as %v, stored as %v",
							e.Cid, id.key, hex.EncodeToString(id.own), id.key, at, id.oth, want, got), c)
						ex.cols[id.key] = got // reported once, under its own class
					}
					checkStored(sum, "otlp_log", e.Cid, ex, o, leakClass("otlp_log", earlier, ""), c)
					for k := range own {
						if strings.Contains(k, "attributes.") {
							earlier[k] = true
						}
					}
					earlier["scope.name="+ps.Name] = true
					attrs := append([]kv{{"cid", sv{Kind: "s", S: e.Cid}}}, e.Attrs...)
					recTerms = append(recTerms, fmt.Sprintf("mk_rec %d 9%%Z (s2b \"INFO\") (SStr %s) %s 1 %s %s", e.TimeNs, coqS(e.Msg), coqAttrsTree(attrs, e.Tree),
						coqS(hex.EncodeToString(e.Trace)), coqS(hex.EncodeToString(e.Span))))
					obsTerms = append(obsTerms, o.coq())
				}
				scTerms = append(scTerms, fmt.Sprintf("(mk_scope %s %s %s, %s)", coqS(ps.Name), coqS(ps.Version), coqEvent(ps.Attrs), vhlib.CoqList(recTerms)))
			}
			resTerms = append(resTerms, fmt.Sprintf("(mk_res %s, %s)", coqEvent(pr.Attrs), vhlib.CoqList(scTerms)))
		}
		*cases = append(*cases, fmt.Sprintf("(%s, %s)", vhlib.CoqList(resTerms), vhlib.CoqList(obsTerms)))
		if pi%12 == 1 {
			sum.Sample(map[string]interface{}{"protocol": "otlp_logs", "request": pl})
		}
	}
}

// ---------- OTLP traces ----------
func runSpans(sum *vhlib.Summary, r *vhlib.Rng, evs []levent, cases *[]string) {
	const ix = "traces"
	wins := make([]window, len(evs))
	var use []int
	for i, e := range evs {
		if e.TimeNs != 0 && len(e.Trace) > 0 {
			use = append(use, i)
		}
	}
	plans := planRequests(r, use, true)
	for _, pl := range plans {
		req := &coltracepb.ExportTraceServiceRequest{}
		for _, pr := range pl.Res {
			rs := &tracepb.ResourceSpans{Resource: pr.pb()}
			for _, ps := range pr.Scopes {
				ss := &tracepb.ScopeSpans{Scope: ps.pb()}
				for _, i := range ps.Recs {
					e := evs[i]
					ss.Spans = append(ss.Spans, &tracepb.Span{TraceId: e.Trace, SpanId: e.Span, Name: e.Msg, Kind: tracepb.Span_SpanKind(1 + i%5),
						StartTimeUnixNano: e.TimeNs, EndTimeUnixNano: e.TimeNs + 1500000, Status: &tracepb.Status{Code: tracepb.Status_StatusCode(i % 3)},
						Attributes: append(otlpKVs(append([]kv{{"cid", sv{Kind: "s", S: e.Cid}}}, e.Attrs...)), otlpTreeKVs(e.Tree)...)})
				}
				rs.ScopeSpans = append(rs.ScopeSpans, ss)
			}
			req.ResourceSpans = append(req.ResourceSpans, rs)
		}
		pb, _ := proto.Marshal(req)
		lo := nowMs() - 1
		ctx := mkctx(pb, "application/x-protobuf")
		otlp.ProcessTraceIngest(ctx, 0)
		hi := nowMs() + 1
		if ctx.Response.StatusCode() != 200 {
			sum.HarnessError(fmt.Sprintf("otlp traces: status %d", ctx.Response.StatusCode()))
		}
		for _, pr := range pl.Res {
			for _, ps := range pr.Scopes {
				for _, i := range ps.Recs {
					wins[i] = window{lo, hi}
				}
			}
		}
	}
	flushLogs()
	obs, err := search(ix)
	if err != nil {
		sum.HarnessError("traces search: " + err.Error())
		return
	}
	byCid := indexBy(obs, "cid")
	for pi, pl := range plans {
		var resTerms, obsTerms []string
		var prevServices []string
		earlier := map[string]bool{}
		for _, pr := range pl.Res {
			service := ""
			for _, a := range pr.Attrs {
				if a.K == "service.name" {
					service = a.V.S
				}
			}
			var spanTerms []string
			for _, ps := range pr.Scopes {
				for _, i := range ps.Recs {
					e := evs[i]
					o := pickObs(byCid, e.Cid, wins[i])
					z := sv{Kind: "i", I: 0}
					ex := expect{cols: map[string]sv{"cid": {Kind: "s", S: e.Cid}, "name": {Kind: "s", S: e.Msg}, "service": {Kind: "s", S: service},
						"trace_id": {Kind: "s", S: hex.EncodeToString(e.Trace)}, "span_id": {Kind: "s", S: hex.EncodeToString(e.Span)},
						"parent_span_id": {Kind: "s", S: ""}, "trace_state": {Kind: "s", S: ""},
						"start_time": {Kind: "i", I: int64(e.TimeNs)}, "end_time": {Kind: "i", I: int64(e.TimeNs + 1500000)}, "duration": {Kind: "i", I: 1500000},
						"dropped_attributes_count": z, "dropped_events_count": z, "dropped_links_count": z,
						"events": {Kind: "s", S: "null"}, "links": {Kind: "s", S: "[]"},
						"kind": {Kind: "s", S: tracepb.Span_SpanKind(1 + i%5).String()}, "status": {Kind: "s", S: tracepb.Status_StatusCode(i % 3).String()}},
						exact: true, timeKnown: "otlp_span_time_replaced", carried: e.TimeNs / 1000000}
					collide := map[string]sv{}
					for _, a := range e.Attrs {
						if _, fixed := ex.cols[a.K]; fixed && e.Stream == "R" {
							collide[a.K] = a.V // the span's own field of that name must stay what it is
							continue
						}
						if a.K == "timestamp" && e.Stream == "R" {
							if t, ok := nestedInstant(a.V); ok {
								ex.nestedTimes = map[uint64]string{t: "timestamp (span attribute)"}
								ex.nestedClass = spanCollisionClass
							}
							continue
						}
						ex.cols[a.K] = a.V
					}
					if e.Stream == "R" {
						sum.Count("otlp_span/attribute_named_like_record_field")
						ex.alteredClass = func(k string, got sv) string {
							if v, ok := collide[k]; ok && got.eq(v) {
								return spanCollisionClass
							}
							return ""
						}
					}
					if e.Stream == "K" {
						expectTree(&ex, "otlp_span", "", 0, e.Tree)
					}
					sum.Eval("otlp_span/"+e.Cid, true)
					sum.Count("otlp_span/events")
					countLits(sum, "otlp_span", e)
					countTree(sum, "otlp_span", e)
					sum.Count("otlp_span/request_" + pl.Shape)
					c := map[string]interface{}{"protocol": "otlp_traces", "event": e, "own_service": service, "request": pl}
					if got, ok := o.st.fields["service"]; ok && o.found > 0 && got.S != service {
						for _, p := range prevServices {
							if p == got.S && p != "" {
								fail(sum, "otlp_trace_service_inherited_from_previous_resource",
									fmt.Sprintf("otlp_span: span %s belongs to a resource with service.name %q, stored service=%q is the service of an earlier resource of the same export request", e.Cid, service, got.S), c)
								ex.cols["service"] = got // reported once, under its own class
							}
						}
					}
					checkStored(sum, "otlp_span", e.Cid, ex, o, leakClass("otlp_span", earlier, ""), c)
					for _, a := range e.Attrs {
						earlier[a.K] = true
					}
					attrs := append([]kv{{"cid", sv{Kind: "s", S: e.Cid}}}, e.Attrs...)
					spanTerms = append(spanTerms, fmt.Sprintf("mk_span %s %s [] %s %d %d %d %d %s", coqS(hex.EncodeToString(e.Trace)), coqS(hex.EncodeToString(e.Span)),
						coqS(e.Msg), 1+i%5, e.TimeNs, e.TimeNs+1500000, i%3, coqAttrsTree(attrs, e.Tree)))
					obsTerms = append(obsTerms, o.coq())
				}
			}
			prevServices = append(prevServices, service)
			resTerms = append(resTerms, fmt.Sprintf("{| rs_attrs := %s; rs_spans := %s |}", coqEvent(pr.Attrs), vhlib.CoqList(spanTerms)))
		}
		*cases = append(*cases, fmt.Sprintf("(%s, %s)", vhlib.CoqList(resTerms), vhlib.CoqList(obsTerms)))
		if pi%12 == 1 {
			sum.Sample(map[string]interface{}{"protocol": "otlp_traces", "request": pl})
		}
	}
}

// ---------- Loki (JSON push) ----------
type lokiLine struct {
	Cid  string `json:"cid"` // = the line text
	Ts   uint64 `json:"ts"`
	Form string `json:"form"` // ns | s
	Meta []kv   `json:"meta"`
	// stream K: structured metadata whose values are objects / arrays (the handler takes any JSON value)
	MetaTree jobj `json:"meta_tree,omitempty"`
}
type lokiStream struct {
	Kind   string     `json:"kind"` // A: metadata on the last line at most; B: metadata anywhere
	Labels []kv       `json:"labels"`
	Lines  []lokiLine `json:"lines"`
}

func genLokiStream(r *vhlib.Rng, si int, kind string) lokiStream {
	s := lokiStream{Kind: kind}
	s.Labels = []kv{{"job", sv{Kind: "s", S: fmt.Sprintf("j%d", r.Intn(9))}}, {"stream_id", sv{Kind: "s", S: fmt.Sprintf("%s%d", kind, si)}}}
	if r.Chance(50) {
		s.Labels = append(s.Labels, kv{"env", sv{Kind: "s", S: vhlib.Pick(r, []string{"prod", "dev"})}})
	}
	n := r.Range(1, 4)
	for j := 0; j < n; j++ {
		ms := uint64(1577836800000) + r.U64()%uint64(122163200000)
		l := lokiLine{Cid: fmt.Sprintf("L%s%d_%d %s", kind, si, j, vhlib.Pick(r, strPool)), Ts: ms*1000000 + r.U64()%1000000, Form: "ns"}
		if r.Chance(10) {
			l.Ts = ms / 1000
			l.Form = "s"
		}
		withMeta := (kind == "A" && j == n-1 && r.Chance(60)) || (kind == "B" && (j < n-1 || r.Chance(50)))
		if withMeta {
			nm := r.Range(1, 2)
			for q := 0; q < nm; q++ {
				k := vhlib.Pick(r, []string{"trace", "user_id", "req", "pod"})
				dup := false
				for _, m := range l.Meta {
					if m.K == k {
						dup = true
					}
				}
				if !dup {
					l.Meta = append(l.Meta, kv{k, sv{Kind: "s", S: fmt.Sprintf("m%d", r.Intn(1000))}})
				}
			}
		}
		s.Lines = append(s.Lines, l)
	}
	return s
}

func runLoki(sum *vhlib.Summary, streams []lokiStream, cases *[]string) {
	const ix = "loki-index"
	wins := make([]window, len(streams))
	for b := 0; b < len(streams); b += 10 {
		end := b + 10
		if end > len(streams) {
			end = len(streams)
		}
		var parts []string
		for _, s := range streams[b:end] {
			var vals []string
			for _, l := range s.Lines {
				lb, _ := json.Marshal(l.Cid)
				v := `["` + coqN(l.Ts) + `",` + string(lb)
				if len(l.Meta) > 0 && len(l.MetaTree) > 0 {
					v += ",{" + jsonMembers(l.Meta) + "," + membersJSON(l.MetaTree) + "}"
				} else if len(l.MetaTree) > 0 {
					v += ",{" + membersJSON(l.MetaTree) + "}"
				} else if len(l.Meta) > 0 {
					v += "," + jsonObj(l.Meta)
				}
				vals = append(vals, v+"]")
			}
			parts = append(parts, `{"stream":`+jsonObj(s.Labels)+`,"values":[`+strings.Join(vals, ",")+`]}`)
		}
		body := `{"streams":[` + strings.Join(parts, ",") + `]}`
		lo := nowMs() - 1
		ctx := mkctx([]byte(body), "application/json")
		loki.ProcessLokiLogsIngestRequest(ctx, 0)
		hi := nowMs() + 1
		if ctx.Response.StatusCode() != 200 {
			sum.HarnessError(fmt.Sprintf("loki: status %d %s", ctx.Response.StatusCode(), ctx.Response.Body()))
		}
		for i := b; i < end; i++ {
			wins[i] = window{lo, hi}
		}
	}
	flushLogs()
	obs, err := search(ix)
	if err != nil {
		sum.HarnessError("loki search: " + err.Error())
		return
	}
	byLine := indexBy(obs, "line")
	for si, s := range streams {
		var lineTerms, obsTerms []string
		earlier := map[string]bool{}
		for _, l := range s.Lines {
			o := pickObs(byLine, l.Cid, wins[si])
			ex := expect{cols: map[string]sv{"line": {Kind: "s", S: l.Cid}}, exact: true}
			for _, a := range s.Labels {
				ex.cols[a.K] = a.V
			}
			for _, a := range l.Meta {
				ex.cols[a.K] = a.V
			}
			if s.Kind == "R" {
				lokiCollisions(sum, s, l, &ex, &o, byLine, wins[si])
			}
			if s.Kind == "K" {
				expectTree(&ex, "loki", "", 0, l.MetaTree)
				countTree(sum, "loki", levent{Stream: "K", Tree: l.MetaTree, Attrs: append(append([]kv{}, s.Labels...), l.Meta...)})
			}
			if l.Form == "ns" {
				ex.carried = l.Ts / 1000000
			} else {
				ex.carried = l.Ts * 1000
			}
			prev := map[string]bool{}
			for k := range earlier {
				prev[k] = true
			}
			sum.Eval("loki/"+l.Cid, true)
			sum.Count("loki/stream_" + s.Kind)
			checkStored(sum, "loki", l.Cid, ex, o, func(k string) string {
				if prev[k] {
					return "loki_metadata_leak"
				}
				return ""
			}, map[string]interface{}{"protocol": "loki_push_json", "stream": s, "line": l.Cid})
			for _, a := range l.Meta {
				earlier[a.K] = true
			}
			for _, a := range flatTree("", l.MetaTree) {
				earlier[a.K] = true
			}
			lineTerms = append(lineTerms, fmt.Sprintf("{| ll_ts := %s; ll_line := %s; ll_meta := %s |}", coqS(coqN(l.Ts)), coqS(l.Cid), coqAttrsTree(l.Meta, l.MetaTree)))
			obsTerms = append(obsTerms, o.coq())
		}
		*cases = append(*cases, fmt.Sprintf("(%s, %s, %s)", coqEvent(s.Labels), vhlib.CoqList(lineTerms), vhlib.CoqList(obsTerms)))
		if si%15 == 0 {
			sum.Sample(map[string]interface{}{"protocol": "loki_push_json", "stream": s})
		}
	}
}

// ---------- unit level ----------
func uobs(v uint64, ok bool) string {
	if !ok {
		return "OErr"
	}
	return "(OV " + coqN(v) + ")"
}

func unitPool(r *vhlib.Rng, n int) []int64 {
	var out []int64
	th := []int64{99999999999, 1000000000000000000, 1000000000000, 1000000000000000, 4294967296, 2147483648, two53,
		1000000000, 10000000000, 9999999999, 4294967296000, 4294967296000000000, 1000, 1000000, 999999999999999999, 100000000000}
	for _, t := range th {
		for d := int64(-2); d <= 2; d++ {
			out = append(out, t+d, -(t + d))
		}
	}
	out = append(out, 0, 1, -1, 2, -5, 999, 1600000000, 1600000000123, 1600000000123456, 1600000000123456789,
		1700000000, 1700000000999, 4102444800, 4102444800000, math.MaxInt64, math.MaxInt64-1, math.MinInt64, math.MinInt64+1,
		two53*2+1, two53+3, 1<<62+1, 1<<62+(1<<9), 1<<62+(1<<9)+1, 1<<62+3*(1<<8))
	for len(out) < n {
		digits := r.Range(1, 19)
		var v uint64
		for d := 0; d < digits; d++ {
			v = v*10 + uint64(r.Intn(10))
		}
		if v > math.MaxInt64 {
			v = v % math.MaxInt64
		}
		z := int64(v)
		if r.Chance(8) {
			z = -z
		}
		out = append(out, z)
	}
	return out
}

const caseImports = "From SigM Require Import Base Proto ProtoTree ProtoCheck.\nFrom Coq Require Import String.\n"

func runUnits(cfg vhlib.Config, sum *vhlib.Summary, r *vhlib.Rng) {
	n := 2400
	if cfg.Thorough() {
		n = 30000
	}
	vals := unitPool(r, n)
	key := "timestamp"
	var terms []string
	shard := 0
	flushShard := func() {
		if len(terms) == 0 {
			return
		}
		defs := "Definition cases : list ucase := " + vhlib.CoqListNL(terms) + ".\n"
		sum.WriteCaseFile(cfg.Out, fmt.Sprintf("cases_units_%d", shard), caseImports, defs, "check_units cases", len(terms))
		shard++
		terms = nil
	}
	seen := map[int64]bool{}
	for _, z := range vals {
		if seen[z] {
			continue
		}
		seen[z] = true
		dec := strconv.FormatInt(z, 10)
		c := map[string]interface{}{"value": dec}
		// ExtractTimeStamp, number and string
		t0 := nowMs() - 1
		num := utils.ExtractTimeStamp([]byte(`{"timestamp":`+dec+`}`), &key)
		str := utils.ExtractTimeStamp([]byte(`{"timestamp":"`+dec+`"}`), &key)
		t1 := nowMs() + 1
		strObs := uobs(str, true)
		if z < 0 && str >= t0 && str <= t1 {
			strObs = "ONow"
		}
		conv, cerr := utils.ConvertTimestampToMillis(dec)
		isM := utils.IsTimeInMilli(uint64(z))
		isN := utils.IsTimeInNano(uint64(z))
		b2 := func(b bool) uint64 {
			if b {
				return 1
			}
			return 0
		}
		th := metrics.GetTagsHolder()
		_, _, otsN, e1 := metrics.ExtractOTSDBPayload([]byte(`{"metric":"m","tags":{"a":"b"},"timestamp":`+dec+`,"value":1}`), th)
		th = metrics.GetTagsHolder()
		_, _, otsS, e2 := metrics.ExtractOTSDBPayload([]byte(`{"metric":"m","tags":{"a":"b"},"timestamp":"`+dec+`","value":1}`), th)
		th = metrics.GetTagsHolder()
		_, _, otlpT, e3 := metrics.ExtractOTLPPayload([]byte(`{"metric":"m","tags":{"a":"b"},"timestamp":`+dec+`,"value":1}`), th)
		prom := promw.VerifParseTimestamp(z)
		norm, e4 := utils.ParseTimeForPromQL(dec)
		f64v, f64ok := viaFloatText(z)
		terms = append(terms, fmt.Sprintf("mk_ucase %s %s %s %s %s %s %s %s %s %s %s %s", coqZ(z),
			uobs(num, true), strObs, uobs(conv, cerr == nil), uobs(b2(isM), true), uobs(b2(isN), true),
			uobs(uint64(otsN), e1 == nil), uobs(uint64(otsS), e2 == nil), uobs(uint64(otlpT), e3 == nil), uobs(uint64(prom), true),
			uobs(uint64(norm), e4 == nil), uobs(f64v, f64ok)))
		if len(terms) >= 800 {
			flushShard()
		}
		// ---- oracle: the documented unit ranges ----
		class := "neg"
		if z == 0 {
			class = "zero"
		}
		if z > 0 {
			u := uint64(z)
			switch {
			case u < milliT:
				class = "s"
				if num != u*1000 {
					fail(sum, "ts_unit_misread_num", fmt.Sprintf("ExtractTimeStamp: number %d is in the seconds range, read as %d ms", z, num), c)
				}
				if str != u*1000 || cerr != nil || conv != u*1000 {
					fail(sum, "ts_unit_misread_str", fmt.Sprintf("string %q is in the seconds range, read as %d / %d ms (err %v)", dec, str, conv, cerr), c)
				}
				if u < 1<<32 && (uint64(otsN) != u || uint64(otsS) != u || e1 != nil || e2 != nil) {
					fail(sum, "metric_ts_unit_misread_otsdb", fmt.Sprintf("OpenTSDB timestamp %d s read as %d / %d (err %v %v)", z, otsN, otsS, e1, e2), c)
				}
				if u < 1<<32 && (uint64(prom) != u || uint64(otlpT) != u || e3 != nil) {
					fail(sum, "metric_ts_unit_misread_prom_otlp", fmt.Sprintf("timestamp %d s read as %d (remote write) / %d (OTLP)", z, prom, otlpT), c)
				}
			case u < nanoT:
				class = "ms"
				if num != u {
					fail(sum, "ts_unit_misread_num", fmt.Sprintf("ExtractTimeStamp: number %d is in the millisecond range, read as %d ms", z, num), c)
				}
				if str != u || cerr != nil || conv != u {
					fail(sum, "ts_unit_misread_str", fmt.Sprintf("string %q is in the millisecond range, read as %d / %d ms (err %v)", dec, str, conv, cerr), c)
				}
				if u/1000 < 1<<32 && (uint64(otsN) != u/1000 || uint64(otsS) != u/1000 || e1 != nil || e2 != nil) {
					fail(sum, "metric_ts_unit_misread_otsdb", fmt.Sprintf("OpenTSDB timestamp %d ms read as %d / %d s (err %v %v)", z, otsN, otsS, e1, e2), c)
				}
				if u/1000 < 1<<32 && (uint64(prom) != u/1000 || uint64(otlpT) != u/1000 || e3 != nil) {
					fail(sum, "metric_ts_unit_misread_prom_otlp", fmt.Sprintf("timestamp %d ms read as %d (remote write) / %d (OTLP) s", z, prom, otlpT), c)
				}
			default:
				class = "ns"
				if str != u/1000000 || cerr != nil || conv != u/1000000 {
					fail(sum, "ts_unit_misread_str", fmt.Sprintf("string %q is in the nanosecond range, read as %d / %d ms (err %v)", dec, str, conv, cerr), c)
				}
				if u/1000000000 < 1<<32 && (uint64(prom) != u/1000000000 || uint64(otlpT) != u/1000000000 || e3 != nil) {
					fail(sum, "metric_ts_unit_misread_prom_otlp", fmt.Sprintf("timestamp %d ns read as %d (remote write) / %d (OTLP) s", z, prom, otlpT), c)
				}
			}
			if isM != (u >= milliT) || isN != (u >= nanoT) {
				fail(sum, "ts_unit_threshold", fmt.Sprintf("IsTimeInMilli(%d)=%v IsTimeInNano=%v", z, isM, isN), c)
			}
		}
		sum.Count("unit/class_" + class)
		sum.Eval("unit/"+dec, z != 0)
		if sum.Evaluations%700 == 3 {
			sum.Sample(map[string]interface{}{"unit_value": dec, "ExtractTimeStamp_num": num, "ExtractTimeStamp_str": str, "otsdb": otsN, "prom": prom, "otlp_metric": otlpT})
		}
	}
	flushShard()
	// ---- numeric timestamps in every JSON spelling (fraction, exponent, beyond int64): the float fall-back ----
	nsp := 320
	if cfg.Thorough() {
		nsp = 4000
	}
	sp := spellings(r, nsp)
	for _, b := range []string{"99999999998", "99999999999", "100000000000", "1714352490", "1714352490251", "9007199254740993", "4294967296", "1"} {
		sp = append(sp, timeRep{Unit: "num", Form: "frac", M: b + "5", E: -1}, timeRep{Unit: "num", Form: "frac", M: b + "9999999999", E: -10},
			timeRep{Unit: "num", Form: "frac", M: b + "0000000001", E: -10}, timeRep{Unit: "num", Form: "exp", M: b, E: 0},
			timeRep{Unit: "num", Form: "exp", M: b, E: 3}, timeRep{Unit: "num", Form: "exp", M: b + "75", E: -2})
	}
	for i := 0; i < 40; i++ { // integer literals in [2^63, 2^64)
		sp = append(sp, timeRep{Unit: "num", Form: "big", M: coqN(1<<63 + r.U64()>>1), E: 0})
	}
	var spTerms []string
	for _, t := range sp {
		txt := t.text()
		got := utils.ExtractTimeStamp([]byte(`{"timestamp":`+txt+`}`), &key)
		spTerms = append(spTerms, "("+t.coqSval()+", "+uobs(got, true)+")")
		sum.Eval("unit_spelling/"+txt, true)
		sum.Count("unit/spelling_" + t.Form)
		c := map[string]interface{}{"timestamp_json_number": txt}
		f0, _ := t.floors()
		if f0.Sign() > 0 && f0.BitLen() <= 64 {
			if got == 0 {
				fail(sum, "ts_numeric_spelling_read_as_no_time", fmt.Sprintf("ExtractTimeStamp({\"timestamp\":%s}) = 0: the event carries a time and would be stored with the arrival time", txt), c)
			} else if fv, err := strconv.ParseFloat(txt, 64); err == nil && fv < 18446744073709551615.0 && uint64(fv) == f0.Uint64() {
				// the float has the exact integer part: the unit ranges decide
				want := f0.Uint64()
				if want < milliT {
					want *= 1000
				}
				if got != want {
					fail(sum, "ts_unit_misread_num", fmt.Sprintf("ExtractTimeStamp: number %s has integer part %s, read as %d ms", txt, f0.String(), got), c)
				}
			}
		}
		if len(spTerms) == 200 {
			sum.Sample(map[string]interface{}{"timestamp_json_number": txt, "ExtractTimeStamp": got})
		}
	}
	writeSharded(cfg, sum, "cases_units_spell", "list (sval * uobs)", "check_spell cases", spTerms, 800)

	// digit strings around and beyond 2^64 (ConvertTimestampToMillis only)
	var sterms []string
	for _, s := range []string{"18446744073709551615", "18446744073709551616", "18446744073709551614", "99999999999999999999",
		"000000000000000000000000001600000000", "0", "00", "abc", "", "16000000001600000000160000000016000000001600000000", "1600000000 ", "+5", "1_000"} {
		v, err := utils.ConvertTimestampToMillis(s)
		sterms = append(sterms, "("+coqS(s)+", "+uobs(v, err == nil)+")")
		sum.Eval("unit_str/"+s, true)
		sum.Count("unit/string_edge")
	}
	sum.WriteCaseFile(cfg.Out, "cases_units_str", caseImports,
		"Definition cases : list (list N * uobs) := "+vhlib.CoqListNL(sterms)+".\n", "check_sconv cases", len(sterms))
}

// ---------- metrics ----------
type dyad struct {
	Num *big.Int
	Den uint
}

func toDyad(f float64) dyad {
	if f == 0 {
		return dyad{big.NewInt(0), 0}
	}
	fr, exp := math.Frexp(f) // f = fr * 2^exp, 0.5 <= |fr| < 1
	m := int64(fr * (1 << 53))
	e := exp - 53
	for m%2 == 0 {
		m /= 2
		e++
	}
	n := big.NewInt(m)
	if e >= 0 {
		return dyad{n.Lsh(n, uint(e)), 0}
	}
	return dyad{n, uint(-e)}
}
func (d dyad) coq() string {
	s := d.Num.String()
	if d.Num.Sign() < 0 {
		s = "(" + s + ")"
	}
	return fmt.Sprintf("(mk_dy %s%%Z %d)", s, d.Den)
}

type mpoint struct {
	Cid   string  `json:"cid"`
	Proto string  `json:"protocol"`
	Name  string  `json:"name"`
	Tags  []kv    `json:"tags"`
	Sec   uint32  `json:"sec"`
	Wire  string  `json:"wire_time"` // decimal text on the wire
	Form  string  `json:"form"`      // s ms ns / num str
	Val   float64 `json:"value"`
	AsInt bool    `json:"as_int"`
	IntV  int64   `json:"int_value"`
}

type mobs struct {
	name string
	tags map[string]string
	ts   uint32
	val  float64
}

func queryMetric(name string, lo, hi uint32) (map[string][]mobs, error) {
	reqs, _, _, err := promql.ConvertPromQLToMetricsQuery(name, lo, hi, 0)
	if err != nil {
		return nil, err
	}
	qid++
	res := segment.ExecuteMetricsQuery(&reqs[0].MetricsQuery, &reqs[0].TimeRange, qid)
	if len(res.ErrList) > 0 {
		return nil, res.ErrList[0]
	}
	out := map[string][]mobs{}
	for sid, dps := range res.Results {
		br := strings.Index(sid, "{")
		if br < 0 {
			continue
		}
		nm := sid[:br]
		tags := map[string]string{}
		for _, p := range strings.Split(strings.TrimSuffix(sid[br+1:], ","), ",") {
			if p == "" {
				continue
			}
			c := strings.Index(p, ":")
			if c < 0 {
				continue
			}
			tags[p[:c]] = p[c+1:]
		}
		for t, v := range dps {
			cid := tags["cid"]
			out[cid] = append(out[cid], mobs{name: nm, tags: tags, ts: t, val: v})
		}
	}
	return out, nil
}

func tagStr(v sv) string {
	if v.Kind == "s" {
		return v.S
	}
	return v.json()
}

func coqTags(fs []kv) string {
	items := make([]string, len(fs))
	for i, f := range fs {
		items[i] = "(" + coqS(f.K) + ", " + coqS(f.V.S) + ")"
	}
	return vhlib.CoqList(items)
}

func runMetrics(cfg vhlib.Config, sum *vhlib.Summary, r *vhlib.Rng) {
	n := 60
	if cfg.Thorough() {
		n = 110
	}
	base := uint32(1700000000)
	var pts []mpoint
	valPool := []float64{0, 1, 1.5, -2.25, 42, 1e6, 0.125, 1234567.75, 9007199254740992, -7}
	for _, p := range []string{"otsdb", "prom", "otlp"} {
		for i := 0; i < n; i++ {
			m := mpoint{Cid: fmt.Sprintf("%s%d", p, i), Proto: p, Name: "c16_" + p + "_metric", Sec: base + uint32(3*i) + 1}
			m.Tags = []kv{{"cid", sv{Kind: "s", S: m.Cid}}, {"host", sv{Kind: "s", S: fmt.Sprintf("h%d", r.Intn(5))}}}
			if r.Chance(50) {
				m.Tags = append(m.Tags, kv{vhlib.Pick(r, []string{"dc", "Zone", "k_1"}), sv{Kind: "s", S: vhlib.Pick(r, []string{"eu", "us", "a1"})}})
			}
			m.Val = vhlib.Pick(r, valPool)
			if r.Chance(40) {
				m.Val = float64(r.Intn(100000)) / 4
			}
			frac := uint64(r.Intn(1000))
			switch p {
			case "otsdb":
				switch r.Intn(4) {
				case 0:
					m.Wire, m.Form = coqN(uint64(m.Sec)), "s/num"
				case 1:
					m.Wire, m.Form = coqN(uint64(m.Sec)*1000+frac), "ms/num"
				case 2:
					m.Wire, m.Form = coqN(uint64(m.Sec)), "s/str"
				case 3:
					m.Wire, m.Form = coqN(uint64(m.Sec)*1000+frac), "ms/str"
				}
			case "prom":
				m.Wire, m.Form = coqN(uint64(m.Sec)*1000+frac), "ms/num"
			case "otlp":
				m.Wire, m.Form = coqN(uint64(m.Sec)*1000000000+frac*1000000+uint64(r.Intn(1000000))), "ns/num"
				// stream A: whole non-negative doubles; stream B: the inputs of the known findings
				switch i % 3 {
				case 0:
					m.Val = float64(r.Intn(1000000))
				case 1:
					m.Val = math.Abs(m.Val)
				case 2:
					m.AsInt = true
					m.IntV = int64(r.Intn(100000)) + 1
					m.Val = float64(m.IntV)
				}
				// attribute kinds other than string: rendered as text by the handler
				if i%2 == 0 {
					m.Tags = append(m.Tags, kv{"shard", sv{Kind: "i", I: int64(r.Intn(64)) - 8}})
				}
				if i%4 == 1 {
					m.Tags = append(m.Tags, kv{"up", sv{Kind: "b", B: r.Bool()}})
				}
				if i%10 == 9 {
					m.Tags = append(m.Tags, kv{"a.b", sv{Kind: "s", S: "dotted"}})
				}
				if i%20 == 19 { // stream B: two attribute keys that the tag-name rule maps to one tag
					m.Tags = append(m.Tags, kv{"a_b", sv{Kind: "s", S: "under"}})
				}
			}
			pts = append(pts, m)
		}
	}
	// ---- ingest through the three handlers: several points per request; the tag lists of
	// neighbouring points differ (a later point LACKS a tag an earlier one has, and the reverse) ----
	group := map[string]int{} // cid -> request number
	prevTags := map[string]map[string]bool{}
	byProto := map[string][]mpoint{}
	for _, m := range pts {
		byProto[m.Proto] = append(byProto[m.Proto], m)
	}
	reqNo := 0
	for _, p := range []string{"otsdb", "prom", "otlp"} {
		l := byProto[p]
		for pos := 0; pos < len(l); {
			k := r.Range(1, 4)
			if pos+k > len(l) {
				k = len(l) - pos
			}
			g := l[pos : pos+k]
			pos += k
			reqNo++
			seen := map[string]bool{}
			for _, m := range g {
				group[m.Cid] = reqNo
				prev := map[string]bool{}
				for t := range seen {
					prev[t] = true
				}
				prevTags[m.Cid] = prev
				for _, t := range m.Tags {
					seen[t.K] = true
				}
			}
			sum.Count(fmt.Sprintf("metric/%s/points_per_request_%d", p, k))
			switch p {
			case "otsdb":
				var items []string
				for _, m := range g {
					ts := m.Wire
					if strings.HasSuffix(m.Form, "str") {
						ts = `"` + ts + `"`
					}
					tg := map[string]string{}
					for _, t := range m.Tags {
						tg[t.K] = t.V.S
					}
					tb, _ := json.Marshal(tg)
					items = append(items, `{"metric":"`+m.Name+`","tags":`+string(tb)+`,"timestamp":`+ts+`,"value":`+strconv.FormatFloat(m.Val, 'f', -1, 64)+`}`)
				}
				body := "[" + strings.Join(items, ",") + "]"
				ok, bad, err := otsdbw.HandlePutMetrics([]byte(body), 0)
				if err != nil || int(ok) != len(g) || bad != 0 {
					sum.HarnessError(fmt.Sprintf("otsdb put %s: ok=%d failed=%d err=%v", body, ok, bad, err))
				}
			case "prom":
				wr := &prompb.WriteRequest{}
				for _, m := range g {
					w, _ := strconv.ParseInt(m.Wire, 10, 64)
					lbl := []prompb.Label{{Name: "__name__", Value: m.Name}}
					for _, t := range m.Tags {
						lbl = append(lbl, prompb.Label{Name: t.K, Value: t.V.S})
					}
					wr.Timeseries = append(wr.Timeseries, prompb.TimeSeries{Labels: lbl, Samples: []prompb.Sample{{Value: m.Val, Timestamp: w}}})
				}
				pbb, _ := gogoproto.Marshal(wr)
				ok, bad, err := promw.HandlePutMetrics(snappy.Encode(nil, pbb), 0)
				if err != nil || int(ok) != len(g) || bad != 0 {
					sum.HarnessError(fmt.Sprintf("remote write %s..: ok=%d failed=%d err=%v", g[0].Cid, ok, bad, err))
				}
			case "otlp":
				// points spread over resources / scopes / metrics of one export request
				req := &colmetricspb.ExportMetricsServiceRequest{}
				for j, m := range g {
					w, _ := strconv.ParseUint(m.Wire, 10, 64)
					dp := &metricspb.NumberDataPoint{TimeUnixNano: w, Attributes: otlpKVs(m.Tags)}
					if m.AsInt {
						dp.Value = &metricspb.NumberDataPoint_AsInt{AsInt: m.IntV}
					} else {
						dp.Value = &metricspb.NumberDataPoint_AsDouble{AsDouble: m.Val}
					}
					mt := &metricspb.Metric{Name: m.Name, Data: &metricspb.Metric_Gauge{Gauge: &metricspb.Gauge{DataPoints: []*metricspb.NumberDataPoint{dp}}}}
					switch {
					case j == 0 || reqNo%3 == 0: // new resource
						req.ResourceMetrics = append(req.ResourceMetrics, &metricspb.ResourceMetrics{ScopeMetrics: []*metricspb.ScopeMetrics{{Metrics: []*metricspb.Metric{mt}}}})
					case reqNo%3 == 1: // new scope of the last resource
						rm := req.ResourceMetrics[len(req.ResourceMetrics)-1]
						rm.ScopeMetrics = append(rm.ScopeMetrics, &metricspb.ScopeMetrics{Metrics: []*metricspb.Metric{mt}})
					default: // another data point of the same gauge
						rm := req.ResourceMetrics[len(req.ResourceMetrics)-1]
						sm := rm.ScopeMetrics[len(rm.ScopeMetrics)-1]
						gg := sm.Metrics[len(sm.Metrics)-1].GetGauge()
						gg.DataPoints = append(gg.DataPoints, dp)
					}
				}
				pb, _ := proto.Marshal(req)
				ctx := mkctx(pb, "application/x-protobuf")
				otlp.ProcessMetricsIngest(ctx, 0)
				if ctx.Response.StatusCode() != 200 {
					sum.HarnessError(fmt.Sprintf("otlp metrics %s..: status %d", g[0].Cid, ctx.Response.StatusCode()))
				}
			}
		}
	}
	for _, mSeg := range metrics.GetAllMetricsSegments() {
		if err := mSeg.CheckAndRotate(true); err != nil {
			sum.HarnessError("metrics rotate: " + err.Error())
		}
	}
	metrics.ResetMetricsSegStore_TestOnly()
	if err := query.PopulateMetricsMetadataForTheFile_TestOnly(meta.GetLocalMetricsMetaFName()); err != nil {
		sum.HarnessError("metrics metadata: " + err.Error())
	}
	var terms []string
	for _, p := range []string{"otsdb", "prom", "otlp"} {
		got, err := queryMetric("c16_"+p+"_metric", base-5, base+uint32(3*n)+10)
		if err != nil {
			sum.HarnessError("metrics query " + p + ": " + err.Error())
			continue
		}
		for _, m := range pts {
			if m.Proto != p {
				continue
			}
			c := map[string]interface{}{"protocol": p, "point": m}
			obs := got[m.Cid]
			sum.Eval("metric/"+m.Cid, true)
			sum.Count("metric/" + p + "/" + m.Form)
			obsTerm := "None"
			if len(obs) == 0 {
				fail(sum, p+"_metric_point_lost", fmt.Sprintf("%s: datapoint %s (t=%s) is not returned by the query path", p, m.Cid, m.Wire), c)
			} else if len(obs) > 1 {
				fail(sum, p+"_metric_point_duplicated", fmt.Sprintf("%s: datapoint %s is returned %d times", p, m.Cid, len(obs)), c)
			} else {
				o := obs[0]
				if o.ts != m.Sec {
					fail(sum, p+"_metric_time_not_preserved", fmt.Sprintf("%s: datapoint %s carried t=%s (second %d), stored at second %d", p, m.Cid, m.Wire, m.Sec, o.ts), c)
				}
				if o.name != m.Name {
					fail(sum, p+"_metric_name_altered", fmt.Sprintf("%s: metric %q stored as %q", p, m.Name, o.name), c)
				}
				// OTLP attribute keys become Prometheus-style tag names ([^a-zA-Z0-9_] -> _), the usual rule
				col := func(k string) string {
					if p != "otlp" {
						return k
					}
					b := []byte(k)
					for j := range b {
						ch := b[j]
						if !(ch >= '0' && ch <= '9' || ch >= 'a' && ch <= 'z' || ch >= 'A' && ch <= 'Z' || ch == '_') {
							b[j] = '_'
						}
					}
					return string(b)
				}
				for _, t := range m.Tags {
					collides := false
					for _, t2 := range m.Tags {
						if t2.K != t.K && col(t2.K) == col(t.K) {
							collides = true
						}
					}
					if v, ok := o.tags[col(t.K)]; !ok {
						fail(sum, p+"_metric_tag_lost", fmt.Sprintf("%s: datapoint %s: tag %q is missing; stored tags %v", p, m.Cid, t.K, o.tags), c)
					} else if v != tagStr(t.V) {
						cl := p + "_metric_tag_altered"
						if collides {
							cl = "otlp_metric_key_collision"
						}
						fail(sum, cl, fmt.Sprintf("%s: datapoint %s: tag %q sent %q stored %q (stored tags %v)", p, m.Cid, t.K, tagStr(t.V), v, o.tags), c)
					}
				}
				ownCols := map[string]bool{}
				for _, t := range m.Tags {
					ownCols[col(t.K)] = true
				}
				var extraTags []string
				for k := range o.tags {
					if !ownCols[k] {
						extraTags = append(extraTags, k)
					}
				}
				sort.Strings(extraTags)
				for _, k := range extraTags {
					cl := p + "_metric_tag_extra"
					if prevTags[m.Cid][k] {
						cl = p + "_metric_tag_leaks_between_points"
					}
					fail(sum, cl, fmt.Sprintf("%s: datapoint %s (request %d): stored tag %q=%q was not part of the point", p, m.Cid, group[m.Cid], k, o.tags[k]), c)
				}
				if math.Float64bits(o.val) != math.Float64bits(m.Val) {
					cl := p + "_metric_value_altered"
					if p == "otlp" && m.AsInt && o.val == 0 {
						cl = "otlp_metric_int_value_zero"
					} else if p == "otlp" && !m.AsInt && o.val == math.Trunc(m.Val) {
						cl = "otlp_metric_value_truncated"
					}
					fail(sum, cl, fmt.Sprintf("%s: datapoint %s: value sent %v stored %v", p, m.Cid, m.Val, o.val), c)
				}
				var tg []kv
				ks := make([]string, 0)
				for k := range o.tags {
					ks = append(ks, k)
				}
				sort.Strings(ks)
				for _, k := range ks {
					tg = append(tg, kv{k, sv{Kind: "s", S: o.tags[k]}})
				}
				d := toDyad(o.val)
				obsTerm = fmt.Sprintf("(Some {| d_name := %s; d_tags := %s; d_ts := %d; d_val := %s |})", coqS(o.name), coqTags(tg), o.ts, d.coq())
			}
			w, _ := strconv.ParseInt(m.Wire, 10, 64)
			switch p {
			case "otsdb":
				terms = append(terms, fmt.Sprintf("(MOtsdb %s %s %s %s, %s)", coqS(m.Name), coqTags(m.Tags), coqZ(w), toDyad(m.Val).coq(), obsTerm))
			case "prom":
				lbl := append([]kv{{"__name__", sv{Kind: "s", S: m.Name}}}, m.Tags...)
				terms = append(terms, fmt.Sprintf("(MProm %s %s %s, %s)", coqTags(lbl), coqZ(w), toDyad(m.Val).coq(), obsTerm))
			case "otlp":
				v := "(MDouble " + toDyad(m.Val).coq() + ")"
				if m.AsInt {
					v = "(MInt " + coqZ(m.IntV) + ")"
				}
				terms = append(terms, fmt.Sprintf("(MOtlp %s %s %s %s, %s)", coqS(m.Name), coqEvent(m.Tags), m.Wire, v, obsTerm))
			}
			if len(obs) == 1 && sum.Evaluations%50 == 7 {
				sum.Sample(map[string]interface{}{"protocol": p, "point": m, "stored_second": obs[0].ts, "stored_value": obs[0].val})
			}
		}
	}
	sum.WriteCaseFile(cfg.Out, "cases_metrics", caseImports,
		"Definition cases : list (mcase * option datapoint) := "+vhlib.CoqListNL(terms)+".\n", "check_metrics cases", len(terms))
}

func writeSharded(cfg vhlib.Config, sum *vhlib.Summary, name, typ, expr string, terms []string, per int) {
	for s := 0; s*per < len(terms); s++ {
		end := (s + 1) * per
		if end > len(terms) {
			end = len(terms)
		}
		body := vhlib.CoqListNL(terms[s*per:end])
		n := strings.Count(body, "mk_lobs") // one stored record each
		if n == 0 {
			n = end - s*per
		}
		sum.WriteCaseFile(cfg.Out, fmt.Sprintf("%s_%d", name, s), caseImports, "Definition cases : "+typ+" := "+body+".\n", expr, n)
	}
}

func main() {
	log.SetLevel(log.PanicLevel)
	log.SetOutput(os.Stderr)
	cfg := vhlib.ParseFlags()
	sum := vhlib.NewSummary("one case = (logical event or datapoint, protocol) pushed through the real handler, flushed and read back by a match-all search / the PromQL query path, " +
		"or one integer given to every real reader of a time value (boundary pool around each unit threshold +-2, 0, negatives, 10/13/16/19 digit values, random 1-19 digit values); " +
		"events: time in one of {none, s, ms, ns} x {number, string}, 1-5 attributes (strings, ints incl. +-(2^53-1) and beyond, non-integral floats, bools), resource attributes, ids; " +
		"stream A avoids the inputs of the known findings, stream B concentrates on them; stream I (OTLP logs): each of trace id / span id carried as {own field, attribute only, both with different values, both the same, neither}, all combinations, attribute values as hex strings and (own index) as integers / booleans; stream L (ES bulk, ES single-document, HEC, OTLP logs, OTLP traces as far as expressible): number literals under keys of their own: integers beyond 2^53 inside int64 (ids, nanosecond epochs, also inside a nested object), in [2^63, 2^64), beyond 64 bits, non-integral decimals as shortest digits in fraction / exponent spelling and as 40-place decimals, large / small exponents and denormals, strings with escaped characters; ES single-document requests: every event of the ES bulk streams and of stream L again, one request each, routes POST _doc, PUT _doc/{id}, PUT _create/{id}, POST _update/{id}, PUT {docType}/{id}, POST _doc/{escaped id}?refresh=true, POST _doc/ with an empty id, in turn; stream K (ES bulk, ES single-document, HEC event + HEC fields member, Loki structured metadata + labels, OTLP log attributes / resource attributes / scope attributes / kvlist body, OTLP span attributes): events that are TREES (objects, arrays of objects / scalars / arrays, depth up to 5) whose member names are taken from the names the ingest path treats specially (timestamp, _index, _id, _type, time, event, fields, host, source, sourcetype, index, streams, stream, values, line, resource, scope, attributes, body, severity_text, trace_id, span_id, time_unix_nano, name, service, kind, status, start_time, startTimeMillis, message), 9 designed shapes then random ones, every column one value kind, nested timestamp values that denote other instants than the event time, plus such names as plain root fields where the record layout leaves them free; stream R (known findings): span attributes / Loki labels / Loki metadata called like a root field of the record itself; distinct by (protocol, case id) resp. integer value; all are non-trivial except the integer 0")
	r := vhlib.NewRng(cfg.Seed)
	dir := filepath.Join(cfg.Out, "data")
	_ = os.MkdirAll(dir, 0o755)
	if err := initSiglens(dir); err != nil {
		sum.HarnessError("init: " + err.Error())
		sum.Write(cfg.Out)
		return
	}

	runUnits(cfg, sum, r.Fork())

	nA, nB := 70, 30
	if cfg.Thorough() {
		nA, nB = 700, 300
	}
	ra, rb := r.Fork(), r.Fork()
	var evs []levent
	for i := 0; i < nA; i++ {
		evs = append(evs, genEvent(ra, i, "A"))
	}
	for i := 0; i < nB; i++ {
		evs = append(evs, genEvent(rb, i, "B"))
	}
	// designed sequences: an event with every key, then one with none, then every key again
	evs = append(evs, designedEvents()...)
	var logCases, logReqCases, traceReqCases []string
	// events whose timestamp is a JSON number in every spelling: ES documents and the root of HEC envelopes
	nN := 24
	if cfg.Thorough() {
		nN = 240
	}
	nEvs := spellingEvents(r.Fork(), nN)
	esEvs := append(append(append([]levent{}, evs...), nEvs...), boundaryEvents()...)
	runES(sum, esEvs, &logCases, "c16es")
	runESRoutes(sum, r.Fork(), &logCases)
	runHEC(sum, append(append([]levent{}, evs...), nEvs...), &logCases, "c16hec")
	writeSharded(cfg, sum, "cases_logs", "list (lcase * list N * lobs)", "check_logs cases", logCases, 120)
	// stream L (own generator stream): number literals in every spelling, through every protocol that can express them;
	// and the ES single-document protocol: every event of the ES bulk run again, one request per document, all routes
	nL := 56
	if cfg.Thorough() {
		nL = 560
	}
	rL := vhlib.NewRng(cfg.Seed ^ 0x6c16c16c16c16c16)
	lEvs := litEvents(rL.Fork(), nL)
	var litCases, docCases []string
	runES(sum, lEvs, &litCases, "c16lit")
	runHEC(sum, litFor("hec", lEvs), &litCases, "c16heclit")
	writeSharded(cfg, sum, "cases_logs_lit", "list (lcase * list N * lobs)", "check_logs cases", litCases, 120)
	runESDoc(sum, append(append([]levent{}, esEvs...), lEvs...), &docCases, "c16doc")
	writeSharded(cfg, sum, "cases_es_doc", "list (lcase * list N * lobs)", "check_logs cases", docCases, 120)
	runOTLPLogs(sum, r.Fork(), evs, &logReqCases, otlpDefaultIndex)
	// stream I (own generator stream, the other streams stay as they were): the two trace-context identifiers carried differently
	idRounds := 3
	if cfg.Thorough() {
		idRounds = 30
	}
	ri := vhlib.NewRng(cfg.Seed ^ 0x1d5c16e1d5c16e)
	runOTLPLogs(sum, ri.Fork(), idEvents(ri.Fork(), idRounds, false), &logReqCases, otlpDefaultIndex)
	writeSharded(cfg, sum, "cases_otlp_logs", "list (list res_logs * list lobs)", "check_logs_reqs (s2b \"otel-logs\") cases", logReqCases, 12)
	var idKindCases []string
	runOTLPLogs(sum, ri.Fork(), idEvents(ri.Fork(), (idRounds+1)/2, true), &idKindCases, otlpIdKindsIndex)
	writeSharded(cfg, sum, "cases_otlp_logs_idkinds", "list (list res_logs * list lobs)", "check_logs_reqs (s2b \""+otlpIdKindsIndex+"\") cases", idKindCases, 12)
	runSpans(sum, r.Fork(), evs, &traceReqCases)
	writeSharded(cfg, sum, "cases_otlp_traces", "list (list res_spans * list lobs)", "check_trace_reqs (s2b \"traces\") cases", traceReqCases, 12)
	var litLogReqCases, litTraceReqCases []string
	runOTLPLogs(sum, rL.Fork(), litFor("otlp", lEvs), &litLogReqCases, otlpLitIndex)
	writeSharded(cfg, sum, "cases_otlp_logs_lit", "list (list res_logs * list lobs)", "check_logs_reqs (s2b \""+otlpLitIndex+"\") cases", litLogReqCases, 12)
	runSpans(sum, rL.Fork(), litFor("otlp", lEvs), &litTraceReqCases)
	writeSharded(cfg, sum, "cases_otlp_traces_lit", "list (list res_spans * list lobs)", "check_trace_reqs (s2b \"traces\") cases", litTraceReqCases, 12)

	// stream K (own generator stream): names the ingest path treats specially, as ordinary field names below the
	// root and at the root, through every log protocol
	nK := 40
	if cfg.Thorough() {
		nK = 400
	}
	rK := vhlib.NewRng(cfg.Seed ^ 0x4b16c16b16c16b16)
	kEvs := keyEvents(rK.Fork(), nK)
	var keyCases, keyDocCases, keyLogReqCases, keyTraceReqCases, colTraceReqCases []string
	runES(sum, kEvs, &keyCases, "c16key")
	runHEC(sum, kEvs, &keyCases, "c16heckey")
	runOTLPLogBodies(sum, kEvs, &keyCases)
	writeSharded(cfg, sum, "cases_logs_key", "list (lcase * list N * lobs)", "check_logs cases", keyCases, 60)
	runESDoc(sum, kEvs, &keyDocCases, "c16keydoc")
	writeSharded(cfg, sum, "cases_es_doc_key", "list (lcase * list N * lobs)", "check_logs cases", keyDocCases, 80)
	runOTLPLogs(sum, rK.Fork(), kEvs, &keyLogReqCases, otlpKeyIndex)
	writeSharded(cfg, sum, "cases_otlp_logs_key", "list (list res_logs * list lobs)", "check_logs_reqs (s2b \""+otlpKeyIndex+"\") cases", keyLogReqCases, 12)
	runSpans(sum, rK.Fork(), kEvs, &keyTraceReqCases)
	writeSharded(cfg, sum, "cases_otlp_traces_key", "list (list res_spans * list lobs)", "check_trace_reqs (s2b \"traces\") cases", keyTraceReqCases, 12)
	// stream R (known findings, kept apart): names that collide with the record's OWN root fields
	runSpans(sum, rK.Fork(), spanCollisionEvents(nK/4), &colTraceReqCases)
	writeSharded(cfg, sum, "cases_otlp_traces_collide", "list (list res_spans * list lobs)", "check_trace_reqs (s2b \"traces\") cases", colTraceReqCases, 12)

	var streams []lokiStream
	rl, rlb := r.Fork(), r.Fork()
	nsA, nsB := 30, 12
	if cfg.Thorough() {
		nsA, nsB = 300, 120
	}
	for i := 0; i < nsA; i++ {
		streams = append(streams, genLokiStream(rl, i, "A"))
	}
	for i := 0; i < nsB; i++ {
		streams = append(streams, genLokiStream(rlb, i, "B"))
	}
	nsK := 12
	if cfg.Thorough() {
		nsK = 120
	}
	rlk := rK.Fork()
	for i := 0; i < nsK; i++ {
		streams = append(streams, genLokiKeyStream(rlk, i))
	}
	for i := 0; i < nsK/2; i++ {
		streams = append(streams, lokiCollisionStream(i))
	}
	var lokiCases []string
	runLoki(sum, streams, &lokiCases)
	writeSharded(cfg, sum, "cases_loki", "list (event * list loki_line * list lobs)", "check_loki (s2b \"loki-index\") cases", lokiCases, 150)

	runMetrics(cfg, sum, r.Fork())
	_ = os.RemoveAll(dir)
	sum.Write(cfg.Out)
}

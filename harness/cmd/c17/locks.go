// c17 / lock scenarios: which locks the functions of querystatus.go hold while they wait for a
// slow receiver of StateChan, and whether that wait reaches other queries.
//
// One scenario (own worker process for a handful of them): one or two queries are started with
// forceRun, nobody reads their state channel and the channel is filled up (10/10).  Then a
// generated list of real calls is made ONE AFTER THE OTHER, each in its own goroutine:
//
//	senders on the full channel  CancelQuery, the real timeout watcher (1 s deadline, TIMEOUT
//	                             finds the last free slot, then CancelQuery),
//	                             rQuery.SendQueryStateComplete, SetQidAsFinishedForPipeRespQuery,
//	                             IncrementNumFinishedSegments; in the separate known-class stream
//	                             IncProgressForRRCCmd / SetPipeResp
//	workers of the blocked query GetProgress, IsRawSearchFinished, ... (plain accessors),
//	                             GetAllColsInAggsForQid / SetAllColsInAggsForQid (rqsLock taken
//	                             while arqMapLock.RLock is held)
//	other queries                StartQuery / StartQueryAsCoordinator (forceRun or queued), one
//	                             iteration of the puller, CancelQuery, DeleteQuery, accessors,
//	                             GetActiveQueryCount
//
// A call either returns or parks; "parked" is read from the goroutine dump (state chan send /
// sync.Mutex.Lock / sync.RWMutex.Lock / sync.RWMutex.RLock seen on consecutive polls), never from
// a short timer, and is confirmed at the end of the scenario (still not returned, after a generous
// patience for the calls that concern other queries).  After every call arqMapLock,
// waitingQueriesLock and the rqsLock of the blocked query are probed with TryLock / TryRLock.
// Finally a consumer drains the channels: every parked call must return.
//
// Oracle (property text: "cancellation or timeout at any moment stops it promptly without blocking
// other queries"): a call that concerns only queries whose channel is NOT full must return while
// the receiver of the full channel is still absent.  Model: QueryLife.exec over QueryLife.script
// must predict returned/parked and the three probes after every call (compared in Coq).
package main

import (
	"encoding/json"
	"fmt"
	"os"
	"path/filepath"
	"runtime"
	"sort"
	"strconv"
	"strings"
	"sync"
	"time"

	"github.com/siglens/siglens/pkg/config"
	"github.com/siglens/siglens/pkg/segment/query"
	"github.com/siglens/siglens/pkg/segment/structs"

	"verifharness/vhlib"
)

const (
	plInRun  = 0
	plInWait = 1
	plAbsent = 2
)

type LockOp struct {
	Op     string `json:"op"` // start pull cancel timeoutcancel timeoutsend delete execsend finishsend progresssend accessor nested count
	Q      uint64 `json:"q,omitempty"`
	W      int    `json:"w,omitempty"`
	Forced bool   `json:"forced,omitempty"`
	Coord  bool   `json:"coord,omitempty"`
	Head   int64  `json:"head"` // pull: qid at the head of the queue, -1 = queue empty
	Fn     int    `json:"fn,omitempty"`
	// observed
	Parked   bool   `json:"parked"`
	State    string `json:"state,omitempty"` // goroutine state when it was seen parked
	Arq      int    `json:"arq"`
	WaitQ    int    `json:"waitq"`
	Rqs      int    `json:"rqs"`
	Released bool   `json:"released,omitempty"` // parked, and returned once the channel was drained
}

type LockSpec struct {
	Kind     string   `json:"kind"` // main | timeout | known_progress
	Fulls    []uint64 `json:"fulls"`
	Ops      []LockOp `json:"ops"`
	Patience int      `json:"patience_ms"`
}

type LockResult struct {
	Spec     LockSpec `json:"spec"`
	Err      string   `json:"err,omitempty"`
	Skip     string   `json:"skip,omitempty"`
	Blocked  []int    `json:"blocked"`  // indices of calls on other queries that did not return
	Senders  []int    `json:"senders"`  // indices of the senders parked at that time
	Released bool     `json:"released"` // everything returned after the drain
	WallMs   int64    `json:"wall_ms"`
}

var accessorNames = []string{"GetProgress", "IsRawSearchFinished", "GetQuerySearchStateForQid", "GetTotalSegmentsToSearch",
	"GetCurrentSearchResultCount", "GetPipeResp", "GetNumMatchedRRCs", "GetTotalRecsToBeSearchedForQid", "GetActiveQueryCount+rQuery.GetStartTime", "GetActiveQueryCount+rQuery.IsAsync"}

func (o LockOp) String() string {
	switch o.Op {
	case "start":
		f := "StartQuery"
		if o.Coord {
			f = "StartQueryAsCoordinator"
		}
		return fmt.Sprintf("%s(%d, forceRun=%v)", f, o.Q, o.Forced)
	case "pull":
		if o.Head < 0 {
			return "puller iteration (queue empty)"
		}
		return fmt.Sprintf("puller iteration (admits %d)", o.Head)
	case "cancel":
		return fmt.Sprintf("CancelQuery(%d)", o.Q)
	case "timeoutcancel":
		return fmt.Sprintf("timeout watcher of %d: TIMEOUT, CancelQuery(%d)", o.Q, o.Q)
	case "timeoutsend":
		return fmt.Sprintf("timeout watcher of %d: TIMEOUT", o.Q)
	case "delete":
		return fmt.Sprintf("DeleteQuery(%d)", o.Q)
	case "execsend":
		return fmt.Sprintf("rQuery(%d).SendQueryStateComplete()", o.Q)
	case "finishsend":
		if o.Fn%2 == 0 {
			return fmt.Sprintf("SetQidAsFinishedForPipeRespQuery(%d)", o.Q)
		}
		return fmt.Sprintf("IncrementNumFinishedSegments(0, %d, ...)", o.Q)
	case "progresssend":
		if o.Fn%2 == 0 {
			return fmt.Sprintf("IncProgressForRRCCmd(1, 1, %d)", o.Q)
		}
		return fmt.Sprintf("SetPipeResp(resp, %d)", o.Q)
	case "accessor":
		return fmt.Sprintf("%s(%d)", accessorNames[o.Fn%len(accessorNames)], o.Q)
	case "nested":
		if o.Fn%2 == 0 {
			return fmt.Sprintf("GetAllColsInAggsForQid(%d)", o.Q)
		}
		return fmt.Sprintf("SetAllColsInAggsForQid(%d, cols)", o.Q)
	case "count":
		return "GetActiveQueryCount()"
	}
	return o.Op
}

func (o LockOp) isSender() bool {
	switch o.Op {
	case "cancel", "timeoutcancel", "timeoutsend", "execsend", "finishsend", "progresssend":
		return true
	}
	return false
}

// ---------------------------------------------------------------------------
// generator (parent): the list of calls, with the place of every qid tracked
// ---------------------------------------------------------------------------

func genLockSpec(r *vhlib.Rng, kind string) LockSpec {
	sp := LockSpec{Kind: kind, Fulls: []uint64{1}, Patience: 2000}
	if kind == "known_progress" {
		sp.Patience = 1000 // the call is expected to stay parked; "parked" is read from the goroutine state
	}
	if r.Chance(30) {
		sp.Fulls = append(sp.Fulls, 2)
	}
	place := map[uint64]int{}
	msgs := map[uint64]int{}
	var queue []uint64
	nextQ := uint64(10)
	fresh := func() uint64 { nextQ++; return nextQ - 1 }
	full := func() uint64 { return sp.Fulls[r.Intn(len(sp.Fulls))] }
	others := func(pl int) []uint64 {
		var v []uint64
		for q := uint64(10); q < nextQ; q++ {
			if p, ok := place[q]; ok && p == pl {
				v = append(v, q)
			}
		}
		return v
	}
	add := func(o LockOp) {
		if o.Op != "pull" {
			o.Head = -1
		}
		sp.Ops = append(sp.Ops, o)
	}
	senderOnFull := func() {
		q := full()
		switch r.Intn(10) {
		case 0, 1, 2, 3, 4:
			add(LockOp{Op: "cancel", Q: q, W: plInRun})
		case 5, 6:
			add(LockOp{Op: "execsend", Q: q})
		default:
			add(LockOp{Op: "finishsend", Q: q, Fn: r.Intn(2)})
		}
	}
	otherOp := func() {
		switch r.Intn(12) {
		case 0, 1, 2:
			q := fresh()
			forced := r.Bool()
			add(LockOp{Op: "start", Q: q, Forced: forced, Coord: r.Chance(35)})
			if forced {
				place[q] = plInRun
			} else {
				place[q] = plInWait
				queue = append(queue, q)
			}
		case 3, 4:
			if len(queue) > 0 {
				add(LockOp{Op: "pull", Head: int64(queue[0])})
				place[queue[0]] = plInRun
				queue = queue[1:]
			} else {
				add(LockOp{Op: "pull", Head: -1})
			}
		case 5, 6:
			// cancel: a running, a waiting or an unknown query
			var q uint64
			pl := r.Intn(3)
			if v := others(pl); len(v) > 0 && pl != plAbsent {
				q = v[r.Intn(len(v))]
			} else {
				q, pl = fresh(), plAbsent
				place[q] = plAbsent
			}
			if pl == plInRun && msgs[q] >= 5 {
				add(LockOp{Op: "count"})
				return
			}
			add(LockOp{Op: "cancel", Q: q, W: pl})
			if pl == plInRun {
				msgs[q]++
			}
			if pl == plInWait {
				place[q] = plAbsent
				for i, x := range queue {
					if x == q {
						queue = append(queue[:i:i], queue[i+1:]...)
						break
					}
				}
			}
		case 7, 8:
			var q uint64
			pl := r.Intn(3)
			if v := others(pl); len(v) > 0 && pl != plAbsent {
				q = v[r.Intn(len(v))]
			} else {
				q, pl = fresh(), plAbsent
			}
			add(LockOp{Op: "delete", Q: q, W: pl})
			place[q] = plAbsent
			for i, x := range queue {
				if x == q {
					queue = append(queue[:i:i], queue[i+1:]...)
					break
				}
			}
		case 9:
			add(LockOp{Op: "count"})
		case 10:
			if v := others(plInRun); len(v) > 0 {
				q := v[r.Intn(len(v))]
				if r.Bool() {
					add(LockOp{Op: "accessor", Q: q, Fn: r.Intn(len(accessorNames))})
				} else {
					add(LockOp{Op: "nested", Q: q, Fn: r.Intn(2)})
				}
			} else {
				add(LockOp{Op: "count"})
			}
		default:
			if v := others(plInRun); len(v) > 0 {
				q := v[r.Intn(len(v))]
				if msgs[q] < 5 {
					msgs[q]++
					if r.Bool() {
						add(LockOp{Op: "execsend", Q: q})
					} else {
						add(LockOp{Op: "finishsend", Q: q, Fn: r.Intn(2)})
					}
					return
				}
			}
			add(LockOp{Op: "count"})
		}
	}
	switch kind {
	case "timeout":
		// the channel is at 9/10 (TIMEOUT finds room, CancelQuery parks) or at 10/10 (TIMEOUT parks)
		if r.Chance(65) {
			add(LockOp{Op: "timeoutcancel", Q: 1})
		} else {
			add(LockOp{Op: "timeoutsend", Q: 1})
		}
	case "known_progress":
		add(LockOp{Op: "progresssend", Q: 1, Fn: r.Intn(2)})
	default:
		if r.Chance(70) {
			senderOnFull()
		}
	}
	n := 6 + r.Intn(7)
	for i := 0; i < n; i++ {
		switch x := r.Intn(100); {
		case x < 22:
			add(LockOp{Op: "nested", Q: full(), Fn: r.Intn(2)})
		case x < 34:
			add(LockOp{Op: "accessor", Q: full(), Fn: r.Intn(len(accessorNames))})
		case x < 46 && kind != "known_progress":
			senderOnFull()
		default:
			otherOp()
		}
	}
	if r.Bool() {
		// the calls a query worker and an unrelated client make
		add(LockOp{Op: "nested", Q: sp.Fulls[0], Fn: r.Intn(2)})
		q := fresh()
		add(LockOp{Op: "start", Q: q, Forced: false})
		place[q] = plInWait
		queue = append(queue, q)
		add(LockOp{Op: "count"})
		add(LockOp{Op: "delete", Q: q, W: plInWait})
	}
	return sp
}

// ---------------------------------------------------------------------------
// worker
// ---------------------------------------------------------------------------

func curGid() int64 {
	var buf [64]byte
	n := runtime.Stack(buf[:], false)
	f := strings.Fields(string(buf[:n]))
	if len(f) < 2 {
		return -1
	}
	id, _ := strconv.ParseInt(f[1], 10, 64)
	return id
}

func allStacks() string {
	buf := make([]byte, 1<<20)
	for {
		n := runtime.Stack(buf, true)
		if n < len(buf) {
			return string(buf[:n])
		}
		buf = make([]byte, 2*len(buf))
	}
}

// state of goroutine gid in a dump ("" = not there any more)
func gStateIn(dump string, gid int64) string {
	key := fmt.Sprintf("goroutine %d [", gid)
	i := -1
	if strings.HasPrefix(dump, key) {
		i = 0
	} else if k := strings.Index(dump, "\n"+key); k >= 0 {
		i = k + 1
	}
	if i < 0 {
		return ""
	}
	rest := dump[i+len(key):]
	if k := strings.IndexByte(rest, ']'); k >= 0 {
		st := rest[:k]
		if c := strings.IndexByte(st, ','); c >= 0 {
			st = st[:c]
		}
		return st
	}
	return ""
}

func isParkedState(st string) bool {
	switch st {
	case "chan send", "sync.Mutex.Lock", "sync.RWMutex.Lock", "sync.RWMutex.RLock", "semacquire":
		return true
	}
	return false
}

type lockCall struct {
	done chan struct{}
	gid  int64
}

func launchCall(f func()) *lockCall {
	c := &lockCall{done: make(chan struct{})}
	g := make(chan int64, 1)
	go func() {
		g <- curGid()
		f()
		close(c.done)
	}()
	c.gid = <-g
	return c
}

func (c *lockCall) isDone() bool {
	select {
	case <-c.done:
		return true
	default:
		return false
	}
}

// returns ("", true) when the call returned, (state, false) when it is parked; a goroutine that is
// neither (starved of CPU) is waited for, up to limit
func (c *lockCall) settle(limit time.Duration) (string, bool) {
	t0 := time.Now()
	seen := 0
	last := ""
	for time.Since(t0) < limit {
		select {
		case <-c.done:
			return "", true
		case <-time.After(1500 * time.Microsecond):
		}
		st := gStateIn(allStacks(), c.gid)
		if isParkedState(st) {
			seen++
			last = st
			if seen >= 3 {
				return st, false
			}
		} else {
			seen = 0
		}
	}
	if c.isDone() {
		return "", true
	}
	return "undecided:" + last, false
}

// the three lock probes without transients: a lock held by a parked goroutine reads the same every
// time, a watcher goroutine of a deleted query passing through arqMapLock.RLock does not; element-wise
// minimum over up to 6 samples 2 ms apart (one sample when everything is free)
func stableProbe(rq *query.RunningQueryState) (int, int, int) {
	a, w, q := query.VerifProbeLocks(rq)
	for k := 0; k < 5 && (a != 0 || w != 0 || q != 0); k++ {
		time.Sleep(2 * time.Millisecond)
		a2, w2, q2 := query.VerifProbeLocks(rq)
		if a2 < a {
			a = a2
		}
		if w2 < w {
			w = w2
		}
		if q2 < q {
			q = q2
		}
	}
	return a, w, q
}

// released timeout watchers leave asynchronously (they take arqMapLock.RLock on their way out)
func waitWatchersGone(want int) {
	for i := 0; i < 400 && watcherCount() > want; i++ {
		time.Sleep(2 * time.Millisecond)
	}
}

// the watcher goroutines that wait in a channel send; inCancel = at least one of them is inside CancelQuery
func parkedWatchers() (n int, inCancel bool) {
	for _, g := range strings.Split(allStacks(), "\n\n") {
		if !strings.Contains(g, "query.setupTimeoutCancelFunc.func1") {
			continue
		}
		if strings.HasPrefix(g, "goroutine ") && strings.Contains(g[:strings.IndexByte(g, '\n')+1], "[chan send") {
			n++
			if strings.Contains(g, "query.CancelQuery(") {
				inCancel = true
			}
		}
	}
	return
}

func runLockScenario(sp LockSpec) (res *LockResult) {
	t0 := time.Now()
	res = &LockResult{Spec: sp}
	defer func() { res.WallMs = time.Since(t0).Milliseconds() }()
	if n, w := query.GetActiveQueryCount(), len(query.GetWaitingQueries()); n != 0 || w != 0 {
		res.Err = fmt.Sprintf("tables not empty at the start of a lock scenario (%d, %d)", n, w)
		return
	}
	query.MAX_RUNNING_QUERIES = 1000
	capn := query.VerifStateChanCap()
	rqs := map[uint64]*query.RunningQueryState{}
	var rqsMu sync.Mutex
	getRq := func(q uint64) *query.RunningQueryState { rqsMu.Lock(); defer rqsMu.Unlock(); return rqs[q] }
	isFull := map[uint64]bool{}
	used := map[uint64]bool{}
	// the blocked queries: started with forceRun, async, nobody reads
	for i, q := range sp.Fulls {
		if sp.Kind == "timeout" && i == 0 {
			config.SetQueryTimeoutSecs(1)
		}
		rq, err := query.StartQuery(q, true, nil, true)
		config.SetQueryTimeoutSecs(300)
		if err != nil {
			res.Err = "cannot start the blocked query: " + err.Error()
			return
		}
		rqs[q], isFull[q], used[q] = rq, true, true
		query.InitProgressForRRCCmd(100, q)
		target := capn
		if sp.Kind == "timeout" && i == 0 && len(sp.Ops) > 0 && sp.Ops[0].Op == "timeoutcancel" {
			target = capn - 1 // TIMEOUT takes the last slot, CancelQuery then finds the channel full
		}
		for len(rq.StateChan) < target {
			rq.StateChan <- &query.QueryStateChanData{StateName: query.QUERY_UPDATE, Qid: q}
		}
	}
	rqB := rqs[sp.Fulls[0]]
	concernsOther := func(o LockOp) bool {
		switch o.Op {
		case "pull", "count":
			return true
		}
		return !isFull[o.Q]
	}
	patience := time.Duration(sp.Patience) * time.Millisecond
	calls := make([]*lockCall, len(sp.Ops))
	ops := res.Spec.Ops
	for i := range ops {
		o := &ops[i]
		q := o.Q
		used[q] = true
		var f func()
		switch o.Op {
		case "timeoutcancel", "timeoutsend":
			// the real watcher: wait for the deadline (1 s after the start of the query)
			dl := time.Now().Add(8 * time.Second)
			n, inCancel := 0, false
			for time.Now().Before(dl) {
				if n, inCancel = parkedWatchers(); n > 0 && len(rqB.StateChan) == capn {
					break
				}
				time.Sleep(20 * time.Millisecond)
			}
			if n == 0 {
				res.Skip = "the timeout watcher did not reach its send within 8 s"
				o.Parked = false
			} else {
				o.Parked = true
				o.State = "chan send (TIMEOUT)"
				if inCancel {
					o.State = "chan send (CANCELLED, in CancelQuery)"
				}
			}
			o.Arq, o.WaitQ, o.Rqs = stableProbe(rqB)
			continue
		case "start":
			f = func() {
				var rq *query.RunningQueryState
				var err error
				if o.Coord {
					rq, err = query.StartQueryAsCoordinator(q, true, nil, nil, nil, nil, nil, o.Forced)
				} else {
					rq, err = query.StartQuery(q, true, nil, o.Forced)
				}
				if err == nil {
					rqsMu.Lock()
					rqs[q] = rq
					rqsMu.Unlock()
				}
			}
		case "pull":
			f = func() { query.VerifPullOnce() }
		case "cancel":
			f = func() { query.CancelQuery(q) }
		case "delete":
			f = func() { query.DeleteQuery(q) }
		case "execsend":
			rq := getRq(q)
			if rq == nil {
				res.Err = fmt.Sprintf("generator: execsend on unknown query %d", q)
				return
			}
			f = func() { rq.SendQueryStateComplete() }
		case "finishsend":
			if o.Fn%2 == 0 {
				f = func() { query.SetQidAsFinishedForPipeRespQuery(q) }
			} else {
				f = func() { query.IncrementNumFinishedSegments(0, q, 0, 0, "", false, nil) }
			}
		case "progresssend":
			if o.Fn%2 == 0 {
				f = func() { _ = query.IncProgressForRRCCmd(1, 1, q) }
			} else {
				f = func() { _ = query.SetPipeResp(&structs.PipeSearchResponseOuter{}, q) }
			}
		case "accessor":
			rq := getRq(q)
			switch o.Fn % len(accessorNames) {
			case 0:
				f = func() { _, _ = query.GetProgress(q) }
			case 1:
				f = func() { _, _ = query.IsRawSearchFinished(q) }
			case 2:
				f = func() { _, _, _, _, _ = query.GetQuerySearchStateForQid(q) }
			case 3:
				f = func() { _, _ = query.GetTotalSegmentsToSearch(q) }
			case 4:
				f = func() { _, _ = query.GetCurrentSearchResultCount(q) }
			case 5:
				f = func() { _ = query.GetPipeResp(q) }
			case 6:
				f = func() { _, _ = query.GetNumMatchedRRCs(q) }
			case 7:
				f = func() { _, _ = query.GetTotalRecsToBeSearchedForQid(q) }
			case 8:
				f = func() { _ = query.GetActiveQueryCount(); _ = rq.GetStartTime() }
			default:
				f = func() { _ = query.GetActiveQueryCount(); _ = rq.IsAsync() }
			}
			if rq == nil {
				res.Err = fmt.Sprintf("generator: accessor on unknown query %d", q)
				return
			}
		case "nested":
			if o.Fn%2 == 0 {
				f = func() { _, _ = query.GetAllColsInAggsForQid(q) }
			} else {
				f = func() { query.SetAllColsInAggsForQid(q, map[string]struct{}{"a": {}}) }
			}
		case "count":
			f = func() { _ = query.GetActiveQueryCount() }
		default:
			res.Err = "generator: unknown op " + o.Op
			return
		}
		calls[i] = launchCall(f)
		st, done := calls[i].settle(10 * time.Second)
		if !done && concernsOther(*o) {
			// a call that concerns other queries looks parked: give it the whole patience
			for t1 := time.Now(); !calls[i].isDone() && time.Since(t1) < patience; {
				time.Sleep(5 * time.Millisecond)
			}
			done = calls[i].isDone()
		}
		o.Parked, o.State = !done, st
		o.Arq, o.WaitQ, o.Rqs = stableProbe(rqB)
		if !done && concernsOther(*o) {
			// other queries are blocked: the scenario ends here (later calls would only pile up)
			ops = ops[:i+1]
			calls = calls[:i+1]
			res.Spec.Ops = ops
			break
		}
	}
	// ---- verdict: a call that concerns only queries whose channel is not full must have returned ----
	for i, c := range calls {
		if c == nil {
			continue
		}
		ops[i].Parked = !c.isDone()
		if ops[i].Parked && ops[i].State == "" {
			ops[i].State = gStateIn(allStacks(), c.gid)
		}
		if ops[i].Parked && concernsOther(ops[i]) {
			res.Blocked = append(res.Blocked, i)
		}
		if ops[i].Parked && ops[i].isSender() && isFull[ops[i].Q] {
			res.Senders = append(res.Senders, i)
		}
	}
	byWatcher := len(ops) > 0 && (ops[0].Op == "timeoutcancel" || ops[0].Op == "timeoutsend")
	if byWatcher && ops[0].Parked {
		res.Senders = append([]int{0}, res.Senders...)
	}
	// ---- the receiver comes back: everything must return ----
	stop := make(chan struct{})
	for q := range isFull {
		rq := rqs[q]
		go func() {
			for {
				select {
				case <-rq.StateChan:
				case <-stop:
					return
				}
			}
		}()
	}
	res.Released = true
	dl := time.Now().Add(10 * time.Second)
	for i, c := range calls {
		if c == nil {
			continue
		}
		for !c.isDone() && time.Now().Before(dl) {
			time.Sleep(2 * time.Millisecond)
		}
		if !c.isDone() {
			res.Released = false
		} else if ops[i].Parked {
			ops[i].Released = true
		}
	}
	for n, _ := parkedWatchers(); n > 0 && time.Now().Before(dl); n, _ = parkedWatchers() {
		time.Sleep(5 * time.Millisecond)
	}
	if n, _ := parkedWatchers(); n > 0 {
		res.Released = false
	} else if byWatcher && ops[0].Parked {
		ops[0].Released = true
	}
	if !res.Released {
		return // the process is not usable any more; the parent sees released=false
	}
	// clean up: every qid leaves the tables
	for q := range used {
		query.DeleteQuery(q)
	}
	close(stop)
	waitWatchersGone(0)
	if n, w := query.GetActiveQueryCount(), len(query.GetWaitingQueries()); n != 0 || w != 0 {
		res.Err = fmt.Sprintf("lock scenario: %d running, %d waiting entries after deleting every qid", n, w)
	}
	return
}

func workerLocks(in, outp string) {
	var specs []LockSpec
	b, _ := os.ReadFile(in)
	if err := json.Unmarshal(b, &specs); err != nil {
		fmt.Fprintln(os.Stderr, err)
		os.Exit(3)
	}
	dir := filepath.Dir(outp) + "/data_" + strings.TrimSuffix(filepath.Base(outp), ".json")
	_ = os.MkdirAll(dir, 0o755)
	config.InitializeTestingConfig(dir + "/")
	var out []*LockResult
	for _, sp := range specs {
		r := runLockScenario(sp)
		out = append(out, r)
		if !r.Released && r.Err == "" && r.Skip == "" || r.Err != "" {
			break // parked goroutines remain: the rest of the batch is run by the parent in a new process
		}
	}
	ob, _ := json.Marshal(out)
	_ = os.WriteFile(outp, ob, 0o644)
	os.Exit(0)
}

// ---------------------------------------------------------------------------
// parent: Coq rendering and the verdict
// ---------------------------------------------------------------------------

func coqPlace(w int) string { return []string{"InRun", "InWait", "Absent"}[w] }

func coqLop(o LockOp) string {
	q := fmt.Sprintf("%d%%N", o.Q)
	switch o.Op {
	case "start":
		return fmt.Sprintf("LStart %s %s %s", q, vhlib.CoqBool(o.Forced), vhlib.CoqBool(o.Coord))
	case "pull":
		if o.Head < 0 {
			return "LPull None"
		}
		return fmt.Sprintf("LPull (Some %d%%N)", o.Head)
	case "cancel":
		return fmt.Sprintf("LCancel %s %s", q, coqPlace(o.W))
	case "timeoutcancel":
		return "LTimeoutCancel " + q
	case "timeoutsend":
		return "LTimeoutSend " + q
	case "delete":
		return fmt.Sprintf("LDelete %s %s", q, coqPlace(o.W))
	case "execsend":
		return "LExecSend " + q
	case "finishsend":
		return "LFinishSend " + q
	case "progresssend":
		return "LProgressSend " + q
	case "accessor":
		return "LAccessor " + q
	case "nested":
		return "LNestedAccessor " + q
	}
	return "LCount"
}

func coqLockCase(res *LockResult) string {
	fl := make([]string, 0, 2)
	for _, q := range res.Spec.Fulls {
		fl = append(fl, fmt.Sprintf("%d%%N", q))
	}
	items := make([]string, 0, len(res.Spec.Ops))
	for _, o := range res.Spec.Ops {
		items = append(items, fmt.Sprintf("(%s, mkLO %s %d%%N %d%%N %d%%N)", coqLop(o), vhlib.CoqBool(o.Parked), o.Arq, o.WaitQ, o.Rqs))
	}
	return "(" + vhlib.CoqList(fl) + ", " + vhlib.CoqList(items) + ")"
}

func lockOpsStrings(res *LockResult) []string {
	v := make([]string, 0, len(res.Spec.Ops))
	for _, o := range res.Spec.Ops {
		s := o.String()
		if o.Parked {
			s += fmt.Sprintf("  -> PARKED [%s] (returned after the drain: %v)", o.State, o.Released)
		} else {
			s += "  -> returned"
		}
		s += fmt.Sprintf("  locks arq/waitq/rqs(%d)=%d/%d/%d", res.Spec.Fulls[0], o.Arq, o.WaitQ, o.Rqs)
		v = append(v, s)
	}
	return v
}

// class of an "other query blocked" failure: named after what is waiting for the receiver
func lockFailClass(res *LockResult) string {
	if res.Spec.Kind == "known_progress" {
		return "progress_update_waiting_for_receiver_blocks_other_queries"
	}
	cls := "executor_send_waiting_for_receiver_blocks_other_queries"
	for _, i := range res.Senders {
		switch res.Spec.Ops[i].Op {
		case "timeoutcancel", "timeoutsend":
			return "timeout_waiting_for_receiver_blocks_other_queries"
		case "cancel":
			cls = "cancel_waiting_for_receiver_blocks_other_queries"
		}
	}
	return cls
}

func lockFailDetail(res *LockResult) string {
	ops := res.Spec.Ops
	var snd, blk []string
	for _, i := range res.Senders {
		snd = append(snd, fmt.Sprintf("#%d %s", i, ops[i].String()))
	}
	for _, i := range res.Blocked {
		blk = append(blk, fmt.Sprintf("#%d %s [%s]", i, ops[i].String(), ops[i].State))
	}
	var all []string
	for i, o := range ops {
		m := "returned"
		if o.Parked {
			m = "PARKED " + o.State
		}
		all = append(all, fmt.Sprintf("#%d %s: %s", i, o.String(), m))
	}
	return fmt.Sprintf("state channel of query %v full (10/10, no receiver); waiting for the receiver: %v; calls that concern only OTHER queries and did not return within %d ms (still parked; all returned once the channel was drained: %v): %v; the whole scenario: %v",
		res.Spec.Fulls, snd, res.Spec.Patience, res.Released, blk, all)
}

type lockStream struct {
	mu      sync.Mutex
	results []*LockResult
	errs    []string
}

// runs a batch in worker processes; a worker stops at the first scenario that leaves parked
// goroutines behind, the rest of the batch goes to a new process
func runLockBatch(wdir, tag string, specs []LockSpec) ([]*LockResult, string) {
	var all []*LockResult
	for round := 0; len(specs) > 0 && round < 12; round++ {
		in := filepath.Join(wdir, fmt.Sprintf("locks_%s_%d_in.json", tag, round))
		op := filepath.Join(wdir, fmt.Sprintf("locks_%s_%d.json", tag, round))
		b, _ := json.Marshal(specs)
		_ = os.WriteFile(in, b, 0o644)
		tail, err := runWorker(time.Duration(30+25*len(specs))*time.Second, "locks", in, op)
		var out []*LockResult
		ob, rerr := os.ReadFile(op)
		if rerr != nil || json.Unmarshal(ob, &out) != nil || len(out) == 0 {
			return all, fmt.Sprintf("locks worker %s: %v %s", tag, err, tail)
		}
		all = append(all, out...)
		specs = specs[len(out):]
	}
	return all, ""
}

func runLockStream(r *vhlib.Rng, wdir string, nMain, nTimeout, nKnown int, spawn func(func())) *lockStream {
	ls := &lockStream{}
	var batches [][]LockSpec
	var cur []LockSpec
	for i := 0; i < nMain; i++ {
		cur = append(cur, genLockSpec(r, "main"))
		if len(cur) == 10 {
			batches = append(batches, cur)
			cur = nil
		}
	}
	if len(cur) > 0 {
		batches = append(batches, cur)
	}
	cur = nil
	for i := 0; i < nTimeout; i++ {
		sp := genLockSpec(r, "timeout")
		// both sends of the watcher in every run: TIMEOUT on a full channel for every third scenario
		if i%3 == 1 {
			sp.Ops[0].Op = "timeoutsend"
		} else {
			sp.Ops[0].Op = "timeoutcancel"
		}
		cur = append(cur, sp)
		if len(cur) == 3 {
			batches = append(batches, cur)
			cur = nil
		}
	}
	if len(cur) > 0 {
		batches = append(batches, cur)
	}
	cur = nil
	for i := 0; i < nKnown; i++ {
		cur = append(cur, genLockSpec(r, "known_progress"))
		if len(cur) == 6 {
			batches = append(batches, cur)
			cur = nil
		}
	}
	if len(cur) > 0 {
		batches = append(batches, cur)
	}
	for bi := range batches {
		bi := bi
		spawn(func() {
			out, e := runLockBatch(wdir, fmt.Sprint(bi), batches[bi])
			// retry before a verdict: a scenario in which other queries were blocked is run again,
			// alone in a new process, with three times the patience; it counts only if it repeats
			for i, res := range out {
				if len(res.Blocked) == 0 || res.Err != "" {
					continue
				}
				sp := batches[bi][i]
				sp.Patience *= 3
				again, e2 := runLockBatch(wdir, fmt.Sprintf("%d_retry%d", bi, i), []LockSpec{sp})
				if e2 != "" || len(again) != 1 || again[0].Err != "" {
					res.Err = "retry of a blocking scenario failed: " + e2
					continue
				}
				if len(again[0].Blocked) == 0 {
					res.Skip = fmt.Sprintf("calls %v did not return within %d ms in the first run, but all returned in the retry (loaded machine)", res.Blocked, res.Spec.Patience)
					continue
				}
				out[i] = again[0]
			}
			ls.mu.Lock()
			ls.results = append(ls.results, out...)
			if e != "" {
				ls.errs = append(ls.errs, e)
			}
			ls.mu.Unlock()
		})
	}
	return ls
}

func evalLockStream(sum *vhlib.Summary, outDir, wdir string, ls *lockStream) {
	for _, e := range ls.errs {
		sum.HarnessError(e)
	}
	// deterministic order: by kind and rendered trace
	sort.SliceStable(ls.results, func(i, j int) bool {
		a, b := ls.results[i], ls.results[j]
		if a.Spec.Kind != b.Spec.Kind {
			return a.Spec.Kind < b.Spec.Kind
		}
		return coqLockCase(a) < coqLockCase(b)
	})
	var cases []string
	nfile := 0
	flush := func() {
		if len(cases) == 0 {
			return
		}
		sum.WriteCaseFile(outDir, fmt.Sprintf("cases_locks_%02d", nfile), "From SigM Require Import Base QueryLife QueryLifeCheck.",
			"Definition cases : list (list N * list (lop * lobs)) := "+vhlib.CoqListNL(cases)+".\n", "lcheck_cases cases O", len(cases))
		nfile++
		cases = nil
	}
	for _, res := range ls.results {
		if res.Err != "" {
			sum.HarnessError("lock scenario (" + res.Spec.Kind + "): " + res.Err)
			continue
		}
		if res.Skip != "" {
			sum.Count("skipped/locks: " + res.Skip)
			continue
		}
		var key strings.Builder
		key.WriteString("locks/" + res.Spec.Kind + fmt.Sprint(res.Spec.Fulls))
		nestedOnFull, writerAfter := false, false
		for _, o := range res.Spec.Ops {
			fmt.Fprintf(&key, "/%s", o.Op[:2])
			if o.Parked {
				key.WriteByte('!')
			}
			sum.Count("lockop/" + o.Op)
			if o.Op == "nested" && o.Q <= 2 {
				nestedOnFull = true
			}
			if nestedOnFull && (o.Op == "start" || o.Op == "delete" || o.Op == "pull" && o.Head >= 0) {
				writerAfter = true
			}
		}
		sum.Count("seq/locks_" + res.Spec.Kind)
		sum.Eval(key.String(), len(res.Senders) > 0 && writerAfter)
		c := map[string]interface{}{"kind": res.Spec.Kind, "full_channels_of": res.Spec.Fulls, "calls": lockOpsStrings(res)}
		if len(res.Blocked) > 0 {
			sum.Fail(lockFailClass(res), lockFailDetail(res), c)
		}
		if !res.Released {
			sum.Fail("call_not_released_by_receiver", "lock scenario: after the state channel was drained by a receiver some calls still had not returned within 10 s: "+strings.Join(lockOpsStrings(res), "; "), c)
		}
		cases = append(cases, coqLockCase(res))
		if len(cases) == 60 {
			flush()
		}
	}
	flush()
}

// c17: every query is answered or rejected, terminates, frees resources (PARTIAL claim).
//
// Four parts, all running the real siglens code in worker processes:
//
//	(1) step streams: generated op sequences drive the real StartQuery /
//	    StartQueryAsCoordinator / CancelQuery / DeleteQuery / SendQueryStateComplete and one
//	    iteration of the puller loop (hook VerifPullOnce = canRunQuery + getNextWaitStateData
//	    + initiateRunQuery) or the real PullQueriesToRun goroutine ("bgpull"), or the real
//	    timeout watchers with a 1 s deadline ("timeout").  After every step the two tables
//	    are read (qid, isCancelled, len(StateChan)), the number of live timeout-watcher
//	    goroutines is counted from the goroutine dump, and
//	      (a) the property oracle is evaluated on these observables (admission bound, waiting
//	          bound, no entry after a terminal state + Delete, terminal messages, tables empty
//	          at the end),
//	      (b) the trace is written to a Coq case file: the model QueryLife.step must predict
//	          every observed table / result code / watcher count.
//	(2) regression streams of the repaired defects (separate): cancel / delete of a waiting
//	    query, the watcher of a cancelled query, a cancel on a full state channel (own
//	    process, with timeout); the classes are listed as fixed, a recurrence is a VIOLATION.
//	(2b) lock scenarios (locks.go): real calls against a query whose state channel is full;
//	    returned/parked from goroutine states + TryLock probes of arqMapLock, waitingQueriesLock,
//	    rqsLock after every call, compared with the lock-level model (QueryLife.exec) in Coq;
//	    oracle: calls that concern only other queries return while the receiver is absent.
//	(2c) metrics life cycle (metrics.go): real PromQL requests through ExecuteMultipleMetricsQuery /
//	    ExecuteMetricsQuery with a cancel or the real 1 s timeout at imposed moments (waiting, gate k of
//	    the search of selector i, after the answer) or raced; oracle: answered, no table entry, no state
//	    manager goroutine, no watcher, the slot is free again; imposed schedules compared with the model
//	    MetricsLife in Coq at every checkpoint.
//	(3) end-to-end: hundreds of short real queries over a small ingested data set with
//	    cancels at random points and MAX_RUNNING_QUERIES = 2; afterwards both tables must be
//	    empty and the goroutine population is compared with the baseline (observed only).
//	(3b) evaluator streams (child processes): pipelines naming absent fields; ~170 eval
//	    expressions whose index/length/count arguments are computed from stored values of
//	    boundary lengths (the process must keep running, the query must end in a result or
//	    an error; class per function); the real substr on an exhaustive small grid, compared
//	    with the model EvalIdx in Coq.
//	(4) robustness stream (NOT proof): grammar-derived and mutated query texts per language
//	    through the real parse entry points, twice each, in a child process with a timeout
//	    (parser_panic, parser_hang, plan_nondeterministic).
package main

import (
	"context"
	"encoding/json"
	"fmt"
	"io"
	"os"
	"os/exec"
	"path/filepath"
	"regexp"
	"runtime"
	"sort"
	"strconv"
	"strings"
	"sync"
	"sync/atomic"
	"time"

	"github.com/davecgh/go-spew/spew"
	"github.com/siglens/siglens/pkg/ast/pipesearch"
	"github.com/siglens/siglens/pkg/config"
	esquery "github.com/siglens/siglens/pkg/es/query"
	eswriter "github.com/siglens/siglens/pkg/es/writer"
	"github.com/siglens/siglens/pkg/integrations/prometheus/promql"
	"github.com/siglens/siglens/pkg/segment/memory/limit"
	"github.com/siglens/siglens/pkg/segment/query"
	"github.com/siglens/siglens/pkg/segment/structs"
	sutils "github.com/siglens/siglens/pkg/segment/utils"
	"github.com/siglens/siglens/pkg/segment/writer"
	serverutils "github.com/siglens/siglens/pkg/server/utils"
	vtable "github.com/siglens/siglens/pkg/virtualtable"
	log "github.com/sirupsen/logrus"

	"verifharness/vhlib"
)

// ---------------------------------------------------------------------------
// shared types (parent <-> worker, JSON)
// ---------------------------------------------------------------------------

type SeqSpec struct {
	Kind  string `json:"kind"` // main | waitfull | timeout | bgpull | saturate | saturate_bg | saturate_timeout | known_cancel | known_delete | known_watcher
	Mx    int    `json:"mx"`
	Seed  uint64 `json:"seed"`
	Steps int    `json:"steps"`
	Base  uint64 `json:"base"`
	Pool  int    `json:"pool"`
}

type Ent struct {
	Q uint64 `json:"q"`
	C bool   `json:"c,omitempty"`
	L int    `json:"l,omitempty"`
}

type StepRec struct {
	Op     string `json:"op"` // start pull cancel complete fail delete recv fireall  (+ "then:" prefix for bgpull)
	Q      uint64 `json:"q,omitempty"`
	Async  bool   `json:"a,omitempty"`
	Forced bool   `json:"f,omitempty"`
	Out    int    `json:"out"`
	NRun   int    `json:"nr"`
	NWait  int    `json:"nw"`
	Full   bool   `json:"full,omitempty"`
	Run    []Ent  `json:"run,omitempty"`
	Wait   []Ent  `json:"wait,omitempty"`
	Watch  int    `json:"watch"` // -1 = not measured
	Active int    `json:"act"`   // what the public getter GetActiveQueryCount returned
}

type Fail struct {
	Class  string      `json:"class"`
	Detail string      `json:"detail"`
	Case   interface{} `json:"case"`
}

type SeqResult struct {
	Spec  SeqSpec   `json:"spec"`
	Steps []StepRec `json:"steps"`
	Fails []Fail    `json:"fails"`
	Err   string    `json:"err,omitempty"`
	Skip  string    `json:"skip,omitempty"`
	Notes []string  `json:"notes,omitempty"`
}

const (
	outOk = 0
	outExists = 1
	outFull = 2
	outNone = 3
	outEmpty = 4
)

// QueryState numbering of querystatus.go -> model msg_code
func msgCode(s query.QueryState) int {
	switch s {
	case query.READY:
		return 1
	case query.RUNNING:
		return 2
	case query.QUERY_UPDATE:
		return 3
	case query.COMPLETE:
		return 4
	case query.CANCELLED:
		return 5
	case query.TIMEOUT:
		return 6
	case query.ERROR:
		return 7
	}
	return 9
}
func isTerminalCode(c int) bool { return c >= 4 && c <= 7 }

// ---------------------------------------------------------------------------
// worker: step sequences against the real query tables
// ---------------------------------------------------------------------------

func watcherCount() int {
	buf := make([]byte, 1<<20)
	for {
		n := runtime.Stack(buf, true)
		if n < len(buf) {
			buf = buf[:n]
			break
		}
		buf = make([]byte, 2*len(buf))
	}
	return strings.Count(string(buf), "query.setupTimeoutCancelFunc.func1(")
}

// settled watcher count: goroutines released by timeoutCancelFunc() exit asynchronously
func watcherCountSettled() int {
	last, same := -1, 0
	for i := 0; i < 200; i++ {
		runtime.Gosched()
		c := watcherCount()
		if c == last {
			same++
			if same >= 2 {
				return c
			}
		} else {
			last, same = c, 0
		}
		time.Sleep(300 * time.Microsecond)
	}
	return last
}

type instInfo struct {
	qid      uint64
	forced   bool
	msgs     []int // every message taken from its channel, in order
	termOps  int   // terminal messages the ops applied to it must have produced
	countOK  bool
	cancelledWaiting bool // CancelQuery reached it while it was still in the waiting queue
}

type seqRunner struct {
	spec     SeqSpec
	r        *vhlib.Rng
	res      *SeqResult
	inst     map[*query.RunningQueryState]*instInfo
	order    []*query.RunningQueryState
	watch0   int
	chanCap  int
	bg       bool
	fireUsed bool
	armedAt  time.Time // timeout kind: when the oldest possibly-armed watcher was created
}

func toEnts(v []query.VerifEntry) []Ent {
	out := make([]Ent, 0, len(v))
	for _, e := range v {
		out = append(out, Ent{Q: e.Qid, C: e.Cancelled, L: e.ChanLen})
	}
	return out
}

func (sr *seqRunner) fail(class, detail string) {
	if len(sr.res.Fails) < 6 {
		// the replay content: the sequence specification and the ops executed so far
		ops := make([]string, 0, len(sr.res.Steps))
		for _, s := range sr.res.Steps {
			ops = append(ops, opString(s))
		}
		sr.res.Fails = append(sr.res.Fails, Fail{class, detail, map[string]interface{}{"spec": sr.spec, "ops": ops}})
	}
}

func opString(s StepRec) string {
	switch strings.TrimPrefix(s.Op, "then:") {
	case "start":
		return fmt.Sprintf("%s(q=%d,async=%v,force=%v)->%d", s.Op, s.Q, s.Async, s.Forced, s.Out)
	case "pull", "fireall":
		return fmt.Sprintf("%s->%d", s.Op, s.Out)
	}
	return fmt.Sprintf("%s(q=%d)->%d", s.Op, s.Q, s.Out)
}

func inEnts(v []query.VerifEntry, q uint64) bool {
	for _, e := range v {
		if e.Qid == q {
			return true
		}
	}
	return false
}

// settle for the background puller: the sizes must be unchanged during 4 polls of 12 ms
// (> 3 puller periods) AND the puller must have nothing left to do by the code's own rule
// (queue empty or table at the limit); under CPU starvation the puller can be late by
// much more than its 10 ms period, so stability alone is not enough.  After 3 s the state
// is recorded as it is (an implementation that admits too little shows up as a mismatch).
func settleBg(mx int) {
	lr, lw, same := -1, -1, 0
	for i := 0; i < 250; i++ {
		r, w := query.GetActiveQueryCount(), len(query.GetWaitingQueries())
		if r == lr && w == lw {
			same++
			if same >= 4 && (w == 0 || r >= mx) {
				return
			}
		} else {
			lr, lw, same = r, w, 0
		}
		time.Sleep(12 * time.Millisecond)
	}
}

// observe + oracle after a step
func (sr *seqRunner) record(rec StepRec, full bool, watch bool) {
	if sr.bg {
		settleBg(sr.spec.Mx)
		rec.Op = "then:" + rec.Op
	}
	run := query.VerifRunning()
	wait := query.VerifWaiting()
	rec.NRun, rec.NWait = len(run), len(wait)
	// the number the admission check canRunQuery compares with the limit: an observable of its own,
	// compared with the model's active_count (= table size) in Coq; a getter that differs from the
	// table does NOT end the sequence (the oracle below must still see what the puller does with it)
	rec.Active = query.GetActiveQueryCount()
	if rec.NWait != len(query.GetWaitingQueries()) {
		sr.res.Err = "hook view of the waiting queue and GetWaitingQueries disagree"
	}
	rec.Full = full
	if full {
		rec.Run, rec.Wait = toEnts(run), toEnts(wait)
	}
	rec.Watch = -1
	if watch {
		rec.Watch = watcherCountSettled() - sr.watch0
	}
	sr.res.Steps = append(sr.res.Steps, rec)
	// ---- property oracle on the observables ----
	nonforced := 0
	for _, e := range run {
		p := query.VerifRunningQuery(e.Qid)
		if ii := sr.inst[p]; ii == nil || !ii.forced {
			nonforced++
		}
	}
	if nonforced > sr.spec.Mx {
		ncanc := 0
		tbl := make([]string, 0, len(run))
		for _, e := range run {
			if e.Cancelled {
				ncanc++
			}
			tbl = append(tbl, fmt.Sprintf("%d:cancelled=%v", e.Qid, e.Cancelled))
		}
		cls := "admission_limit_exceeded"
		if ncanc > 0 && nonforced-ncanc <= sr.spec.Mx {
			// the excess is covered by entries whose query was cancelled / timed out and is not deleted yet
			// (a naming aid for the replay; any excess is a failure)
			cls = "admission_limit_exceeded_with_cancelled_query_in_table"
		}
		sr.fail(cls, fmt.Sprintf("%d queries started without forceRun are in allRunningQueries (%s), MAX_RUNNING_QUERIES=%d, GetActiveQueryCount()=%d, after %s", nonforced, strings.Join(tbl, " "), sr.spec.Mx, rec.Active, opString(rec)))
	}
	if len(wait) > query.MAX_WAITING_QUERIES {
		sr.fail("waiting_limit_exceeded", fmt.Sprintf("%d waiting queries > %d", len(wait), query.MAX_WAITING_QUERIES))
	}
}

func (sr *seqRunner) doStart(q uint64, async, forced bool, full bool) {
	var rq *query.RunningQueryState
	var err error
	if sr.r.Bool() {
		rq, err = query.StartQuery(q, async, nil, forced)
	} else {
		rq, err = query.StartQueryAsCoordinator(q, async, nil, nil, nil, nil, nil, forced)
	}
	out := outOk
	if err != nil {
		switch {
		case strings.Contains(err.Error(), "already exists"):
			out = outExists
		case strings.Contains(err.Error(), "Max number of waiting queries"):
			out = outFull
		default:
			out = 8
		}
	} else {
		sr.inst[rq] = &instInfo{qid: q, forced: forced, countOK: true}
		sr.order = append(sr.order, rq)
	}
	sr.record(StepRec{Op: "start", Q: q, Async: async, Forced: forced, Out: out}, full, forced)
}

func (sr *seqRunner) doPull(full bool) {
	out := outNone
	if sr.bg {
		// the real goroutine pulls; the step is only an observation point
		sr.record(StepRec{Op: "pull", Out: out}, full, false)
		return
	}
	run0, wait0 := query.VerifRunning(), query.VerifWaiting()
	if query.VerifPullOnce() {
		out = outOk
	}
	// oracle on one iteration of the puller: a table at the limit (every entry counts until
	// DeleteQuery removed it) admits nobody; a free slot goes to the oldest waiting query
	desc := func() string {
		tbl := make([]string, 0, len(run0))
		for _, e := range run0 {
			tbl = append(tbl, fmt.Sprintf("%d:cancelled=%v", e.Qid, e.Cancelled))
		}
		return fmt.Sprintf("running table before the iteration [%s] (MAX_RUNNING_QUERIES=%d), %d waiting", strings.Join(tbl, " "), sr.spec.Mx, len(wait0))
	}
	switch {
	case out == outOk && len(run0) >= sr.spec.Mx:
		sr.fail("query_admitted_while_running_table_full", "one puller iteration admitted a waiting query: "+desc())
	case out == outOk && len(wait0) > 0:
		if w1 := query.VerifWaiting(); len(w1) != len(wait0)-1 || query.VerifRunningQuery(wait0[0].Qid) == nil {
			sr.fail("queue_not_served_in_arrival_order", fmt.Sprintf("one puller iteration admitted a query but the head of the queue (qid %d) is not in the running table afterwards / the queue did not shrink by one (%d -> %d): %s", wait0[0].Qid, len(wait0), len(w1), desc()))
		}
	case out != outOk && len(run0) < sr.spec.Mx && len(wait0) > 0:
		sr.fail("waiting_query_not_admitted_with_free_slot", "one puller iteration admitted nobody: "+desc())
	}
	sr.record(StepRec{Op: "pull", Out: out}, full, out == outOk)
}

// saturate: the table is filled to the limit through the queue, more queries wait, then running
// queries reach a terminal event (cancel / executor done / real timeout) WITHOUT their handler
// having called DeleteQuery yet, and the puller runs: nobody may be admitted until a DeleteQuery
// frees a slot, then the oldest waiting query gets it.  Every step goes through record() (model
// comparison + oracle).
func (sr *seqRunner) saturate() {
	r, spec := sr.r, sr.spec
	mx := spec.Mx
	k := 1 + r.Intn(3)
	next := uint64(0)
	newQ := func() uint64 { next++; return spec.Base + next }
	nforced := 0
	if spec.Kind == "saturate" && r.Chance(25) {
		sr.doStart(newQ(), false, true, true) // a forced start takes a slot as well
		nforced = 1
	}
	var qs []uint64
	for i := 0; i < mx-nforced+k; i++ {
		q := newQ()
		qs = append(qs, q)
		sr.doStart(q, r.Chance(30), false, true)
		if r.Chance(40) {
			sr.doPull(true)
		}
	}
	for i := 0; i < mx+1; i++ {
		sr.doPull(true)
	}
	pullN := func(n int) {
		for i := 0; i < n; i++ {
			sr.doPull(true)
		}
	}
	if spec.Kind == "saturate_timeout" {
		sr.doFireAll() // every running query times out; nobody deletes it yet
		pullN(k + 1)
	} else {
		run := query.VerifRunning()
		j := 0
		if len(run) > 0 {
			j = 1 + r.Intn(len(run))
		}
		for i := 0; i < j && len(run) > 0; i++ {
			q := run[r.Intn(len(run))].Qid
			switch x := r.Intn(10); {
			case x < 6:
				sr.doCancel(q, true)
			case x < 8:
				sr.doExec(q, true, true)
			default:
				sr.doExec(q, false, true)
			}
			if r.Chance(50) {
				pullN(1)
			}
		}
		pullN(k + 1)
	}
	// the handlers get there one after the other: each DeleteQuery frees one slot
	for round := 0; round < mx+k+1; round++ {
		run := query.VerifRunning()
		if len(run) == 0 {
			break
		}
		e := run[r.Intn(len(run))]
		if r.Chance(50) {
			sr.doRecv(e.Qid, true)
		}
		if r.Chance(25) && !e.Cancelled {
			if p := query.VerifRunningQuery(e.Qid); p != nil && len(p.StateChan) < sr.chanCap-1 {
				sr.doCancel(e.Qid, true)
				pullN(1)
			}
		}
		sr.doDelete(e.Qid, true)
		pullN(2)
		if r.Chance(30) && len(qs) > 0 {
			sr.doStart(newQ(), false, false, true)
		}
	}
	sr.cleanup(true)
}

func countEnts(v []query.VerifEntry, q uint64) int {
	n := 0
	for _, e := range v {
		if e.Qid == q {
			n++
		}
	}
	return n
}

func (sr *seqRunner) doCancel(q uint64, full bool) {
	p := query.VerifRunningQuery(q)
	pre := -1
	var pw *query.RunningQueryState
	nw := 0
	if p != nil {
		pre = len(p.StateChan)
	} else {
		pw = query.VerifWaitingQuery(q)
		nw = countEnts(query.VerifWaiting(), q)
	}
	query.CancelQuery(q)
	if p != nil {
		if ii := sr.inst[p]; ii != nil {
			ii.termOps++
		}
		ok := false
		for _, e := range query.VerifRunning() {
			if e.Qid == q && e.Cancelled && e.ChanLen == pre+1 {
				ok = true
			}
		}
		if !ok {
			sr.fail("terminal_transition_missing", fmt.Sprintf("CancelQuery(%d) on a running query (channel %d/%d) did not set isCancelled and enqueue CANCELLED", q, pre, sr.chanCap))
		}
	} else if pw != nil {
		// a query that has not started yet: it must leave the queue and be told CANCELLED
		if ii := sr.inst[pw]; ii != nil {
			ii.termOps++
			ii.cancelledWaiting = true
		}
		if countEnts(query.VerifWaiting(), q) != nw-1 || query.VerifWaitingQuery(q) == pw {
			sr.fail("cancel_waiting_query_noop", fmt.Sprintf("CancelQuery(%d) while the query is in the waiting queue: it is still there (%d entries of that qid before, %d after)", q, nw, countEnts(query.VerifWaiting(), q)))
		} else if len(pw.StateChan) != 1 {
			sr.fail("terminal_transition_missing", fmt.Sprintf("CancelQuery(%d) of a waiting query took it out of the queue but its channel holds %d messages instead of CANCELLED", q, len(pw.StateChan)))
		}
	}
	sr.record(StepRec{Op: "cancel", Q: q, Out: outNone}, full, false)
}

func (sr *seqRunner) doExec(q uint64, complete bool, full bool) {
	p := query.VerifRunningQuery(q)
	if p != nil && len(p.StateChan) < sr.chanCap {
		if complete {
			p.SendQueryStateComplete()
		} else {
			select {
			case p.StateChan <- &query.QueryStateChanData{StateName: query.ERROR, Qid: q, Error: fmt.Errorf("harness")}:
			default:
			}
		}
		if ii := sr.inst[p]; ii != nil {
			ii.termOps++
		}
	}
	name := "fail"
	if complete {
		name = "complete"
	}
	sr.record(StepRec{Op: name, Q: q, Out: outNone}, full, false)
}

func (sr *seqRunner) doDelete(q uint64, full bool) {
	wasRunning := query.VerifRunningQuery(q) != nil
	nw := countEnts(query.VerifWaiting(), q)
	pw := query.VerifWaitingQuery(q)
	query.DeleteQuery(q)
	if wasRunning && nw == 0 {
		if query.VerifRunningQuery(q) != nil || inEnts(query.VerifWaiting(), q) {
			sr.fail("entry_leaked_after_terminal", fmt.Sprintf("DeleteQuery(%d) of a query in allRunningQueries left an entry in the tables", q))
		}
	}
	if !wasRunning && nw > 0 {
		// a query that has not started yet must leave the queue (and never be started)
		if countEnts(query.VerifWaiting(), q) != nw-1 || query.VerifWaitingQuery(q) == pw {
			sr.fail("cancel_waiting_query_noop", fmt.Sprintf("DeleteQuery(%d) while the query is in the waiting queue: it is still there (%d entries of that qid before, %d after)", q, nw, countEnts(query.VerifWaiting(), q)))
		}
	}
	sr.record(StepRec{Op: "delete", Q: q, Out: outNone}, full, true)
}

func (sr *seqRunner) doRecv(q uint64, full bool) {
	p := query.VerifRunningQuery(q)
	out := outEmpty
	if p != nil {
		select {
		case m := <-p.StateChan:
			c := msgCode(m.StateName)
			out = 10 + c
			if ii := sr.inst[p]; ii != nil {
				ii.msgs = append(ii.msgs, c)
			}
		default:
		}
	}
	sr.record(StepRec{Op: "recv", Q: q, Out: out}, full, false)
}

// all armed watchers fire: the deadline is 1 s after admission
func (sr *seqRunner) doFireAll() {
	sr.fireUsed = true
	if time.Since(sr.armedAt) > 800*time.Millisecond {
		// a watcher may already have fired on its own: the trace would not be the one recorded
		sr.res.Skip = "timeout sequence ran too slowly for the 1 s deadline"
	}
	// make room first (recorded as ordinary recv steps)
	for _, e := range query.VerifRunning() {
		for len(query.VerifRunningQuery(e.Qid).StateChan) > sr.chanCap-3 {
			sr.doRecv(e.Qid, true)
		}
	}
	time.Sleep(1150 * time.Millisecond)
	// wait until the fired goroutines are gone
	for i := 0; i < 100 && watcherCount() > 0; i++ {
		time.Sleep(10 * time.Millisecond)
	}
	// oracle: every query that is still in the running table was admitted more than 1 s (the
	// configured query timeout) ago, so it must have been timed out: flag set, TIMEOUT delivered
	if sr.res.Skip == "" {
		for _, e := range query.VerifRunning() {
			if !e.Cancelled {
				sr.fail("timeout_not_enforced", fmt.Sprintf("query %d is in allRunningQueries %.2f s after its admission with queryTimeoutSecs=1 and is not cancelled", e.Qid, time.Since(sr.armedAt).Seconds()))
			}
		}
	}
	sr.record(StepRec{Op: "fireall", Out: outNone}, true, true)
	sr.armedAt = time.Now()
}

// removes everything from both tables with recorded steps
func (sr *seqRunner) cleanup(full bool) {
	for _, e := range query.VerifRunning() {
		sr.doDelete(e.Qid, full)
	}
	guard := 0
	for len(query.GetWaitingQueries()) > 0 && guard < 3*query.MAX_WAITING_QUERIES {
		guard++
		sr.doPull(full)
		for _, e := range query.VerifRunning() {
			sr.doDelete(e.Qid, full)
		}
	}
	if sr.bg {
		settleBg(sr.spec.Mx)
		for _, e := range query.VerifRunning() {
			sr.doDelete(e.Qid, full)
		}
	}
	if n, w := query.GetActiveQueryCount(), len(query.GetWaitingQueries()); n != 0 || w != 0 {
		sr.fail("entry_leaked_after_terminal", fmt.Sprintf("after deleting every query: %d running, %d waiting entries remain", n, w))
	}
}

// drains every channel ever created and checks the message protocol per query instance
func (sr *seqRunner) checkMessages() {
	for _, p := range sr.order {
		ii := sr.inst[p]
	drain:
		for {
			select {
			case m := <-p.StateChan:
				ii.msgs = append(ii.msgs, msgCode(m.StateName))
			default:
				break drain
			}
		}
		if len(ii.msgs) == 0 {
			continue
		}
		if ii.cancelledWaiting {
			// never started: exactly one CANCELLED
			if len(ii.msgs) != 1 || ii.msgs[0] != 5 {
				sr.fail("two_terminal_states", fmt.Sprintf("qid %d was cancelled while waiting but its message log is %v (expected just CANCELLED)", ii.qid, ii.msgs))
			}
			continue
		}
		if len(ii.msgs) < 2 || ii.msgs[0] != 1 || ii.msgs[1] != 2 {
			sr.fail("two_terminal_states", fmt.Sprintf("qid %d: message log %v does not begin with READY, RUNNING", ii.qid, ii.msgs))
			continue
		}
		seenTerm, terms := false, 0
		for _, c := range ii.msgs[2:] {
			if c == 1 || c == 2 {
				what := "started twice"
				if seenTerm {
					what = "started again after a terminal state"
				}
				sr.fail("two_terminal_states", fmt.Sprintf("qid %d: %s, message log %v", ii.qid, what, ii.msgs))
			}
			if isTerminalCode(c) {
				seenTerm = true
				terms++
			}
		}
		if !sr.fireUsed {
			if terms > ii.termOps {
				sr.fail("two_terminal_states", fmt.Sprintf("qid %d: %d terminal messages for %d terminal events, log %v", ii.qid, terms, ii.termOps, ii.msgs))
			}
			if terms < ii.termOps {
				sr.fail("terminal_transition_missing", fmt.Sprintf("qid %d: %d terminal messages for %d terminal events, log %v", ii.qid, terms, ii.termOps, ii.msgs))
			}
		}
	}
}

func runSeq(spec SeqSpec) *SeqResult {
	res := &SeqResult{Spec: spec}
	sr := &seqRunner{spec: spec, r: vhlib.NewRng(spec.Seed), res: res, inst: map[*query.RunningQueryState]*instInfo{}, chanCap: query.VerifStateChanCap()}
	if n, w := query.GetActiveQueryCount(), len(query.GetWaitingQueries()); n != 0 || w != 0 {
		res.Err = fmt.Sprintf("tables not empty at the start of a sequence (%d, %d)", n, w)
		return res
	}
	query.MAX_RUNNING_QUERIES = uint64(spec.Mx)
	config.SetQueryTimeoutSecs(300)
	var cancelBg context.CancelFunc
	switch spec.Kind {
	case "timeout", "saturate_timeout":
		config.SetQueryTimeoutSecs(1)
		for i := 0; i < 300 && watcherCount() > 0; i++ { // watchers of the previous sequence
			time.Sleep(10 * time.Millisecond)
		}
	case "bgpull", "saturate_bg":
		var ctx context.Context
		ctx, cancelBg = context.WithCancel(context.Background())
		go query.PullQueriesToRun(ctx)
		sr.bg = true
	}
	sr.watch0 = watcherCountSettled()
	sr.armedAt = time.Now()
	r := sr.r
	pick := func() uint64 { return spec.Base + uint64(1+r.Intn(spec.Pool)) }
	switch spec.Kind {
	case "main", "timeout", "bgpull":
		for i := 0; i < spec.Steps; i++ {
			x := r.Intn(100)
			q := pick()
			switch {
			case x < 30:
				sr.doStart(q, r.Chance(30), r.Chance(18), true)
			case x < 48:
				sr.doPull(true)
			case x < 60, x < 72:
				// Cancel / Delete also hit queries that are still in the waiting queue (class
				// cancel_waiting_query_noop, repaired: a regression is reported from here as well)
				if x < 60 {
					if p := query.VerifRunningQuery(q); p != nil && len(p.StateChan) >= sr.chanCap-1 {
						sr.doRecv(q, true) // a cancel on a full channel makes the caller (the harness) wait: own process only
						continue
					}
					sr.doCancel(q, true)
				} else {
					sr.doDelete(q, true)
				}
			case x < 79:
				sr.doExec(q, true, true)
			case x < 83:
				sr.doExec(q, false, true)
			case x < 97 || spec.Kind != "timeout":
				sr.doRecv(q, true)
			default:
				sr.doFireAll()
			}
		}
		if spec.Kind == "timeout" {
			sr.doFireAll()
		}
		sr.cleanup(true)
	case "saturate", "saturate_bg", "saturate_timeout":
		sr.saturate()
	case "waitfull":
		// MAX_WAITING_QUERIES + 3 queued starts: the last 3 must be rejected
		n := query.MAX_WAITING_QUERIES + 3
		for i := 0; i < n; i++ {
			sr.doStart(spec.Base+uint64(i+1), false, false, i >= n-4)
		}
		for i := 0; i < 6; i++ {
			sr.doPull(true)
		}
		sr.cleanup(false)
	case "known_cancel", "known_delete":
		// some context, then the defect: cancel/delete a query that is still waiting
		for i := 0; i < spec.Steps; i++ {
			if r.Chance(70) {
				sr.doStart(pick(), false, r.Chance(20), true)
			} else {
				sr.doPull(true)
			}
		}
		target := spec.Base + 90
		sr.doStart(target, false, false, true)
		if spec.Kind == "known_cancel" {
			sr.doCancel(target, true)
		} else {
			sr.doDelete(target, true)
		}
		still := inEnts(query.VerifWaiting(), target)
		// make room and pull until the target is admitted or the queue is empty
		admitted := false
		for i := 0; i < 40 && !admitted && len(query.GetWaitingQueries()) > 0; i++ {
			for _, e := range query.VerifRunning() {
				if e.Qid != target {
					sr.doDelete(e.Qid, true)
				}
			}
			sr.doPull(true)
			admitted = query.VerifRunningQuery(target) != nil
		}
		if still || admitted {
			canc, first := false, -1
			if admitted {
				for _, e := range query.VerifRunning() {
					if e.Qid == target {
						canc = e.Cancelled
					}
				}
				sr.doRecv(target, true)
				first = res.Steps[len(res.Steps)-1].Out - 10
			}
			what := "CancelQuery"
			if spec.Kind == "known_delete" {
				what = "DeleteQuery"
			}
			sr.fail("cancel_waiting_query_noop", fmt.Sprintf("StartQuery(%d, forceRun=false); %s(%d) while it is in the waiting queue: still waiting afterwards=%v, later admitted by the puller=%v (isCancelled=%v, first message code %d, 1 = READY)", target, what, target, still, admitted, canc, first))
		}
		sr.cleanup(true)
	case "known_watcher":
		q := spec.Base + 1
		sr.doStart(q, false, true, true)
		sr.doCancel(q, true)
		sr.doDelete(q, true)
		if w := res.Steps[len(res.Steps)-1].Watch; w > 0 {
			sr.fail("cancelled_query_watcher_lingers", fmt.Sprintf("StartQuery(%d, forceRun=true); CancelQuery; DeleteQuery: both tables empty but %d goroutine(s) of setupTimeoutCancelFunc (and the context timer) stay until the query timeout (%d s) expires", q, w, config.GetQueryTimeoutSecs()))
		}
		// contrast: without the cancel the watcher is released
		sr.doStart(q+1, false, true, true)
		sr.doDelete(q+1, true)
		sr.cleanup(true)
	}
	if cancelBg != nil {
		cancelBg()
		time.Sleep(25 * time.Millisecond)
	}
	sr.checkMessages()
	return res
}

func initQueryNode(dir string) error {
	config.InitializeTestingConfig(dir + "/")
	config.SetNewQueryPipelineEnabled(true)
	limit.InitMemoryLimiter()
	writer.InitWriterNode()
	if err := vtable.InitVTable(serverutils.GetMyIds); err != nil {
		return err
	}
	if err := query.InitQueryNode(serverutils.GetMyIds, serverutils.ExtractKibanaRequests); err != nil {
		return err
	}
	query.InitMaxRunningQueries()
	return nil
}

func workerSteps(in, outp string) {
	var specs []SeqSpec
	b, _ := os.ReadFile(in)
	if err := json.Unmarshal(b, &specs); err != nil {
		fmt.Fprintln(os.Stderr, err)
		os.Exit(3)
	}
	dir := filepath.Dir(outp) + "/data_" + strings.TrimSuffix(filepath.Base(outp), ".json")
	_ = os.MkdirAll(dir, 0o755)
	config.InitializeTestingConfig(dir + "/")
	gomax := uint64(runtime.GOMAXPROCS(0))
	query.InitMaxRunningQueries()
	initMax := query.MAX_RUNNING_QUERIES
	var out struct {
		Results []*SeqResult `json:"results"`
		InitMax uint64       `json:"init_max"`
		GoMax   uint64       `json:"gomax"`
	}
	out.InitMax, out.GoMax = initMax, gomax
	for _, sp := range specs {
		out.Results = append(out.Results, runSeq(sp))
	}
	ob, _ := json.Marshal(out)
	_ = os.WriteFile(outp, ob, 0o644)
}

// ---------------------------------------------------------------------------
// worker: cancel on a full state channel (blocks while holding waitingQueriesLock)
// ---------------------------------------------------------------------------

type WedgeResult struct {
	CancelsReturned int  `json:"cancels_returned"`
	CancelBlocked   bool `json:"cancel_blocked"`
	OtherStartBlocked bool `json:"other_start_blocked"`
	CountBlocked    bool `json:"count_blocked"`
	ReleasedByRecv  bool `json:"released_by_recv"`
}

func workerWedge(outp string) {
	config.InitializeTestingConfig(filepath.Dir(outp) + "/data_wedge/")
	query.MAX_RUNNING_QUERIES = 2
	var wr WedgeResult
	rq, err := query.StartQuery(1, false, nil, true) // READY, RUNNING in the channel (2/10)
	if err != nil {
		os.Exit(5)
	}
	var returned int32
	done := make(chan struct{})
	go func() {
		for i := 0; i < 9; i++ { // 8 fill the channel, the 9th blocks
			query.CancelQuery(1)
			atomic.AddInt32(&returned, 1)
		}
		close(done)
	}()
	select {
	case <-done:
	case <-time.After(700 * time.Millisecond):
		wr.CancelBlocked = true
	}
	wr.CancelsReturned = int(atomic.LoadInt32(&returned))
	// another query: StartQuery needs waitingQueriesLock (held by the blocked cancel) while holding arqMapLock
	d2 := make(chan struct{})
	go func() { _, _ = query.StartQuery(2, false, nil, false); close(d2) }()
	select {
	case <-d2:
	case <-time.After(500 * time.Millisecond):
		wr.OtherStartBlocked = true
	}
	// DeleteQuery of an unrelated qid needs arqMapLock, which the blocked StartQuery holds
	d4 := make(chan struct{})
	go func() { query.DeleteQuery(3); close(d4) }()
	select {
	case <-d4:
	case <-time.After(500 * time.Millisecond):
		wr.CountBlocked = true
	}
	// the consumer takes one message: everything resumes
	<-rq.StateChan
	select {
	case <-done:
		select {
		case <-d2:
			wr.ReleasedByRecv = true
		case <-time.After(2 * time.Second):
		}
	case <-time.After(2 * time.Second):
	}
	b, _ := json.Marshal(wr)
	_ = os.WriteFile(outp, b, 0o644)
	os.Exit(0)
}

// ---------------------------------------------------------------------------
// worker: end-to-end queries with random cancels
// ---------------------------------------------------------------------------

type E2EResult struct {
	Queries       int            `json:"queries"`
	Outcomes      map[string]int `json:"outcomes"`
	Cancels       int            `json:"cancels"`
	MaxActiveSeen int            `json:"max_active_seen"`
	MaxWaitSeen   int            `json:"max_wait_seen"`
	Mx            int            `json:"mx"`
	ActiveAfter   int            `json:"active_after"`
	WaitingAfter  int            `json:"waiting_after"`
	GorBase       int            `json:"goroutines_base"`
	GorAfter      int            `json:"goroutines_after"`
	WatchersAfter int            `json:"watchers_after"`
	NewSigs       map[string]int `json:"new_goroutine_signatures"`
	Stuck         []string       `json:"stuck"`
	Panics        []string       `json:"panics"`
	Err           string         `json:"err,omitempty"`
}

const tsBase = uint64(1700000000000)

var e2eQueries = []string{
	"*", "city=Boston", "latency>500", "city=Boston AND latency<300", "app=web OR app=db",
	"* | stats count by city", "* | stats avg(latency), max(latency) by app", "latency>100 | stats count",
	"* | head 5", "* | sort latency | head 3", "* | eval x=latency*2 | where x>900 | fields x, city",
	"* | dedup city", "* | top city", "* | timechart span=1h count", "city=B* | stats dc(app)",
	"* | rex field=msg \"u(?<un>\\d+)\" | stats count by un", "* | stats count by city | sort -count",
	"nosuchfield=1", "* | where latency > ", "* | stats nosuchfn(latency)", "| | |", "city=",
}

// goroutine signatures: the first function of every stack that is not runtime-internal
func goroutineSigs() map[string]int {
	buf := make([]byte, 4<<20)
	n := runtime.Stack(buf, true)
	out := map[string]int{}
	for _, g := range strings.Split(string(buf[:n]), "\n\n") {
		lines := strings.Split(g, "\n")
		sig := ""
		for _, l := range lines[1:] {
			if strings.HasPrefix(l, "\t") || strings.HasPrefix(l, "created by") {
				continue
			}
			f := l
			if i := strings.LastIndex(f, "("); i > 0 {
				f = f[:i]
			}
			if strings.HasPrefix(f, "runtime.") || strings.HasPrefix(f, "sync.") || strings.HasPrefix(f, "time.") || strings.HasPrefix(f, "internal/") {
				continue
			}
			sig = f
			break
		}
		if sig == "" {
			sig = "runtime"
		}
		out[sig]++
	}
	return out
}

func workerE2E(dir string, seed uint64, n int, outp string) {
	res := E2EResult{Outcomes: map[string]int{}, NewSigs: map[string]int{}}
	write := func() {
		b, _ := json.Marshal(res)
		_ = os.WriteFile(outp, b, 0o644)
	}
	if err := initQueryNode(dir); err != nil {
		res.Err = err.Error()
		write()
		return
	}
	query.MAX_RUNNING_QUERIES = 2
	res.Mx = 2
	ctx, stopPull := context.WithCancel(context.Background())
	go query.PullQueriesToRun(ctx)
	r := vhlib.NewRng(seed)
	// small data set: 3 flushed batches + rotation
	cities := []string{"Boston", "Berlin", "Lima", "Oslo"}
	apps := []string{"web", "db", "cache"}
	zero := time.Duration(0)
	id := 0
	for b := 0; b < 3; b++ {
		var sb strings.Builder
		for i := 0; i < 120; i++ {
			id++
			fmt.Fprintf(&sb, "{\"index\":{\"_index\":\"e2e\"}}\n")
			fmt.Fprintf(&sb, "{\"timestamp\":%d,\"city\":%q,\"app\":%q,\"latency\":%d,\"msg\":\"u%d did x\"}\n",
				tsBase+uint64(id)*1000, cities[r.Intn(4)], apps[r.Intn(3)], r.Intn(1000), r.Intn(20))
		}
		if _, _, err := eswriter.HandleBulkBody([]byte(sb.String()), nil, uint64(b+1), 0, false); err != nil {
			res.Err = "ingest: " + err.Error()
			write()
			return
		}
		writer.FlushWipBufferToFile(&zero, &zero)
		if b == 1 {
			writer.ForceRotateSegmentsForTest()
		}
	}
	// warm-up (lazy goroutines of the query path), then baseline
	runOne := func(qid uint64, text string) string {
		req := map[string]interface{}{
			"searchText": text, "indexName": "e2e", "startEpoch": tsBase - 1000, "endEpoch": tsBase + 100000000,
			"size": uint64(100), "from": uint64(0), "queryLanguage": "Splunk QL", "state": "query",
		}
		resp, _, _, err := pipesearch.ParseAndExecutePipeRequest(req, qid, 0, time.Now(), "", nil)
		switch {
		case err != nil:
			return "error"
		case resp == nil:
			return "nil_response(cancelled)"
		}
		return "result"
	}
	for i := 0; i < 6; i++ {
		runOne(uint64(1000+i), e2eQueries[i])
	}
	time.Sleep(300 * time.Millisecond)
	baseSigs := goroutineSigs()
	res.GorBase = runtime.NumGoroutine()
	// sampler of table sizes
	stopSample := make(chan struct{})
	var maxA, maxW int32
	go func() {
		for {
			select {
			case <-stopSample:
				return
			default:
			}
			if a := int32(query.GetActiveQueryCount()); a > atomic.LoadInt32(&maxA) {
				atomic.StoreInt32(&maxA, a)
			}
			if w := int32(len(query.GetWaitingQueries())); w > atomic.LoadInt32(&maxW) {
				atomic.StoreInt32(&maxW, w)
			}
			time.Sleep(200 * time.Microsecond)
		}
	}()
	type job struct {
		qid    uint64
		text   string
		cancel int // microseconds after start; <0 = none
	}
	jobs := make([]job, n)
	for i := range jobs {
		c := -1
		if r.Chance(45) {
			c = r.Intn(4000)
			res.Cancels++
		}
		jobs[i] = job{uint64(5000 + i), e2eQueries[r.Intn(len(e2eQueries))], c}
	}
	var mu sync.Mutex
	var wg sync.WaitGroup
	jc := make(chan job)
	inflight := sync.Map{}
	var cwg sync.WaitGroup
	for w := 0; w < 8; w++ {
		wg.Add(1)
		go func() {
			defer wg.Done()
			for j := range jc {
				inflight.Store(j.qid, j.text)
				if j.cancel >= 0 {
					cwg.Add(1)
					go func(j job) {
						defer cwg.Done()
						if j.cancel%2 == 0 {
							// cancel shortly after the query has been admitted
							for k := 0; k < 100000 && query.VerifRunningQuery(j.qid) == nil; k++ {
								if _, live := inflight.Load(j.qid); !live {
									return
								}
								time.Sleep(20 * time.Microsecond)
							}
							time.Sleep(time.Duration(j.cancel%300) * time.Microsecond)
						} else {
							time.Sleep(time.Duration(j.cancel) * time.Microsecond)
						}
						query.CancelQuery(j.qid)
					}(j)
				}
				var oc string
				func() {
					defer func() {
						if p := recover(); p != nil {
							oc = "panic"
							mu.Lock()
							res.Panics = append(res.Panics, fmt.Sprintf("%q: %v", j.text, p))
							mu.Unlock()
						}
					}()
					oc = runOne(j.qid, j.text)
				}()
				inflight.Delete(j.qid)
				mu.Lock()
				res.Outcomes[oc]++
				mu.Unlock()
			}
		}()
	}
	go func() {
		for _, j := range jobs {
			jc <- j
		}
		close(jc)
	}()
	fin := make(chan struct{})
	go func() { wg.Wait(); cwg.Wait(); close(fin) }()
	select {
	case <-fin:
	case <-time.After(60 * time.Second):
		inflight.Range(func(k, v interface{}) bool {
			res.Stuck = append(res.Stuck, fmt.Sprintf("qid %v: %v", k, v))
			return true
		})
	}
	close(stopSample)
	res.Queries = n
	res.MaxActiveSeen, res.MaxWaitSeen = int(atomic.LoadInt32(&maxA)), int(atomic.LoadInt32(&maxW))
	// quiescence: late cancels (no-ops), executor goroutines of cancelled queries
	for i := 0; i < 60; i++ {
		time.Sleep(50 * time.Millisecond)
		if query.GetActiveQueryCount() == 0 && len(query.GetWaitingQueries()) == 0 && i >= 10 {
			break
		}
	}
	res.ActiveAfter, res.WaitingAfter = query.GetActiveQueryCount(), len(query.GetWaitingQueries())
	time.Sleep(500 * time.Millisecond)
	res.GorAfter = runtime.NumGoroutine()
	res.WatchersAfter = watcherCount()
	for k, v := range goroutineSigs() {
		if v > baseSigs[k] {
			res.NewSigs[k] = v - baseSigs[k]
		}
	}
	stopPull()
	write()
}

// ---------------------------------------------------------------------------
// worker: a family of queries executed one by one (a panic in a query goroutine that nobody
// recovers kills the process: the parent sees which query was running)
// ---------------------------------------------------------------------------

func workerFamily(dir, in, outp string) {
	var qs []string
	b, _ := os.ReadFile(in)
	_ = json.Unmarshal(b, &qs)
	if err := initQueryNode(dir); err != nil {
		fmt.Fprintln(os.Stderr, "init:", err)
		os.Exit(4)
	}
	go query.PullQueriesToRun(context.Background())
	var sb strings.Builder
	for i := 0; i < 6; i++ {
		fmt.Fprintf(&sb, "{\"index\":{\"_index\":\"fam\"}}\n")
		fmt.Fprintf(&sb, "{\"timestamp\":%d,\"a\":\"v%d\",\"b\":%d,\"c\":\"x\"}\n", tsBase+uint64(i)*1000, i%3, i)
	}
	if _, _, err := eswriter.HandleBulkBody([]byte(sb.String()), nil, 1, 0, false); err != nil {
		fmt.Fprintln(os.Stderr, "ingest:", err)
		os.Exit(4)
	}
	// index "evl": strings of boundary lengths x numbers around zero, for the eval-function stream
	sb.Reset()
	k := 0
	for _, sv := range evalStrings {
		for _, nv := range evalNumbers {
			k++
			fmt.Fprintf(&sb, "{\"index\":{\"_index\":\"evl\"}}\n")
			fmt.Fprintf(&sb, "{\"timestamp\":%d,\"s\":%s,\"n\":%s,\"id\":%d}\n", tsBase+uint64(k)*1000, strconv.Quote(sv), nv, k)
		}
	}
	if _, _, err := eswriter.HandleBulkBody([]byte(sb.String()), nil, 2, 0, false); err != nil {
		fmt.Fprintln(os.Stderr, "ingest:", err)
		os.Exit(4)
	}
	zero := time.Duration(0)
	writer.FlushWipBufferToFile(&zero, &zero)
	outcomes := make([]string, 0, len(qs))
	for i, q := range qs {
		_ = os.WriteFile(outp+".progress", []byte(fmt.Sprint(i)), 0o644)
		index := "fam"
		if strings.HasPrefix(q, "evl::") {
			index, q = "evl", strings.TrimPrefix(q, "evl::")
		}
		req := map[string]interface{}{
			"searchText": q, "indexName": index, "startEpoch": tsBase - 1000, "endEpoch": tsBase + 100000000,
			"size": uint64(1000), "from": uint64(0), "queryLanguage": "Splunk QL", "state": "query",
		}
		ch := make(chan string, 1)
		go func() {
			defer func() {
				if p := recover(); p != nil {
					ch <- fmt.Sprintf("panic(recovered in the calling goroutine): %v", p)
				}
			}()
			resp, _, _, err := pipesearch.ParseAndExecutePipeRequest(req, uint64(100+i), 0, time.Now(), "", nil)
			switch {
			case err != nil:
				ch <- "error"
			case resp == nil:
				ch <- "nil"
			default:
				ch <- "result"
			}
		}()
		select {
		case o := <-ch:
			outcomes = append(outcomes, o)
		case <-time.After(20 * time.Second):
			outcomes = append(outcomes, "no answer in 20 s")
		}
		ob, _ := json.Marshal(outcomes)
		_ = os.WriteFile(outp, ob, 0o644)
	}
}

// ---------------------------------------------------------------------------
// worker: the real substr (TextExpr.EvaluateText) on an exhaustive small grid
// ---------------------------------------------------------------------------

type GridObs struct {
	S     []byte `json:"s"` // bytes, not text: a slice may cut a UTF-8 sequence and JSON would replace the fragment
	Start int    `json:"st"`
	HasL  bool   `json:"hl"`
	Len   int    `json:"l"`
	Code  int    `json:"c"` // 0 string returned, 1 error, 2 panic
	Res   []byte `json:"r"`
	Msg   string `json:"m,omitempty"`
}

func findSubstrExpr(text string) (*structs.TextExpr, error) {
	_, aggs, _, err := pipesearch.ParseQuery(text, 1, "Splunk QL")
	if err != nil {
		return nil, err
	}
	for a := aggs; a != nil; a = a.Next {
		if a.OutputTransforms != nil && a.OutputTransforms.LetColumns != nil && a.OutputTransforms.LetColumns.ValueColRequest != nil {
			v := a.OutputTransforms.LetColumns.ValueColRequest
			if v.StringExpr != nil && v.StringExpr.TextExpr != nil && v.StringExpr.TextExpr.Op == "substr" {
				return v.StringExpr.TextExpr, nil
			}
		}
	}
	return nil, fmt.Errorf("no substr expression found in the plan of %q", text)
}

func workerSubstrGrid(outp string) {
	config.InitializeTestingConfig(filepath.Dir(outp) + "/data_grid/")
	var out struct {
		Obs []GridObs `json:"obs"`
		Err string    `json:"err,omitempty"`
	}
	strs := []string{}
	for k := 0; k <= 8; k++ {
		strs = append(strs, "abcdefgh"[:k])
	}
	strs = append(strs, "h\u00e9\u00e9x") // 6 bytes, 4 characters: the code indexes bytes
	num := func(n int) string { return fmt.Sprint(n) }
	for st := -3; st <= 8; st++ {
		for l := -9; l <= 8; l++ { // -9 stands for "no length argument"
			text := fmt.Sprintf("* | eval r=substr(s, %s, %s)", num(st), num(l))
			if l == -9 {
				text = fmt.Sprintf("* | eval r=substr(s, %s)", num(st))
			}
			te, err := findSubstrExpr(text)
			if err != nil {
				out.Err = err.Error()
				break
			}
			for _, sv := range strs {
				o := GridObs{S: []byte(sv), Start: st, HasL: l != -9, Len: l}
				func() {
					defer func() {
						if p := recover(); p != nil {
							o.Code, o.Msg = 2, fmt.Sprint(p)
						}
					}()
					r, err := te.EvaluateText(map[string]sutils.CValueEnclosure{"s": {Dtype: sutils.SS_DT_STRING, CVal: sv}})
					if err != nil {
						o.Code = 1
					} else {
						o.Res = []byte(r)
					}
				}()
				out.Obs = append(out.Obs, o)
			}
		}
	}
	b, _ := json.Marshal(out)
	_ = os.WriteFile(outp, b, 0o644)
}

// ---------------------------------------------------------------------------
// worker: parser robustness (NOT proof)
// ---------------------------------------------------------------------------

type ParseResult struct {
	Lang     string   `json:"lang"`
	N        int      `json:"n"`
	Ok       int      `json:"ok"`
	Rejected int      `json:"rejected"`
	Panics   []string `json:"panics"`
	Nondet   []string `json:"nondet"`
	NondetMK []string `json:"nondet_multikey"` // ES: nondeterministic AND an object with >= 2 keys inside "query"
	KnownDistinct int `json:"known_distinct"`  // ES: distinct outcomes of 40 parses of esMultiKeyText
	Slow     []string `json:"slow"`
	Current  string   `json:"current"` // text being parsed (for a hang the parent reads the progress file)
}

var dumpCfg = spew.ConfigState{Indent: " ", DisablePointerAddresses: true, DisableCapacities: true, SortKeys: true, DisableMethods: true, MaxDepth: 40}

// ES query-DSL objects are walked with Go map iteration, so the order of the criteria inside one
// AND / OR / exclusion condition varies from parse to parse; these lists are commutative, so for ES
// "same plan" is judged modulo their order (noted in notes/C17.md).
func canonNode(n *structs.ASTNode, depth int) {
	if n == nil || depth > 200 {
		return
	}
	for _, c := range []*structs.Condition{n.AndFilterCondition, n.OrFilterCondition, n.ExclusionFilterCondition} {
		if c == nil {
			continue
		}
		for _, nn := range c.NestedNodes {
			canonNode(nn, depth+1)
		}
		sort.SliceStable(c.FilterCriteria, func(i, j int) bool {
			return dumpCfg.Sdump(c.FilterCriteria[i]) < dumpCfg.Sdump(c.FilterCriteria[j])
		})
		sort.SliceStable(c.NestedNodes, func(i, j int) bool {
			return dumpCfg.Sdump(c.NestedNodes[i]) < dumpCfg.Sdump(c.NestedNodes[j])
		})
	}
}

func parseOnce(lang, text string, qid uint64) (dump string, err error) {
	switch lang {
	case "Splunk QL", "Pipe QL", "SQL":
		a, g, idx, e := pipesearch.ParseRequest(text, tsBase, tsBase+3600000, qid, lang, "ind-0")
		if e != nil {
			return "", e
		}
		return dumpCfg.Sdump(a, g, idx), nil
	case "ES":
		a, g, sz, sc, e := esquery.ParseRequest([]byte(text), qid, false)
		if e != nil {
			return "", e
		}
		canonNode(a, 0)
		return dumpCfg.Sdump(a, g, sz, sc), nil
	case "PromQL":
		reqs, vt, ar, e := promql.ConvertPromQLToMetricsQuery(text, uint32(tsBase/1000), uint32(tsBase/1000+3600), 0)
		if e != nil {
			return "", e
		}
		return dumpCfg.Sdump(reqs, vt, ar), nil
	}
	return "", fmt.Errorf("unknown language")
}

// the SQL front end (and SPL without explicit epochs) stamps now-relative time ranges into the plan
var epochRe = regexp.MustCompile(`(StartEpochMs|EndEpochMs|StartTime|EndTime): \(uint64\) \d+`)

func maskClock(d string) string { return epochRe.ReplaceAllString(d, "$1: <clock>") }

// known class es_multi_key_query_object_map_order: parseQuery (and the clause parsers below it)
// range over the keys of a JSON object and return on the first one they understand, so for an
// object with two or more keys the plan (or accept/reject) follows Go's random map order
const esMultiKeyText = `{"query":{"match_all":{},"match":{"city":"Lima"}}}`

func esMultiKey(text string) bool {
	var v interface{}
	// like the server: the first JSON value of the body counts, trailing bytes are ignored
	if json.NewDecoder(strings.NewReader(text)).Decode(&v) != nil {
		return false
	}
	top, ok := v.(map[string]interface{})
	if !ok {
		return false
	}
	var walk func(x interface{}) bool
	walk = func(x interface{}) bool {
		switch t := x.(type) {
		case map[string]interface{}:
			if len(t) >= 2 {
				return true
			}
			for _, c := range t {
				if walk(c) {
					return true
				}
			}
		case []interface{}:
			for _, c := range t {
				if walk(c) {
					return true
				}
			}
		}
		return false
	}
	return walk(top["query"])
}

// texts whose plan legitimately depends on the wall clock
func clockDependent(text string) bool {
	l := strings.ToLower(text)
	for _, k := range []string{"earliest", "latest", "now", "relative_time", "time()", "today", "yesterday", "offset", "@", "ago", "gentimes", "makeresults", "random", "interval"} {
		if strings.Contains(l, k) {
			return true
		}
	}
	return false
}

func workerParse(lang, in, outp string) {
	var texts []string
	b, _ := os.ReadFile(in)
	_ = json.Unmarshal(b, &texts)
	config.InitializeTestingConfig(filepath.Dir(outp) + "/data_parse/")
	res := ParseResult{Lang: lang}
	prog := outp + ".progress"
	for i, t := range texts {
		_ = os.WriteFile(prog, []byte(t), 0o644)
		res.N++
		t0 := time.Now()
		func() {
			defer func() {
				if p := recover(); p != nil {
					if len(res.Panics) < 20 {
						res.Panics = append(res.Panics, fmt.Sprintf("%q => %v", t, p))
					}
				}
			}()
			d1, e1 := parseOnce(lang, t, uint64(i+1))
			d2, e2 := parseOnce(lang, t, uint64(i+1))
			if (e1 == nil) != (e2 == nil) || (e1 == nil && d1 != d2 && maskClock(d1) != maskClock(d2) && !clockDependent(t)) {
				if lang == "ES" && esMultiKey(t) {
					if len(res.NondetMK) < 20 {
						res.NondetMK = append(res.NondetMK, fmt.Sprintf("%q", t))
					}
				} else if len(res.Nondet) < 20 {
					res.Nondet = append(res.Nondet, fmt.Sprintf("%q", t))
				}
			}
			if e1 == nil {
				res.Ok++
			} else {
				res.Rejected++
			}
		}()
		if dt := time.Since(t0); dt > 6*time.Second && len(res.Slow) < 10 {
			res.Slow = append(res.Slow, fmt.Sprintf("%q %.1fs", t, dt.Seconds()))
		}
	}
	if lang == "ES" {
		seen := map[string]bool{}
		for k := 0; k < 40; k++ {
			d, e := parseOnce(lang, esMultiKeyText, 1)
			if e != nil {
				d = "error: " + e.Error()
			}
			seen[maskClock(d)] = true
		}
		res.KnownDistinct = len(seen)
	}
	ob, _ := json.Marshal(res)
	_ = os.WriteFile(outp, ob, 0o644)
}

// ---------------------------------------------------------------------------
// parent: generators
// ---------------------------------------------------------------------------

var splSeeds = []string{
	"*", "city=Boston", "latency>500 AND city!=Lima", "app=web OR (app=db AND latency<=10)", "NOT city=Oslo",
	"search city=\"New York\" | stats count by app", "* | stats avg(latency) as a, max(latency), dc(city) by app, city",
	"* | eval x=if(latency>5,\"hi\",\"lo\"), y=round(latency/3,2) | where x=\"hi\" | fields x, y",
	"* | rex field=msg \"(?<user>\\w+) did\" | top limit=5 user", "* | timechart span=5m count by app limit=3",
	"* | sort -latency, +city | head 10 | tail 2", "* | dedup 2 city app sortby -latency", "* | rename latency as l | fields - l",
	"* | bin latency span=100 | stats count by latency", "* | eval t=strftime(timestamp, \"%Y-%m-%d\") | stats count by t",
	"* | streamstats window=3 avg(latency) by app", "* | fillnull value=0 latency | regex city=\"^B.*\"",
	"* | transaction app maxspan=5m", "* | mvexpand city | makemv delim=\",\" city", "* | where like(city, \"B%\") AND isnotnull(app)",
	"* | eval a=case(latency<10,\"s\",latency<100,\"m\",true(),\"l\") | stats count by a", "index=ind-0 city=Boston | stats sum(latency)",
	"* | stats perc95(latency), median(latency), stdev(latency), list(city), values(app)", "* | eval n=tonumber(\"12\")+len(city)*2-abs(-3)",
	"* | inputlookup a.csv", "* | tail 5", "* | rare city", "* | eventstats max(latency) as m by app | where latency=m",
	"* | eval s=substr(city,1,3).\"-\".upper(app) | search s=\"Bos-WEB\"", "* | append [search app=db | head 1]",
}
var pipeSeeds = []string{
	"*", "city=Boston", "latency>500", "city=Boston AND latency<300", "app=web OR app=db", "* | columns city, app",
	"* | min(latency), max(latency) groupby app", "* | count(city)", "latency>=10 | avg(latency) groupby city, app",
	"* | columns -city", "* | cardinality(city)", "(city=Boston OR city=Lima) AND NOT app=web", "city=\"New York\"",
	"* | sum(latency) groupby app | columns app", "city=B*", "* | let x=latency", "* | only columns city",
}
var sqlSeeds = []string{
	"SELECT * FROM `ind-0`", "select city, app from `ind-0` where latency > 5", "SELECT COUNT(*) FROM `ind-0` GROUP BY city",
	"select avg(latency), max(latency) from `ind-0` group by app", "SELECT city AS c FROM `ind-0` ORDER BY latency DESC LIMIT 5",
	"select * from `ind-0` where city = 'Boston' and latency <= 3 or app = 'db'", "SHOW TABLES", "DESCRIBE `ind-0`",
	"SELECT latency + 1 FROM `ind-0`", "select min(latency) from `ind-0` where app != 'x' group by city order by city asc",
	"SELECT * FROM `ind-0` WHERE city LIKE 'B%'", "SELECT ROUND(latency) FROM `ind-0`", "SHOW COLUMNS IN `ind-0`",
	"select sum(latency) as s from `ind-0` group by city, app limit 3", "SELECT * FROM `ind-0` WHERE latency BETWEEN 1 AND 5",
}
var esSeeds = []string{
	`{"query":{"match_all":{}}}`, `{"query":{"term":{"city":"Boston"}}}`, `{"query":{"match":{"msg":"did x"}},"size":10}`,
	`{"query":{"bool":{"must":[{"term":{"app":"web"}},{"range":{"latency":{"gte":10,"lt":500}}}],"must_not":[{"term":{"city":"Oslo"}}]}}}`,
	`{"query":{"bool":{"should":[{"match":{"city":"Lima"}},{"match_phrase":{"msg":"u1 did"}}],"filter":{"exists":{"field":"app"}}}},"from":0,"size":5}`,
	`{"size":0,"aggs":{"a":{"terms":{"field":"city","size":3},"aggs":{"m":{"avg":{"field":"latency"}}}}}}`,
	`{"query":{"query_string":{"query":"city:Boston AND latency:>5"}}}`, `{"query":{"wildcard":{"city":"B*"}}}`,
	`{"aggs":{"h":{"date_histogram":{"field":"timestamp","interval":"1h"}}},"query":{"range":{"timestamp":{"gte":1700000000000,"lte":1700003600000,"format":"epoch_millis"}}}}`,
	`{"query":{"prefix":{"city":"Bo"}},"sort":[{"latency":{"order":"desc"}}]}`, `{"query":{"terms":{"app":["web","db"]}}}`,
	`{"query":{"match":{"msg":{"query":"did x","operator":"and"}}}}`, `{"query":{"bool":{"must":{"match_all":{}},"filter":[{"term":{"app":"db"}}]}},"rescore":{"window_size":5}}`,
	`{"query":{"multi_match":{"query":"Boston","fields":["city","msg"]}}}`, `{"query":{"nested":{"path":"a","query":{"term":{"a.b":1}}}}}`,
}
var promSeeds = []string{
	"cpu_usage", `cpu_usage{host="a"}`, `rate(http_requests_total[5m])`, `sum by (host) (rate(http_requests_total{code=~"5.."}[1m]))`,
	`avg(cpu_usage) without (core)`, `cpu_usage + mem_usage`, `cpu_usage * 100 / 4`, `histogram_quantile(0.9, sum(rate(lat_bucket[5m])) by (le))`,
	`topk(3, cpu_usage)`, `max_over_time(cpu_usage[10m])`, `cpu_usage > 50`, `abs(delta(cpu_usage[2m]))`, `count(cpu_usage{host!="b",dc=~"eu.*"})`,
	`clamp_max(cpu_usage, 10)`, `label_replace(cpu_usage, "h", "$1", "host", "(.*)")`, `sum(cpu_usage) / count(cpu_usage)`, `ceil(cpu_usage) - floor(cpu_usage)`,
	`quantile(0.5, cpu_usage)`, `irate(x[30s])`, `(a + b) * on(host) group_left c`, `sum(rate(a[1m])) by (job) / sum(rate(b[1m])) by (job)`, `1 + 2`, `vector(1)`, `a unless b`, `a and b or c`,
}

var mutTokens = map[string][]string{
	"Splunk QL": {"|", " | ", "=", "(", ")", "\"", "'", ",", " by ", " as ", "stats ", "eval ", "where ", "[", "]", "*", "-", "+", "/", "%", "\\", " AND ", " OR ", " NOT ", "count", "avg(", "span=", "1h", "9999999999999999999999", "-0", "1e309", "\x00", "\t", "\n", "é", "\xff", "`", "<", ">=", "!=", "limit=", "field=", "if(", "true()", "null", ".", "..", "$", "{", "}"},
	"Pipe QL":   {"|", " | ", "=", "(", ")", "\"", ",", " groupby ", "columns ", "min(", "*", "-", " AND ", " OR ", " NOT ", "count(", "9999999999999999999999", "\x00", "\n", "é", "\xff", "<", ">=", "!=", "let ", ":", "[", "]"},
	"SQL":       {"SELECT ", " FROM ", " WHERE ", " GROUP BY ", " ORDER BY ", " LIMIT ", "`", "'", "\"", "(", ")", ",", "*", "=", "<>", " AND ", " OR ", " NOT ", " AS ", "COUNT(", ";", "--", "/*", "9999999999999999999999", "\x00", "é", " JOIN ", " UNION ", " IN (", " NULL", " LIKE ", "SHOW ", "DESCRIBE "},
	"ES":        {"{", "}", "[", "]", ":", ",", "\"", "\"query\"", "\"bool\"", "\"must\"", "\"term\"", "\"range\"", "\"aggs\"", "null", "true", "1e999", "-1", "\"size\":-1", "\"from\":99999999999999999999", "\\u0000", "é", "\"\"", "{}", "[]", "\"match_all\":{}", "\"terms\"", "\"field\""},
	"PromQL":    {"{", "}", "[", "]", "(", ")", ",", "\"", "=", "=~", "!=", "!~", "5m", "1y", "0s", "sum", " by ", " without ", "rate(", "+", "-", "*", "/", "%", "^", " and ", " or ", " unless ", " on(", " group_left", " offset 5m", " bool ", "1e999", "NaN", "Inf", ":", "\x00", "é", "__name__", "[5m:1m]", "@ 100"},
}

func mutate(r *vhlib.Rng, lang, s string) string {
	toks := mutTokens[lang]
	b := []byte(s)
	k := 1 + r.Intn(3)
	for i := 0; i < k; i++ {
		switch r.Intn(7) {
		case 0: // insert a token
			p := r.Intn(len(b) + 1)
			t := vhlib.Pick(r, toks)
			b = append(b[:p:p], append([]byte(t), b[p:]...)...)
		case 1: // delete a span
			if len(b) > 0 {
				p := r.Intn(len(b))
				n := 1 + r.Intn(4)
				if p+n > len(b) {
					n = len(b) - p
				}
				b = append(b[:p:p], b[p+n:]...)
			}
		case 2: // flip a byte
			if len(b) > 0 {
				b[r.Intn(len(b))] = byte(r.Intn(256))
			}
		case 3: // truncate
			if len(b) > 0 {
				b = b[:r.Intn(len(b))]
			}
		case 4: // duplicate a span
			if len(b) > 1 {
				p := r.Intn(len(b) - 1)
				n := 1 + r.Intn(len(b)-p-1)
				b = append(b[:p+n:p+n], append(append([]byte{}, b[p:p+n]...), b[p+n:]...)...)
			}
		case 5: // splice with another seed
			o := []byte(vhlib.Pick(r, seedsOf(lang)))
			if len(b) > 0 && len(o) > 0 {
				p := r.Intn(len(b))
				b = append(b[:p:p], o[r.Intn(len(o)):]...)
			}
		case 6: // deep nesting
			n := 5 + r.Intn(60)
			if lang == "Pipe QL" || lang == "Splunk QL" {
				n = 1 + r.Intn(3)
			}
			open, close := "(", ")"
			if lang == "ES" {
				open, close = `{"bool":{"must":[`, `]}}`
			}
			p := r.Intn(len(b) + 1)
			b = append(b[:p:p], append([]byte(strings.Repeat(open, n)+"a"+strings.Repeat(close, n)), b[p:]...)...)
		}
	}
	return string(b)
}

func seedsOf(lang string) []string {
	switch lang {
	case "Splunk QL":
		return splSeeds
	case "Pipe QL":
		return pipeSeeds
	case "SQL":
		return sqlSeeds
	case "ES":
		return esSeeds
	}
	return promSeeds
}

// grammar-derived SPL: pipelines assembled from command templates
func genSPL(r *vhlib.Rng) string {
	fields := []string{"city", "app", "latency", "msg", "x", "y", "_time"}
	vals := []string{"Boston", "\"New York\"", "5", "3.5", "-2", "B*", "\"a b\"", "true"}
	ops := []string{"=", "!=", ">", "<", ">=", "<="}
	f := func() string { return vhlib.Pick(r, fields) }
	var cond func(d int) string
	cond = func(d int) string {
		if d <= 0 || r.Chance(50) {
			return f() + vhlib.Pick(r, ops) + vhlib.Pick(r, vals)
		}
		switch r.Intn(3) {
		case 0:
			return "(" + cond(d-1) + " AND " + cond(d-1) + ")"
		case 1:
			return cond(d-1) + " OR " + cond(d-1)
		}
		return "NOT " + cond(d-1)
	}
	aggs := []string{"count", "avg", "sum", "min", "max", "dc", "values", "list", "median", "perc90", "stdev", "range"}
	agg := func() string {
		a := vhlib.Pick(r, aggs)
		if a == "count" && r.Bool() {
			return "count"
		}
		return a + "(" + f() + ")"
	}
	var expr func(d int) string
	expr = func(d int) string {
		if d <= 0 || r.Chance(40) {
			if r.Bool() {
				return f()
			}
			return fmt.Sprint(r.Intn(100))
		}
		switch r.Intn(6) {
		case 0:
			return expr(d-1) + vhlib.Pick(r, []string{"+", "-", "*", "/"}) + expr(d-1)
		case 1:
			return "round(" + expr(d-1) + ", 1)"
		case 2:
			return "if(" + f() + ">" + fmt.Sprint(r.Intn(9)) + ", " + expr(d-1) + ", " + expr(d-1) + ")"
		case 3:
			return "len(" + f() + ")"
		case 4:
			return "abs(" + expr(d-1) + ")"
		}
		return "(" + expr(d-1) + ")"
	}
	cmds := []func() string{
		func() string { return "stats " + agg() + " by " + f() },
		func() string { return "stats " + agg() + " as a, " + agg() },
		func() string { return "eval " + f() + "=" + expr(3) },
		func() string { return "where " + f() + vhlib.Pick(r, []string{">", "<", "=", "!="}) + expr(2) },
		func() string { return "fields " + f() + ", " + f() },
		func() string { return "head " + fmt.Sprint(r.Intn(20)) },
		func() string { return "sort " + vhlib.Pick(r, []string{"", "-", "+"}) + f() },
		func() string { return "dedup " + f() },
		func() string { return "top " + f() },
		func() string { return "rename " + f() + " as z" },
		func() string { return "timechart span=" + fmt.Sprint(1+r.Intn(9)) + vhlib.Pick(r, []string{"m", "h", "s", "d"}) + " " + agg() },
		func() string { return "search " + cond(2) },
		func() string { return "bin " + f() + " span=" + fmt.Sprint(1+r.Intn(50)) },
		func() string { return "fillnull value=0 " + f() },
	}
	s := cond(3)
	if r.Chance(20) {
		s = "*"
	}
	for i, n := 0, r.Intn(4); i < n; i++ {
		s += " | " + vhlib.Pick(r, cmds)()
	}
	return s
}

func parenDepth(s string) int {
	d, m := 0, 0
	for _, c := range s {
		switch c {
		case '(':
			d++
			if d > m {
				m = d
			}
		case ')':
			if d > 0 {
				d--
			}
		}
	}
	return m
}

func genTexts(r *vhlib.Rng, lang string, n int) []string {
	out := append([]string{}, seedsOf(lang)...)
	out = append(out, "", " ", "|", "\x00", strings.Repeat("a ", 1200), strings.Repeat("| head 1 ", 400))
	if lang != "Pipe QL" && lang != "Splunk QL" {
		out = append(out, strings.Repeat("(", 3000))
	}
	for len(out) < n {
		var t string
		switch {
		case lang == "Splunk QL" && r.Chance(35):
			t = genSPL(r)
		case lang == "Splunk QL" && r.Chance(25):
			t = mutate(r, lang, genSPL(r))
		default:
			t = mutate(r, lang, vhlib.Pick(r, seedsOf(lang)))
		}
		if (lang == "Pipe QL" && parenDepth(t) > 3) || (lang == "Splunk QL" && parenDepth(t) > 4) {
			continue // known classes *_paren_nesting_exponential: kept out of the main stream
		}
		out = append(out, t)
	}
	return out
}

// commands that name fields, placed after a transforming command (stats) so that the named
// field may be absent from the intermediate result (a = group key, n = the count, zz = absent)
func genFamily(r *vhlib.Rng, n int) (main []string, known []string) {
	heads := []string{"* | stats count as n by a", "* | stats count by a", "* | stats max(b) as n by a, c", "* | top a", "* | stats count as n"}
	refs := []string{"a", "n", "zz", "a zz", "zz a", "a, zz", "zz, a", "a n zz", "c"}
	cmds := []func(f string) string{
		func(f string) string { return "dedup " + f },
		func(f string) string { return "sort " + f },
		func(f string) string { return "fields " + f },
		func(f string) string { return "fields - " + f },
		func(f string) string { return "rename " + strings.Fields(strings.ReplaceAll(f, ",", " "))[0] + " as q" },
		func(f string) string { return "eval q=" + strings.Join(strings.Fields(strings.ReplaceAll(f, ",", " ")), "+") },
		func(f string) string { return "where " + strings.Fields(strings.ReplaceAll(f, ",", " "))[0] + "=1" },
		func(f string) string { return "top " + f },
		func(f string) string { return "rare " + f },
		func(f string) string { return "fillnull value=0 " + f },
		func(f string) string { return "stats count by " + f },
		func(f string) string { return "stats sum(" + strings.Fields(strings.ReplaceAll(f, ",", " "))[0] + ")" },
		func(f string) string { return "head 2 | dedup " + f },
		func(f string) string { return "mvexpand " + strings.Fields(strings.ReplaceAll(f, ",", " "))[0] },
		func(f string) string { return "bin " + strings.Fields(strings.ReplaceAll(f, ",", " "))[0] + " span=2" },
		func(f string) string { return "eventstats count by " + f },
		func(f string) string { return "streamstats count by " + f },
		func(f string) string { return "regex " + strings.Fields(strings.ReplaceAll(f, ",", " "))[0] + "=\"v.*\"" },
		func(f string) string { return "tail 2 | sort -" + strings.Fields(strings.ReplaceAll(f, ",", " "))[0] },
	}
	// known class query_panics_process_dedup_absent_field: dedup with several fields, the first
	// present in the stats result, a later one absent
	isKnown := func(q string) bool {
		i := strings.LastIndex(q, "dedup ")
		if i < 0 || !strings.Contains(q[:i], "stats") && !strings.Contains(q[:i], "top") {
			return false
		}
		fs := strings.Fields(strings.ReplaceAll(q[i+6:], ",", " "))
		return len(fs) >= 2 && fs[0] != "zz" && strings.Contains(" "+strings.Join(fs[1:], " ")+" ", " zz ")
	}
	// known class query_panics_process_tail_sort_absent_field: stats without group-by, then tail N
	// (N >= 2), then sort on a field that the stats result does not have
	isKnown2 := func(q string) bool {
		parts := strings.Split(q, " | ")
		if len(parts) < 4 || !strings.HasPrefix(parts[1], "stats ") || strings.Contains(parts[1], " by ") {
			return false
		}
		return strings.HasPrefix(parts[2], "tail ") && strings.HasPrefix(parts[3], "sort ") && !strings.HasSuffix(parts[3], "n")
	}
	seen := map[string]bool{}
	for tries := 0; len(main) < n && tries < 50*n; tries++ {
		q := vhlib.Pick(r, heads) + " | " + vhlib.Pick(r, cmds)(vhlib.Pick(r, refs))
		if seen[q] {
			continue
		}
		seen[q] = true
		if isKnown(q) || isKnown2(q) {
			continue
		}
		main = append(main, q)
	}
	known = []string{"* | stats count by a | dedup a zz", "* | stats count as n | tail 2 | sort zz"}
	return
}

// ---- eval-function stream: stored values of boundary lengths, arguments computed from the data ----
var evalStrings = []string{"", "a", "ab", "abcde", "abcdef", "[req]ok!", "abcdefghi", "abcdefghij", "abcdefghijklmnopqrstuvwxyz",
	"h\u00e9\u00e9", "\u65e5\u672c\u8a9e", "a b  c", "  pad  ", "12", "-7", "3.5", "1e3", "%41%zz", "a,b,,c", "192.168.1.7", "{\"a\":{\"b\":1}}", "2023-11-14"}
var evalNumbers = []string{"-5", "-1", "0", "1", "3", "7", "64", "1000000", "2.5", "-0.5"}

// function -> expressions over the fields s (string) and n (number)
var evalFnExprs = map[string][]string{
	"substr": {`substr(s, 6, len(s)-10)`, `substr(s, n, len(s)-3)`, `substr(s, n)`, `substr(s, n*-1, n)`, `substr(s, len(s)-2, n-2)`, `substr(s, 1, n*-1)`,
		`substr(s, 3, -1)`, `substr(s, n*1000000000000, 2)`, `substr(s, 2, n*1000000000000)`, `substr(s, len(s), 1)`, `substr(s, len(s)+1, 0)`, `substr(s, 0, 0)`},
	"trim":    {`ltrim(s, "a")`, `rtrim(s, "j!")`, `trim(s)`, `trim(s, " a")`, `ltrim(s, s)`, `rtrim(s, "")`, `trim(s, "\u00e9")`},
	"replace": {`replace(s, "a", "$1")`, `replace(s, "(a)(b)", "\\2\\1")`, `replace(s, "", "x")`, `replace(s, "[", "x")`, `replace(s, s, s)`, `replace(s, "(", "\\9")`},
	"split":   {`split(s, "")`, `split(s, ",")`, `split(s, s)`, `mvcount(split(s, ""))`, `mvjoin(split(s, ""), s)`},
	"mvindex": {`mvindex(split(s, ""), n)`, `mvindex(split(s, ""), n, len(s)-3)`, `mvindex(split(s, ""), n*-1, n)`, `mvindex(split(s, ","), len(s)-10, n-2)`,
		`mvindex(split(s, ""), n*1000000000000)`, `mvindex(split(s, ""), 2, -1)`, `mvindex(split(s, ""), -1, -3)`, `mvindex(s, n)`},
	"mvfind":  {`mvfind(split(s, ""), "b")`, `mvfind(split(s, ","), s)`},
	"mvrange": {`mvrange(n, len(s), 2)`, `mvrange(1, 10, n)`, `mvrange(0, n, 0)`, `mvrange(n, n*-1, -1)`, `mvrange(0, len(s), 1)`, `mvrange(len(s), 0, 1)`, `mvrange(1, n, "1")`},
	"mvmisc":  {`mvzip(split(s, ""), split(s, ","), s)`, `mvdedup(split(s, ""))`, `mvsort(split(s, ""))`, `mvappend(s, split(s, ""))`, `mv_to_json_array(split(s, ","))`, `mvzip(s, s)`},
	"printf":  {`printf("%5d|%-8s|%.3f", n, s, n)`, `printf(s, n)`, `printf("%*d", n, n)`, `printf("%")`, `printf("%d", s)`, `printf("%.999f", n)`, `printf("%s %s", s)`, `printf("%c", n)`},
	"tostring": {`tostring(n, "hex")`, `tostring(n, "commas")`, `tostring(n, "duration")`, `tostring(s, "hex")`, `tostring(n/0)`, `tostring(n*1000000000000, "duration")`, `tostring(n, s)`},
	"strftime": {`strftime(n, "%Y-%m-%d %H:%M:%S")`, `strftime(n*1000000000000, "%Y")`, `strftime(n, s)`, `strftime(n, "%")`, `strftime(n*-100000000000000000, "%c")`},
	"strptime": {`strptime(s, "%Y-%m-%d")`, `strptime(s, s)`, `strptime(s, "%")`, `strptime("", "")`},
	"relative_time": {`relative_time(n, "-1d@d")`, `relative_time(n*1000000000000, "+1000000y")`},
	"tonumber": {`tonumber(s)`, `tonumber(s, n)`, `tonumber(s, 16)`, `tonumber(s, 37)`, `tonumber(s, n*-1)`, `tonumber(s, 1)`},
	"case":    {`len(s)`, `lower(s)`, `upper(s)`, `urldecode(s)`, `typeof(s)`, `typeof(n)`, `if(isnum(n), 1, 0)`, `if(isstr(s), 1, 0)`},
	"spath":   {`spath(s, "a.b")`, `spath(s, s)`, `spath(s, "")`, `spath(s, "a{0}.b")`},
	"ip":      {`ipmask("255.255.255.0", s)`, `ipmask(s, "1.2.3.4")`, `if(cidrmatch("10.0.0.0/8", s), 1, 0)`, `if(cidrmatch(s, s), 1, 0)`, `ipmask("255.255", s)`},
	"match":   {`if(like(s, "a%"), 1, 0)`, `if(like(s, s), 1, 0)`, `if(match(s, "^a"), 1, 0)`, `if(match(s, s), 1, 0)`, `if(match(s, "["), 1, 0)`, `if(like(s, "%[%"), 1, 0)`},
	"round":   {`round(n/3, n)`, `round(n, n*-1)`, `round(n, n*1000000000000)`, `sigfig(n/3)`, `exact(n/3)`, `floor(n/0)`, `ceil(n*-1/7)`, `round(n/0)`, `sigfig(0)`, `round(n, 400)`},
	"pow":     {`pow(n, n)`, `pow(n, n*-1)`, `pow(0, -1)`, `sqrt(n*-1)`, `sqrt(n)`, `log(n)`, `log(n, n)`, `log(n, 1)`, `log(n*-1, 2)`, `ln(n)`, `ln(0)`, `exp(n)`, `exp(n*1000)`, `pow(-8, 1/3)`},
	"arith":   {`n/0`, `n%0`, `n/(n-1)`, `n%(n-3)`, `(n*1000000000000)*(n*1000000000000)`, `abs(n)`, `n/len(s)`, `len(s)%n`, `n*-1%2.5`},
	"bit":     {`bit_and(n, 7)`, `bit_or(n, len(s))`, `bit_xor(n, n-2)`, `bit_not(n)`, `bit_shift_left(n, n)`, `bit_shift_left(1, n*-1)`, `bit_shift_right(n, 64)`,
		`bit_shift_left(1, n*1000000000000)`, `bit_shift_right(1, n*-1)`, `bit_shift_left(n, 63)`},
	"trig":    {`acos(n)`, `asin(n/3)`, `acosh(n)`, `atanh(n)`, `atan2(n, 0)`, `hypot(n, n*1000000000000)`, `cosh(n*100)`, `tan(n)`},
	"cond":    {`if(n>0, substr(s, n), s)`, `case(n<0, "neg", n=0, "zero", n>0, s)`, `coalesce(null(), s)`, `nullif(s, s)`, `validate(n>0, "neg", len(s)>3, "short")`,
		`if(in(s, "a", "ab"), 1, 0)`, `if(isnull(substr(s, 99)), "x", "y")`},
	"concat":  {`s.s`, `s.n`, `n.n`, `s."-".tostring(n)`, `upper(s).lower(s)`},
}

// class of the one panic the clean tree is known to have, if any (filled after the first runs)
var evalFnKnown = map[string]string{}

func genEvalFn() (main []string, known []string, fnOf map[string]string) {
	fnOf = map[string]string{}
	fns := make([]string, 0, len(evalFnExprs))
	for f := range evalFnExprs {
		fns = append(fns, f)
	}
	sort.Strings(fns)
	for _, f := range fns {
		for _, e := range evalFnExprs[f] {
			q := "evl::* | eval r=" + e
			fnOf[q] = f
			if _, k := evalFnKnown[e]; k {
				known = append(known, q)
			} else {
				main = append(main, q)
			}
		}
	}
	return
}

type famResult struct {
	Outcomes map[string]string // query -> result | error | nil | crash: <stderr tail>
	Order    []string
}

// runs the queries in worker processes; a process that dies is restarted after the query that killed it
func runFamily(wdir, tag string, qs []string) famResult {
	fr := famResult{Outcomes: map[string]string{}, Order: qs}
	rest := qs
	for round := 0; len(rest) > 0 && round < 12; round++ {
		dir := filepath.Join(wdir, fmt.Sprintf("fam_%s_%d", tag, round))
		_ = os.MkdirAll(dir, 0o755)
		in := filepath.Join(wdir, fmt.Sprintf("fam_%s_%d_in.json", tag, round))
		op := filepath.Join(wdir, fmt.Sprintf("fam_%s_%d.json", tag, round))
		b, _ := json.Marshal(rest)
		_ = os.WriteFile(in, b, 0o644)
		tail, err := runWorker(90*time.Second, "family", dir, in, op)
		var oc []string
		if ob, rerr := os.ReadFile(op); rerr == nil {
			_ = json.Unmarshal(ob, &oc)
		}
		for i, o := range oc {
			fr.Outcomes[rest[i]] = o
		}
		if len(oc) >= len(rest) {
			break
		}
		// the worker died while running rest[len(oc)]
		why := fmt.Sprintf("%v", err)
		if i := strings.Index(tail, "panic:"); i >= 0 {
			why = tail[i:]
			if len(why) > 500 {
				why = why[:500]
			}
		}
		if err != nil && strings.Contains(err.Error(), "timeout") {
			fr.Outcomes[rest[len(oc)]] = "no answer: worker " + why
		} else {
			fr.Outcomes[rest[len(oc)]] = "crash: " + strings.Join(strings.Fields(why), " ")
		}
		rest = rest[len(oc)+1:]
	}
	return fr
}

// ---------------------------------------------------------------------------
// parent: Coq printing
// ---------------------------------------------------------------------------

func coqNat(n int) string { return fmt.Sprintf("%d%%nat", n) }

func coqOp(s StepRec) string {
	op := strings.TrimPrefix(s.Op, "then:")
	var o string
	switch op {
	case "start":
		o = fmt.Sprintf("Start %d %s %s", s.Q, vhlib.CoqBool(s.Async), vhlib.CoqBool(s.Forced))
	case "pull":
		o = "Pull"
	case "cancel":
		o = fmt.Sprintf("Cancel %d", s.Q)
	case "complete":
		o = fmt.Sprintf("Complete %d", s.Q)
	case "fail":
		o = fmt.Sprintf("Fail %d", s.Q)
	case "delete":
		o = fmt.Sprintf("Delete %d", s.Q)
	case "recv":
		o = fmt.Sprintf("Recv %d", s.Q)
	case "fireall":
		return "TFireAll"
	}
	if strings.HasPrefix(s.Op, "then:") {
		if op == "pull" {
			return "TPullAll"
		}
		return "TThen (" + o + ")"
	}
	return "T (" + o + ")"
}

func coqObs(s StepRec) string {
	lists := "None"
	if s.Full {
		rl := make([]string, 0, len(s.Run))
		for _, e := range s.Run {
			rl = append(rl, fmt.Sprintf("(%d,%s,%d)", e.Q, vhlib.CoqBool(e.C), e.L))
		}
		wl := make([]string, 0, len(s.Wait))
		for _, e := range s.Wait {
			wl = append(wl, fmt.Sprintf("(%d,%d)", e.Q, e.L))
		}
		lists = "(Some (" + vhlib.CoqList(rl) + ", " + vhlib.CoqList(wl) + "))"
	}
	w := "None"
	if s.Watch >= 0 {
		w = fmt.Sprintf("(Some %d)", s.Watch)
	}
	return fmt.Sprintf("mkONA %d %d %d %s %s (Some %d)", s.Out, s.NRun, s.NWait, lists, w, s.Active)
}

func coqTrace(res *SeqResult) string {
	items := make([]string, 0, len(res.Steps))
	for _, s := range res.Steps {
		items = append(items, "("+coqOp(s)+", "+coqObs(s)+")")
	}
	return fmt.Sprintf("(%d, ", res.Spec.Mx) + vhlib.CoqListNL(items) + ")"
}

// ---------------------------------------------------------------------------
// parent: orchestration
// ---------------------------------------------------------------------------

func runWorker(timeout time.Duration, args ...string) (string, error) {
	ctx, cancel := context.WithTimeout(context.Background(), timeout)
	defer cancel()
	cmd := exec.CommandContext(ctx, os.Args[0], append([]string{"worker"}, args...)...)
	out, err := cmd.CombinedOutput()
	tail := string(out)
	if len(tail) > 1500 {
		tail = tail[len(tail)-1500:]
	}
	if i := strings.Index(string(out), "panic:"); i >= 0 {
		// the panic message and the first frames, not the end of the goroutine dump
		ex := string(out)[i:]
		if len(ex) > 900 {
			ex = ex[:900]
		}
		tail = ex
	}
	if ctx.Err() != nil {
		return tail, fmt.Errorf("timeout after %v", timeout)
	}
	return tail, err
}

type stepsOut struct {
	Results []*SeqResult `json:"results"`
	InitMax uint64       `json:"init_max"`
	GoMax   uint64       `json:"gomax"`
}

func main() {
	log.SetLevel(log.PanicLevel)
	log.SetOutput(io.Discard)
	if len(os.Args) > 2 && os.Args[1] == "worker" {
		a := os.Args[2:]
		switch a[0] {
		case "steps":
			workerSteps(a[1], a[2])
		case "wedge":
			workerWedge(a[1])
		case "locks":
			workerLocks(a[1], a[2])
		case "mlife":
			workerMLife(a[1], a[2])
		case "setup":
			workerSetup(a[1], a[2], a[3])
		case "setupgen": // replay / debugging aid: the scenarios of the set-up stream (seed, thorough?) as JSON
			var seed uint64
			fmt.Sscan(a[1], &seed)
			f, sl := genSUSpecs(vhlib.NewRng(seed), a[2] == "thorough")
			b, _ := json.Marshal(append(f, sl...))
			_ = os.WriteFile(a[3], b, 0o644)
		case "mldebug": // replay aid: every log line of one `ml_a + ml_b` request
			mlDebug(a[1])
		case "e2e":
			var seed uint64
			var n int
			fmt.Sscan(a[2], &seed)
			fmt.Sscan(a[3], &n)
			workerE2E(a[1], seed, n, a[4])
		case "parse":
			workerParse(a[1], a[2], a[3])
		case "substrgrid":
			workerSubstrGrid(a[1])
		case "family":
			workerFamily(a[1], a[2], a[3])
		case "evallist": // replay aid: the queries of the eval-function stream as JSON
			m, k, _ := genEvalFn()
			b, _ := json.Marshal(append(m, k...))
			_ = os.WriteFile(a[1], b, 0o644)
			config.InitializeTestingConfig("/tmp/C17_parsedump/")
			for _, q := range append(m, k...) {
				if _, _, _, err := pipesearch.ParseQuery(strings.TrimPrefix(q, "evl::"), 1, "Splunk QL"); err != nil {
					fmt.Println("does not parse:", q)
				}
			}
		case "parse1": // one text, no watchdog inside: the parent's timeout decides
			config.InitializeTestingConfig(filepath.Dir(a[3]) + "/data_parse1/")
			t0 := time.Now()
			_, e := parseOnce(a[1], a[2], 1)
			_ = os.WriteFile(a[3], []byte(fmt.Sprintf("%.2f %v", time.Since(t0).Seconds(), e == nil)), 0o644)
		case "parsedump": // debugging / replay aid: prints the canonical plan dump of two parses
			config.InitializeTestingConfig("/tmp/C17_parsedump/")
			d1, e1 := parseOnce(a[1], a[2], 1)
			d2, e2 := parseOnce(a[1], a[2], 1)
			for k := 0; k < 300 && maskClock(d1) == maskClock(d2); k++ {
				d2, e2 = parseOnce(a[1], a[2], 1)
			}
			d1, d2 = maskClock(d1), maskClock(d2)
			fmt.Println("err1:", e1, "err2:", e2, "equal after masking:", d1 == d2)
			_ = os.WriteFile("/tmp/C17_parsedump/d1.txt", []byte(d1), 0o644)
			_ = os.WriteFile("/tmp/C17_parsedump/d2.txt", []byte(d2), 0o644)
		}
		return
	}
	cfg := vhlib.ParseFlags()
	sum := vhlib.NewSummary("one case = one op sequence against the real query tables (compared with the model after every step), one end-to-end batch, or one batch of query texts per language; distinct = different (kind, MAX_RUNNING_QUERIES, op-kind/result sequence); non-trivial = at least one query waited and at least one terminal event happened")
	r := vhlib.NewRng(cfg.Seed*104729 + 17)
	t0 := time.Now()
	wdir := filepath.Join(cfg.Out, "w")
	_ = os.MkdirAll(wdir, 0o755)

	// ---- sequence specifications ----
	nMain, nTimeout, nBg, nKnown := 240, 6, 8, 6
	stepsMain := 45
	if cfg.Thorough() {
		nMain, nTimeout, nBg, nKnown = 6000, 40, 60, 40
	}
	var batches [][]SeqSpec
	mk := func(kind string, i int) SeqSpec {
		// qids are small numbers; only the timeout stream needs them distinct between the sequences
		// of one worker process (its watchers do fire and look the qid up)
		sp := SeqSpec{Kind: kind, Mx: 1 + r.Intn(3), Seed: r.U64(), Steps: stepsMain + r.Intn(30), Base: 0, Pool: 3 + r.Intn(5)}
		if kind == "timeout" || kind == "saturate_timeout" {
			sp.Base = uint64(i%1000+1) * 10
		}
		if kind == "known_cancel" || kind == "known_delete" {
			sp.Steps = r.Intn(8)
		}
		if kind == "bgpull" {
			sp.Steps = 18 + r.Intn(10)
		}
		if kind == "timeout" {
			sp.Steps = 25 + r.Intn(15)
		}
		if kind == "waitfull" {
			sp.Mx = 1
		}
		return sp
	}
	perBatch := 60
	var cur []SeqSpec
	for i := 0; i < nMain; i++ {
		cur = append(cur, mk("main", i))
		if len(cur) == perBatch {
			batches = append(batches, cur)
			cur = nil
		}
	}
	cur = append(cur, mk("waitfull", nMain))
	batches = append(batches, cur)
	var tb []SeqSpec
	for i := 0; i < nTimeout; i++ {
		tb = append(tb, mk("timeout", 10000+i))
		if len(tb) == 3 {
			batches = append(batches, tb)
			tb = nil
		}
	}
	if len(tb) > 0 {
		batches = append(batches, tb)
	}
	var bb []SeqSpec
	for i := 0; i < nBg; i++ {
		bb = append(bb, mk("bgpull", 20000+i))
		if len(bb) == 4 {
			batches = append(batches, bb)
			bb = nil
		}
	}
	if len(bb) > 0 {
		batches = append(batches, bb)
	}
	// saturated tables: hook-driven puller, the real puller goroutine, real 1 s timeouts
	nSat, nSatBg, nSatT := 30, 4, 2
	if cfg.Thorough() {
		nSat, nSatBg, nSatT = 1500, 24, 9
	}
	var sb []SeqSpec
	for i := 0; i < nSat; i++ {
		sb = append(sb, mk("saturate", 40000+i))
		if len(sb) == perBatch {
			batches = append(batches, sb)
			sb = nil
		}
	}
	if len(sb) > 0 {
		batches = append(batches, sb)
	}
	sb = nil
	for i := 0; i < nSatBg; i++ {
		sb = append(sb, mk("saturate_bg", 41000+i))
		if len(sb) == 4 {
			batches = append(batches, sb)
			sb = nil
		}
	}
	if len(sb) > 0 {
		batches = append(batches, sb)
	}
	sb = nil
	for i := 0; i < nSatT; i++ {
		sb = append(sb, mk("saturate_timeout", 42000+i))
		if len(sb) == 3 {
			batches = append(batches, sb)
			sb = nil
		}
	}
	if len(sb) > 0 {
		batches = append(batches, sb)
	}
	var kb []SeqSpec
	for i := 0; i < nKnown; i++ {
		kb = append(kb, mk([]string{"known_cancel", "known_delete"}[i%2], 30000+i))
	}
	kb = append(kb, mk("known_watcher", 31000))
	batches = append(batches, kb)

	// ---- run everything in parallel worker processes ----
	type job func()
	var mu sync.Mutex
	var wg sync.WaitGroup
	sem := make(chan struct{}, 6)
	spawn := func(f job) {
		wg.Add(1)
		go func() {
			defer wg.Done()
			sem <- struct{}{}
			defer func() { <-sem }()
			f()
		}()
	}
	outs := make([]*stepsOut, len(batches))
	for bi := range batches {
		bi := bi
		spawn(func() {
			in := filepath.Join(wdir, fmt.Sprintf("steps_%d_in.json", bi))
			op := filepath.Join(wdir, fmt.Sprintf("steps_%d.json", bi))
			b, _ := json.Marshal(batches[bi])
			_ = os.WriteFile(in, b, 0o644)
			tail, err := runWorker(280*time.Second, "steps", in, op)
			var so stepsOut
			ob, rerr := os.ReadFile(op)
			if err != nil || rerr != nil || json.Unmarshal(ob, &so) != nil {
				mu.Lock()
				sum.HarnessError(fmt.Sprintf("steps worker %d (%s): %v %s", bi, batches[bi][0].Kind, err, tail))
				mu.Unlock()
				return
			}
			outs[bi] = &so
		})
	}
	// wedge
	var wedge WedgeResult
	wedgeOK := false
	spawn(func() {
		op := filepath.Join(wdir, "wedge.json")
		_, _ = runWorker(20*time.Second, "wedge", op)
		if b, err := os.ReadFile(op); err == nil && json.Unmarshal(b, &wedge) == nil {
			wedgeOK = true
		}
	})
	// e2e
	nE2E, e2eBatches := 300, 2
	if cfg.Thorough() {
		nE2E, e2eBatches = 1500, 6
	}
	e2e := make([]*E2EResult, e2eBatches)
	for i := 0; i < e2eBatches; i++ {
		i := i
		seed := r.U64()
		spawn(func() {
			dir := filepath.Join(wdir, fmt.Sprintf("e2e_%d", i))
			_ = os.MkdirAll(dir, 0o755)
			op := filepath.Join(wdir, fmt.Sprintf("e2e_%d.json", i))
			tail, err := runWorker(150*time.Second, "e2e", dir, fmt.Sprint(seed), fmt.Sprint(nE2E), op)
			var er E2EResult
			b, rerr := os.ReadFile(op)
			if rerr != nil || json.Unmarshal(b, &er) != nil {
				mu.Lock()
				sum.Fail("query_process_died", fmt.Sprintf("end-to-end worker %d ended without a result (%v): %s", i, err, tail), map[string]interface{}{"seed": seed, "n": nE2E})
				mu.Unlock()
				return
			}
			e2e[i] = &er
		})
	}
	// parser robustness
	langs := []string{"Splunk QL", "Pipe QL", "SQL", "ES", "PromQL"}
	nTexts := 2500
	if cfg.Thorough() {
		nTexts = 40000
	}
	pres := make([]*ParseResult, len(langs))
	ptexts := make([][]string, len(langs))
	for li, lang := range langs {
		li, lang := li, lang
		rr := r.Fork()
		ptexts[li] = genTexts(rr, lang, nTexts)
		spawn(func() {
			in := filepath.Join(wdir, fmt.Sprintf("parse_%d_in.json", li))
			op := filepath.Join(wdir, fmt.Sprintf("parse_%d.json", li))
			b, _ := json.Marshal(ptexts[li])
			_ = os.WriteFile(in, b, 0o644)
			to := 100 * time.Second
			if cfg.Thorough() {
				to = 900 * time.Second
			}
			tail, err := runWorker(to, "parse", lang, in, op)
			var pr ParseResult
			ob, rerr := os.ReadFile(op)
			if rerr != nil || json.Unmarshal(ob, &pr) != nil {
				cur, _ := os.ReadFile(op + ".progress")
				cls := "parser_panic"
				if err != nil && strings.Contains(err.Error(), "timeout") {
					cls = "parser_hang"
				}
				mu.Lock()
				sum.Fail(cls, fmt.Sprintf("%s parse worker died (%v) near text %q: %s", lang, err, string(cur), tail), map[string]interface{}{"lang": lang, "near": string(cur)})
				mu.Unlock()
				return
			}
			pres[li] = &pr
		})
	}
	// query families that name absent fields after a transforming command (own processes: a panic in
	// the query goroutine is not recovered anywhere and ends the process)
	nFam := 60
	if cfg.Thorough() {
		nFam = 600
	}
	famMain, famKnown := genFamily(r.Fork(), nFam)
	// lock scenarios: what the senders on a full state channel hold while they wait, and whom that blocks
	nLockMain, nLockTimeout, nLockKnown := 40, 4, 3
	if cfg.Thorough() {
		nLockMain, nLockTimeout, nLockKnown = 1200, 24, 24
	}
	lockRes := runLockStream(r.Fork(), wdir, nLockMain, nLockTimeout, nLockKnown, func(f func()) { spawn(f) })
	// metrics requests (PromQL): cancel / timeout at every moment of their life cycle
	mlRes := runMLStream(r.Fork(), wdir, cfg.Thorough(), func(f func()) { spawn(f) })
	// the set-up of a log query: forced failure / removal of the query at every point of the set-up
	suRes := runSUStream(r.Fork(), wdir, cfg.Thorough(), func(f func()) { spawn(f) })
	var famRes, famKnownRes famResult
	spawn(func() { famRes = runFamily(wdir, "main", famMain) })
	// the real substr on the exhaustive grid start -3..8 x length none,-8..8 x 10 strings of 0..8 bytes
	var grid struct {
		Obs []GridObs `json:"obs"`
		Err string    `json:"err"`
	}
	gridOK := false
	spawn(func() {
		op := filepath.Join(wdir, "substrgrid.json")
		tail, err := runWorker(60*time.Second, "substrgrid", op)
		if b, rerr := os.ReadFile(op); rerr == nil && json.Unmarshal(b, &grid) == nil && grid.Err == "" {
			gridOK = true
		} else {
			mu.Lock()
			sum.HarnessError(fmt.Sprintf("substr grid worker: %v %s %s", err, grid.Err, tail))
			mu.Unlock()
		}
	})
	// eval functions with arguments computed from stored values of boundary lengths
	evMain, evKnown, evFn := genEvalFn()
	var evRes, evKnownRes famResult
	spawn(func() { evRes = runFamily(wdir, "evalfn", evMain) })
	if len(evKnown) > 0 {
		spawn(func() { evKnownRes = runFamily(wdir, "evalfn_known", evKnown) })
	}
	spawn(func() { famKnownRes = runFamily(wdir, "known", famKnown) })

	// known classes: parse time of the two PEG parsers grows exponentially with parenthesis nesting
	type deepCase struct {
		lang, class, deep, shallow, what string
		hang                             bool
		shallowT                         string
	}
	deep := []*deepCase{
		{lang: "Pipe QL", class: "pipeql_paren_nesting_exponential", deep: strings.Repeat("(", 11) + "a=1" + strings.Repeat(")", 11),
			shallow: "((((((a=1))))))", what: "valid query, time grows ~3.6x per nesting level, unbalanced \"((((((((((\" behaves the same"},
		{lang: "Splunk QL", class: "spl_paren_backtracking_exponential", deep: "* | where " + strings.Repeat("(", 14) + "a O" + strings.Repeat(")", 14) + "b",
			shallow: "* | where ((((((a O))))))b", what: "invalid query that should be rejected, time grows ~2.6x per nesting level"},
	}
	for di, dc := range deep {
		di, dc := di, dc
		spawn(func() {
			op := filepath.Join(wdir, fmt.Sprintf("parse1_deep_%d.txt", di))
			_, err := runWorker(8*time.Second, "parse1", dc.lang, dc.deep, op)
			if err != nil && strings.Contains(err.Error(), "timeout") {
				dc.hang = true
			}
			op2 := filepath.Join(wdir, fmt.Sprintf("parse1_shallow_%d.txt", di))
			_, _ = runWorker(30*time.Second, "parse1", dc.lang, dc.shallow, op2)
			b, _ := os.ReadFile(op2)
			dc.shallowT = string(b)
		})
	}
	wg.Wait()
	for _, dc := range deep {
		sum.Eval("parse1/"+dc.class, true)
		if dc.hang {
			sum.Fail(dc.class, fmt.Sprintf("%s text %q (%d bytes) is neither parsed nor rejected within 8 s; %q took [seconds accepted] = [%s] (%s)", dc.lang, dc.deep, len(dc.deep), dc.shallow, dc.shallowT, dc.what),
				map[string]interface{}{"lang": dc.lang, "text": dc.deep})
		}
	}

	for _, fr := range []struct {
		res   famResult
		known bool
	}{{famRes, false}, {famKnownRes, true}} {
		for _, q := range fr.res.Order {
			o, ok := fr.res.Outcomes[q]
			if !ok {
				continue
			}
			sum.Eval("family/"+q, true)
			kind := o
			if strings.HasPrefix(o, "crash") {
				kind = "crash"
			}
			sum.Count("family_outcome/" + kind)
			c := map[string]interface{}{"language": "Splunk QL", "query": q, "data": "6 events {a:v0..v2, b:0..5, c:x}, one flush"}
			switch {
			case strings.HasPrefix(o, "crash") && fr.known:
				cls := "query_panics_process_dedup_absent_field"
				if strings.Contains(q, "sort") {
					cls = "query_panics_process_tail_sort_absent_field"
				}
				sum.Fail(cls, fmt.Sprintf("query %q over 6 flushed events ends the whole process: %s", q, o), c)
			case strings.HasPrefix(o, "crash"):
				sum.Fail("query_panics_process", fmt.Sprintf("query %q over 6 flushed events ends the whole process: %s", q, o), c)
			case strings.HasPrefix(o, "panic"):
				sum.Fail("query_panic", fmt.Sprintf("query %q: %s", q, o), c)
			case strings.HasPrefix(o, "no answer"):
				sum.Fail("query_not_answered", fmt.Sprintf("query %q: %s", q, o), c)
			}
		}
	}

	for _, fr := range []famResult{evRes, evKnownRes} {
		for _, q := range fr.Order {
			o, ok := fr.Outcomes[q]
			if !ok {
				continue
			}
			expr := strings.TrimPrefix(q, "evl::* | eval r=")
			fn := evFn[q] // the group; the class names the outermost function of the expression when there is one
			if i := strings.IndexAny(expr, "( "); i > 0 && expr[i] == '(' && !strings.ContainsAny(expr[:i], "+-*/%.\"") {
				fn = expr[:i]
			}
			sum.Eval("evalfn/"+q, true)
			kind := o
			if strings.HasPrefix(o, "crash") {
				kind = "crash"
			}
			sum.Count("evalfn_outcome/" + kind)
			sum.Count("evalfn/" + fn + "/" + kind)
			c := map[string]interface{}{"language": "Splunk QL", "query": strings.TrimPrefix(q, "evl::"), "function": fn,
				"data": fmt.Sprintf("index with fields s in %q and n in %v (all pairs), one flush", evalStrings, evalNumbers)}
			switch {
			case strings.HasPrefix(o, "crash"):
				cls := "eval_function_panics_on_stored_data_" + fn
				if k, isK := evalFnKnown[expr]; isK {
					cls = k
				}
				sum.Fail(cls, fmt.Sprintf("`* | eval r=%s` over stored strings of boundary lengths ends the whole process: %s", expr, o), c)
			case strings.HasPrefix(o, "panic"):
				sum.Fail("eval_function_panics_on_stored_data_"+fn, fmt.Sprintf("`* | eval r=%s`: %s", expr, o), c)
			case strings.HasPrefix(o, "no answer"):
				sum.Fail("eval_function_not_answered_"+fn, fmt.Sprintf("`* | eval r=%s`: %s", expr, o), c)
			}
		}
	}

	if gridOK {
		coqZ := func(n int) string {
			if n < 0 {
				return fmt.Sprintf("(%d)%%Z", n)
			}
			return fmt.Sprintf("%d%%Z", n)
		}
		items := make([]string, 0, len(grid.Obs))
		for _, o := range grid.Obs {
			sum.Eval(fmt.Sprintf("substrgrid/%d/%d/%v/%d", len(o.S), o.Start, o.HasL, o.Len), true)
			sum.Count(fmt.Sprintf("substr_grid/outcome_%d", o.Code))
			ln := "None"
			if o.HasL {
				ln = "(Some " + coqZ(o.Len) + ")"
			}
			items = append(items, fmt.Sprintf("(%s, %s, %s, %d, %s)", vhlib.CoqBytes(o.S), coqZ(o.Start), ln, o.Code, vhlib.CoqBytes(o.Res)))
			if o.Code == 2 {
				sum.Fail("eval_function_panics_on_stored_data_substr", fmt.Sprintf("TextExpr.EvaluateText substr(%q, %d, length=%v %d) panics: %s (in a query this ends the process)", o.S, o.Start, o.HasL, o.Len, o.Msg),
					map[string]interface{}{"function": "substr", "string": o.S, "start": o.Start, "has_length": o.HasL, "length": o.Len})
			}
		}
		sum.WriteCaseFile(cfg.Out, "cases_substr_grid", "From SigM Require Import Base EvalIdx EvalIdxCheck.\nFrom Coq Require Import ZArith.",
			"Definition grid : list (list N * Z * option Z * N * list N) := "+vhlib.CoqListNL(items)+".\n", "check_grid grid O", len(items))
	}

	// ---- evaluate step streams ----
	var traces []string
	nseq := 0
	flush := func(final bool) {
		for len(traces) >= 40 || (final && len(traces) > 0) {
			k := 40
			if len(traces) < k {
				k = len(traces)
			}
			name := fmt.Sprintf("cases_%03d", len(sum.CaseFiles))
			sum.WriteCaseFile(cfg.Out, name, "From SigM Require Import Base QueryLife QueryLifeCheck.",
				"Definition cases : list (N * list (top * obs)) := "+vhlib.CoqListNL(traces[:k])+".\n"+
					"Definition selfcheck := forallb (fun c => bounds_hold (N.to_nat (fst c)) init (map fst (snd c))) cases.\n",
				"(if selfcheck then [] else [999%nat]) ++ check_cases_n cases O", k)
			traces = traces[k:]
		}
	}
	for _, so := range outs {
		if so == nil {
			continue
		}
		if so.InitMax < 2 || so.InitMax > so.GoMax && so.InitMax != 2 {
			sum.Fail("admission_limit_config", fmt.Sprintf("InitMaxRunningQueries gave %d with GOMAXPROCS %d", so.InitMax, so.GoMax), nil)
		}
		for _, res := range so.Results {
			nseq++
			if res.Err != "" {
				sum.HarnessError("sequence " + res.Spec.Kind + ": " + res.Err)
				for _, f := range res.Fails { // what the oracle saw before / besides the harness problem is still reported
					sum.Fail(f.Class, f.Detail, f.Case)
				}
				continue
			}
			if res.Skip != "" {
				sum.Count("skipped/" + res.Skip)
				continue
			}
			waited, term := false, false
			var key strings.Builder
			fmt.Fprintf(&key, "%s/%d/", res.Spec.Kind, res.Spec.Mx)
			for _, s := range res.Steps {
				sum.Count("op/" + strings.TrimPrefix(s.Op, "then:"))
				if s.NWait > 0 {
					waited = true
				}
				if s.Op == "cancel" || s.Op == "complete" || s.Op == "fail" || s.Op == "fireall" {
					term = true
				}
				fmt.Fprintf(&key, "%c%d", s.Op[0], s.Out)
			}
			sum.Count("seq/" + res.Spec.Kind)
			sum.Count(fmt.Sprintf("max_running/%d", res.Spec.Mx))
			sum.Eval(key.String(), waited && term)
			for _, f := range res.Fails {
				sum.Fail(f.Class, f.Detail, f.Case)
			}
			if len(sum.Samples) < 2 && res.Spec.Kind == "main" {
				ops := []string{}
				for _, s := range res.Steps {
					if len(ops) < 25 {
						ops = append(ops, opString(s))
					}
				}
				sum.Sample(map[string]interface{}{"kind": res.Spec.Kind, "max_running": res.Spec.Mx, "first_ops": ops})
			}
			traces = append(traces, coqTrace(res))
			flush(false)
		}
	}
	flush(true)

	// ---- lock scenarios ----
	evalLockStream(sum, cfg.Out, wdir, lockRes)

	// ---- metrics life cycle ----
	evalMLStream(sum, cfg.Out, mlRes)

	// ---- set-up of a query ----
	evalSUStream(sum, cfg.Out, suRes)

	// ---- wedge (known class, own process) ----
	if wedgeOK {
		sum.Eval("wedge", true)
		sum.Count("seq/wedge")
		// repaired class cancel_blocks_on_full_state_channel: the 9th cancel may wait for the
		// receiver (CANCELLED is sent with no lock held), but no OTHER query may be blocked by it
		if wedge.OtherStartBlocked || wedge.CountBlocked {
			sum.Fail("cancel_blocks_on_full_state_channel", fmt.Sprintf("StartQuery(1, forceRun=true) with no consumer; CancelQuery(1) x9: %d calls return, the 9th waits in `StateChan <- CANCELLED` (10/10); meanwhile StartQuery of another query blocked=%v, DeleteQuery of a third qid blocked=%v (a table lock is held across the send); everything resumed after one receive=%v", wedge.CancelsReturned, wedge.OtherStartBlocked, wedge.CountBlocked, wedge.ReleasedByRecv),
				map[string]interface{}{"ops": "Start 1 false true; Cancel 1 x9; Start 2 false false; Delete 3"})
		}
		if wedge.CancelsReturned < 8 {
			sum.Fail("cancel_blocks_unexpectedly", fmt.Sprintf("cancel scenario: only %d of the first 8 cancels returned although the channel had room", wedge.CancelsReturned), nil)
		}
		// the model's prediction for this history is checked in Coq as well: nobody else is blocked
		sum.WriteCaseFile(cfg.Out, "cases_wedge", "From SigM Require Import Base QueryLife QueryLifeCheck.",
			fmt.Sprintf("Definition h (k : nat) := Start 1 false true :: repeat (Cancel 1) k.\nDefinition others_blocked := wedged (run 2 init (h 9)).\nDefinition room8 := Nat.eqb (length (concat (map e_chan (running (run 2 init (h 8)))))) 10.\nDefinition obs_blocked := %s.\nDefinition obs8 := %s.\n",
				vhlib.CoqBool(wedge.OtherStartBlocked || wedge.CountBlocked), vhlib.CoqBool(wedge.CancelsReturned >= 8)),
			"(if Bool.eqb others_blocked obs_blocked then [] else [9%nat]) ++ (if Bool.eqb room8 obs8 then [] else [8%nat])", 1)
	} else {
		sum.HarnessError("wedge worker gave no result")
	}

	// ---- end-to-end ----
	for i, er := range e2e {
		if er == nil {
			continue
		}
		if er.Err != "" {
			sum.HarnessError("e2e: " + er.Err)
			continue
		}
		sum.Eval(fmt.Sprintf("e2e/%d/%v", i, er.Outcomes), er.MaxWaitSeen > 0 && er.Cancels > 0)
		sum.Evaluations += er.Queries - 1
		sum.Count("seq/e2e_batch")
		for k, v := range er.Outcomes {
			sum.Distribution["e2e_outcome/"+k] += v
		}
		sum.Distribution["e2e_cancel_requests"] += er.Cancels
		c := map[string]interface{}{"batch": i, "queries": er.Queries}
		if len(er.Stuck) > 0 {
			sum.Fail("query_not_answered", fmt.Sprintf("%d queries did not return within 60 s: %v", len(er.Stuck), er.Stuck), c)
		}
		if len(er.Panics) > 0 {
			sum.Fail("query_panic", fmt.Sprintf("%v", er.Panics), c)
		}
		if er.MaxActiveSeen > er.Mx {
			sum.Fail("admission_limit_exceeded", fmt.Sprintf("end-to-end: %d entries in allRunningQueries seen with MAX_RUNNING_QUERIES=%d and no forced start", er.MaxActiveSeen, er.Mx), c)
		}
		if er.ActiveAfter != 0 || er.WaitingAfter != 0 {
			sum.Fail("entry_leaked_after_terminal", fmt.Sprintf("end-to-end: after %d queries (%d cancel requests) all returned: %d running, %d waiting entries remain", er.Queries, er.Cancels, er.ActiveAfter, er.WaitingAfter), c)
		}
		// goroutines: watchers of cancelled queries are the known class; anything else that grew is a leak
		other := 0
		var sigs []string
		for k, v := range er.NewSigs {
			if strings.Contains(k, "setupTimeoutCancelFunc") {
				continue
			}
			other += v
			sigs = append(sigs, fmt.Sprintf("%s x%d", k, v))
		}
		sort.Strings(sigs)
		sum.Notes = append(sum.Notes, fmt.Sprintf("e2e batch %d: %d queries %v, %d cancel requests, max running seen %d (limit %d), max waiting seen %d; afterwards tables %d/%d, goroutines %d -> %d (timeout watchers left: %d; other new: %v) [observed only]",
			i, er.Queries, er.Outcomes, er.Cancels, er.MaxActiveSeen, er.Mx, er.MaxWaitSeen, er.ActiveAfter, er.WaitingAfter, er.GorBase, er.GorAfter, er.WatchersAfter, sigs))
		if er.WatchersAfter > 0 {
			sum.Fail("cancelled_query_watcher_lingers", fmt.Sprintf("end-to-end: %d setupTimeoutCancelFunc goroutines alive after all %d queries returned and both tables are empty", er.WatchersAfter, er.Queries), c)
		}
		if other > 3 {
			sum.Fail("query_goroutine_leak", fmt.Sprintf("end-to-end: %d goroutines more than before the batch besides timeout watchers: %v", other, sigs), c)
		}
	}

	// ---- parser robustness ----
	for li, pr := range pres {
		if pr == nil {
			continue
		}
		lang := langs[li]
		sum.Eval("parse/"+lang, true)
		sum.Evaluations += pr.N - 1
		sum.Distribution["parse/"+lang+"/accepted"] += pr.Ok
		sum.Distribution["parse/"+lang+"/rejected"] += pr.Rejected
		for _, p := range pr.Panics {
			sum.Fail("parser_panic", lang+": "+p, map[string]interface{}{"lang": lang, "text": p})
		}
		for _, p := range pr.NondetMK {
			sum.Fail("es_multi_key_query_object_map_order", "ES (mutated text): two parses of the same text differ (plan or accept/reject): "+p, map[string]interface{}{"lang": lang, "text": p})
		}
		if pr.KnownDistinct >= 2 {
			sum.Eval("parse/es_multikey", true)
			sum.Fail("es_multi_key_query_object_map_order", fmt.Sprintf("ES body %s parsed 40 times gives %d different plans (match_all or match city=Lima, following Go's map iteration order); Elasticsearch rejects such a body", esMultiKeyText, pr.KnownDistinct), map[string]interface{}{"lang": "ES", "text": esMultiKeyText})
		}
		for _, p := range pr.Nondet {
			sum.Fail("plan_nondeterministic", lang+": two parses of the same text gave different plans: "+p, map[string]interface{}{"lang": lang, "text": p})
		}
		for _, p := range pr.Slow {
			sum.Fail("parser_hang", lang+": "+p, map[string]interface{}{"lang": lang, "text": p})
		}
	}
	sum.Notes = append(sum.Notes,
		"PARTIAL: the parser / evaluator half of C17 (any byte string is parsed or rejected, same plan, process keeps running) is exercised by the robustness stream only; it is NOT covered by any theorem",
		"goroutine counts are observations (runtime.NumGoroutine / goroutine dump after a settling time), not proof",
		fmt.Sprintf("%d op sequences, wall %.1fs", nseq, time.Since(t0).Seconds()))
	sum.Write(cfg.Out)
}

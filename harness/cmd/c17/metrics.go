// c17, part (2c): the life cycle of METRICS queries (PromQL) under cancel / timeout at every moment.
//
// The real executors segment.ExecuteMetricsQuery (one selector; otsdb and some PromQL endpoints) and
// segment.ExecuteMultipleMetricsQuery (what the PromQL instant / range endpoints call for every request:
// one admission + one state-manager goroutine per vector selector) run over a small rotated metrics
// segment.  The harness plays the puller (hook VerifPullOnce) and holds the search of every sub-query
// at a gate (a logrus hook on a warning the tags-tree reader prints for a stray directory in the
// tags-tree base directory: the search itself is healthy), so that a CancelQuery or the real timeout
// watcher (1 s) arrives at a chosen moment: while the sub-query waits for admission, while sub-query k
// searches (state-manager goroutine given the time to act, or not), or after the answer.
//
// Oracle (property text: "exactly one terminal state, after which no entry in the running or waiting
// tables and no goroutine of it remains; cancellation or timeout at any moment ... admission limits"):
// the request must be answered; afterwards no entry of any of its qids may be in allRunningQueries /
// waitingQueries, no segment.manageStateForMetricsQuery goroutine and no timeout watcher may be left,
// and a following plain request must be admitted (MAX_RUNNING_QUERIES = 1: a slot that was not given
// back stops it).  Correspondence: the schedule the harness imposed is written as a list of model
// operations (MetricsLife.mstep) with the observed tables / goroutine counts at every checkpoint.
package main

import (
	"encoding/json"
	"fmt"
	"os"
	"path/filepath"
	"sort"
	"strings"
	"sync"
	"time"

	"github.com/siglens/siglens/pkg/config"
	"github.com/siglens/siglens/pkg/integrations/prometheus/promql"
	"github.com/siglens/siglens/pkg/segment"
	"github.com/siglens/siglens/pkg/segment/memory/limit"
	"github.com/siglens/siglens/pkg/segment/query"
	"github.com/siglens/siglens/pkg/segment/results/mresults"
	"github.com/siglens/siglens/pkg/segment/structs"
	sutils "github.com/siglens/siglens/pkg/segment/utils"
	"github.com/siglens/siglens/pkg/segment/writer"
	"github.com/siglens/siglens/pkg/segment/writer/metrics"
	"github.com/siglens/siglens/pkg/segment/writer/metrics/meta"
	log "github.com/sirupsen/logrus"

	"verifharness/vhlib"
)

const mlT0 = uint32(1700000000)
const mlWindow = 300

var mlMetricNames = []string{"ml_a", "ml_b", "ml_c", "ml_d"}

const mlGateMsg = "InitAllTagsTreeReader: found a directory"

// ---------------------------------------------------------------------------
// gate: a logrus hook; every occurrence of the gate line in a goroutine of the executor is a "hit"
// ---------------------------------------------------------------------------

type mlGate struct {
	mu      sync.Mutex
	armed   bool
	hits    int
	reached chan int      // hit number, sent when a goroutine arrives at the gate
	release chan struct{} // one token per held goroutine
	trace   bool
}

func (g *mlGate) Levels() []log.Level { return log.AllLevels }

func (g *mlGate) Fire(e *log.Entry) error {
	if g.trace {
		fmt.Fprintf(os.Stderr, "LOG[%s] %s\n", e.Level, e.Message)
	}
	if !strings.HasPrefix(e.Message, mlGateMsg) {
		return nil
	}
	g.mu.Lock()
	if !g.armed {
		g.mu.Unlock()
		return nil
	}
	g.hits++
	h := g.hits
	g.mu.Unlock()
	g.reached <- h
	<-g.release
	return nil
}

var theGate = &mlGate{reached: make(chan int, 64), release: make(chan struct{}, 64)}

// ---------------------------------------------------------------------------
// data: one rotated metrics segment with four metrics x three series, and a stray directory in every
// tags-tree base directory (the gate)
// ---------------------------------------------------------------------------

func initMetricsNode(dir string) error {
	cfg := config.GetTestConfig(dir + "/")
	cfg.SSInstanceName = "test"
	config.SetConfig(cfg)
	if err := config.InitDerivedConfig("test"); err != nil {
		return err
	}
	limit.InitMemoryLimiter()
	metrics.InitTestingConfig()
	if err := meta.InitMetricsMeta(); err != nil {
		return err
	}
	for mi, name := range mlMetricNames {
		for s := 0; s < 3; s++ {
			for t := 0; t < 20; t++ {
				raw := fmt.Sprintf(`{"metric":"%s","tags":{"host":"h%d","dc":"d%d"},"timestamp":%d,"value":%d}`,
					name, s, s%2, mlT0+uint32(10+t*10), (mi+1)*100+s*10+t)
				if err := writer.AddTimeSeriesEntryToInMemBuf([]byte(raw), sutils.SIGNAL_METRICS_OTSDB, 0); err != nil {
					return err
				}
			}
		}
	}
	for _, mSeg := range metrics.GetAllMetricsSegments() {
		if err := mSeg.CheckAndRotate(true); err != nil {
			return err
		}
	}
	metrics.ResetMetricsSegStore_TestOnly()
	if err := query.PopulateMetricsMetadataForTheFile_TestOnly(meta.GetLocalMetricsMetaFName()); err != nil {
		return err
	}
	// the gate: a directory inside every tags-tree base directory
	n := 0
	tths, _ := filepath.Glob(filepath.Join(dir, "*", "final", "tth", "*", "*"))
	for _, p := range tths {
		if st, err := os.Stat(p); err == nil && st.IsDir() {
			if os.MkdirAll(filepath.Join(p, "zz_gate"), 0o755) == nil {
				n++
			}
		}
	}
	if n == 0 {
		return fmt.Errorf("no tags-tree base directory found under %s", dir)
	}
	return nil
}

func mlDebug(dir string) {
	log.SetLevel(log.TraceLevel)
	if err := initMetricsNode(dir); err != nil {
		fmt.Println("init:", err)
		return
	}
	_ = filepath.Walk(dir, func(p string, info os.FileInfo, err error) error {
		if err == nil {
			fmt.Println(p)
		}
		return nil
	})
	theGate.trace = true
	log.AddHook(theGate)
	query.InitMaxRunningQueries()
	done := make(chan *mresults.MetricsResult, 1)
	go func() {
		reqs, _, ariths, err := promql.ConvertPromQLToMetricsQuery("ml_a + ml_b", mlT0, mlT0+mlWindow, 0)
		fmt.Println("parse:", err, len(reqs), len(ariths))
		hashes := []uint64{}
		mqs := []*structs.MetricsQuery{}
		for i := range reqs {
			hashes = append(hashes, reqs[i].MetricsQuery.QueryHash)
			mqs = append(mqs, &reqs[i].MetricsQuery)
		}
		done <- segment.ExecuteMultipleMetricsQuery(hashes, mqs, ariths, &reqs[0].TimeRange, 777, false)
	}()
	for {
		select {
		case r := <-done:
			fmt.Println("result:", r.ErrList, len(r.Results))
			return
		default:
		}
		if len(query.VerifWaiting()) > 0 {
			fmt.Println("pull:", query.VerifPullOnce())
		}
		time.Sleep(time.Millisecond)
	}
}

// ---------------------------------------------------------------------------
// scenarios
// ---------------------------------------------------------------------------

type MLSpec struct {
	ID      int    `json:"id"`
	Kind    string `json:"kind"`  // single = ExecuteMetricsQuery | multi = ExecuteMultipleMetricsQuery (as the PromQL endpoints call it)
	Query   string `json:"query"` // PromQL
	Event   string `json:"event"` // none | cancel | timeout
	At      string `json:"at"`    // waiting | search | after | race
	Sub     int    `json:"sub"`   // the event hits selector Sub mod (number of selectors)
	Hit     int    `json:"hit"`   // ... at gate hit 1 + Hit mod (hits per selector) of its search
	Hold    bool   `json:"hold"`  // the search stays at the gate until the state manager has acted (imposed schedule, compared with the model)
	Cancels int    `json:"cancels"`
	DelayUs int    `json:"delay_us"` // race: delay between the admission of the selector and the cancel
}

type MLCp struct {
	Label string   `json:"label"`
	Ops   []string `json:"ops"` // model operations since the previous checkpoint (Coq terms)
	Run   []Ent    `json:"run"`
	Wait  []uint64 `json:"wait"`
	Mgrs  int      `json:"mgrs"`
	Watch int      `json:"watch"`
	Res   int      `json:"res"`
}

type MLResult struct {
	Spec      MLSpec   `json:"spec"`
	NSub      int      `json:"nsub"`
	HitsPer   int      `json:"hits_per"`
	Qids      []uint64 `json:"qids"`
	Cps       []MLCp   `json:"cps"`
	Res       int      `json:"res"`
	ResText   string   `json:"res_text"`
	Exact     bool     `json:"exact"`     // the schedule was imposed and observed completely: compared with the model
	Effective bool     `json:"effective"` // the event met a query that was waiting or running
	Sched     []string `json:"sched"`     // what the harness did, in words
	Fails     []Fail   `json:"fails"`
	Skip      string   `json:"skip,omitempty"`
	Err       string   `json:"err,omitempty"`
}

func (s MLSpec) String() string {
	ev := "no cancel / timeout"
	switch s.Event {
	case "cancel":
		ev = fmt.Sprintf("CancelQuery x%d", s.Cancels)
	case "timeout":
		ev = "query timeout 1 s (real watcher)"
	}
	at := ""
	switch s.At {
	case "waiting":
		at = fmt.Sprintf(" while selector %d waits for admission", s.Sub)
	case "search":
		at = fmt.Sprintf(" while selector %d searches (gate hit %d), state manager given time to act=%v", s.Sub, s.Hit, s.Hold)
	case "after":
		at = " after the answer"
	case "race":
		at = fmt.Sprintf(" %d us after the admission of selector %d (no gate)", s.DelayUs, s.Sub)
	}
	fn := "ExecuteMultipleMetricsQuery"
	if s.Kind == "single" {
		fn = "ExecuteMetricsQuery"
	}
	return fmt.Sprintf("PromQL `%s` through %s, MAX_RUNNING_QUERIES=1; %s%s", s.Query, fn, ev, at)
}

func mgrGoroutines() (n int, idle bool) {
	idle = true
	for _, g := range strings.Split(allStacks(), "\n\n") {
		if !strings.Contains(g, "segment.manageStateForMetricsQuery(") {
			continue
		}
		n++
		k := strings.IndexByte(g, '\n')
		if k < 0 || !strings.Contains(g[:k], "[chan receive") {
			idle = false
		}
	}
	return
}

// the state managers have nothing left to do: each of them waits in its channel receive and every
// state channel of a running query is empty (two consecutive polls), or the limit has passed
func mlSettle(limit time.Duration) bool {
	t0 := time.Now()
	same := 0
	for time.Since(t0) < limit {
		_, idle := mgrGoroutines()
		ok := idle
		if ok {
			for _, e := range query.VerifRunning() {
				if e.ChanLen != 0 {
					ok = false
				}
			}
		}
		if ok {
			same++
			if same >= 2 {
				return true
			}
		} else {
			same = 0
		}
		time.Sleep(300 * time.Microsecond)
	}
	return false
}

func mlResCode(kind string, r *mresults.MetricsResult) (int, string) {
	if r == nil {
		return 8, "nil result"
	}
	if len(r.ErrList) == 0 {
		return 1, ""
	}
	var txt []string
	for _, e := range r.ErrList {
		if e != nil {
			txt = append(txt, e.Error())
		}
	}
	all := strings.Join(txt, "; ")
	switch {
	case strings.Contains(all, "query is cancelled") || strings.Contains(all, "query cancelled"):
		return 2, all
	case strings.Contains(all, "Did not receive ready state"):
		return 3, all
	case strings.Contains(all, "Error initializing query status"):
		return 4, all
	}
	return 7, all
}

type mlExec struct {
	done chan struct{}
	res  *mresults.MetricsResult
	pan  string
}

func (x *mlExec) returned() bool {
	select {
	case <-x.done:
		return true
	default:
		return false
	}
}

// parse as the endpoints do and start the executor goroutine; nsub = number of selectors that run
func mlLaunch(kind, text string, qid uint64) (*mlExec, int, error) {
	reqs, _, ariths, err := promql.ConvertPromQLToMetricsQuery(text, mlT0, mlT0+mlWindow, 0)
	if err != nil || len(reqs) == 0 {
		return nil, 0, fmt.Errorf("parse %q: %v (%d requests)", text, err, len(reqs))
	}
	x := &mlExec{done: make(chan struct{})}
	seen := map[uint64]bool{}
	hashes := make([]uint64, 0, len(reqs))
	mqs := make([]*structs.MetricsQuery, 0, len(reqs))
	for i := range reqs {
		reqs[i].MetricsQuery.Downsampler.Interval = 10
		reqs[i].MetricsQuery.Downsampler.Unit = "s"
		seen[reqs[i].MetricsQuery.QueryHash] = true
		hashes = append(hashes, reqs[i].MetricsQuery.QueryHash)
		mqs = append(mqs, &reqs[i].MetricsQuery)
	}
	nsub := len(seen)
	if kind == "single" {
		nsub = 1
	}
	go func() {
		defer close(x.done)
		defer func() {
			if r := recover(); r != nil {
				x.pan = fmt.Sprint(r)
			}
		}()
		if kind == "single" {
			x.res = segment.ExecuteMetricsQuery(mqs[0], &reqs[0].TimeRange, qid)
		} else {
			x.res = segment.ExecuteMultipleMetricsQuery(hashes, mqs, ariths, &reqs[len(reqs)-1].TimeRange, qid, false)
		}
	}()
	return x, nsub, nil
}

type mlRunner struct {
	res      *MLResult
	x        *mlExec
	known    map[uint64]bool
	ops      []string
	baseMgr  int
	baseWat  int
	patience time.Duration
}

func (m *mlRunner) op(format string, a ...interface{}) {
	m.ops = append(m.ops, fmt.Sprintf(format, a...))
}
func (m *mlRunner) say(format string, a ...interface{}) {
	m.res.Sched = append(m.res.Sched, fmt.Sprintf(format, a...))
}
func (m *mlRunner) drainOps() {
	for _, q := range m.res.Qids {
		for k := 0; k < 3; k++ {
			m.op("(MStep %d)", q)
		}
	}
}

func (m *mlRunner) checkpoint(label string) {
	cp := MLCp{Label: label, Ops: m.ops, Res: 0}
	m.ops = nil
	for _, e := range query.VerifRunning() {
		cp.Run = append(cp.Run, Ent{Q: e.Qid, C: e.Cancelled, L: e.ChanLen})
	}
	for _, e := range query.VerifWaiting() {
		cp.Wait = append(cp.Wait, e.Qid)
	}
	n, _ := mgrGoroutines()
	cp.Mgrs = n - m.baseMgr
	cp.Watch = watcherCountSettled() - m.baseWat
	if m.x.returned() {
		cp.Res, _ = mlResCode(m.res.Spec.Kind, m.x.res)
	}
	m.res.Cps = append(m.res.Cps, cp)
}

// next thing the executor does: "gate" (hit number), "queued" (a new qid in the waiting queue), "returned", "stuck"
func (m *mlRunner) next() (string, uint64) {
	t0 := time.Now()
	for time.Since(t0) < m.patience {
		select {
		case h := <-theGate.reached:
			return "gate", uint64(h)
		case <-m.x.done:
			// a gate hit may have been signalled just before
			select {
			case h := <-theGate.reached:
				return "gate", uint64(h)
			default:
			}
			return "returned", 0
		default:
		}
		for _, e := range query.VerifWaiting() {
			if !m.known[e.Qid] {
				m.known[e.Qid] = true
				return "queued", e.Qid
			}
		}
		time.Sleep(150 * time.Microsecond)
	}
	return "stuck", 0
}

func inRunning(q uint64) (query.VerifEntry, bool) {
	for _, e := range query.VerifRunning() {
		if e.Qid == q {
			return e, true
		}
	}
	return query.VerifEntry{}, false
}

func mlEventName(ev string) string {
	if ev == "none" || ev == "" {
		return "completion"
	}
	return ev
}

// releases every goroutine held at the gate and disarms it
func mlOpenGate() {
	theGate.mu.Lock()
	theGate.armed = false
	theGate.mu.Unlock()
	for {
		select {
		case <-theGate.reached:
			theGate.release <- struct{}{}
		default:
			return
		}
	}
}

func runMLScenario(sp MLSpec, hitsPer int) (res *MLResult) {
	res = &MLResult{Spec: sp, HitsPer: hitsPer}
	m := &mlRunner{res: res, known: map[uint64]bool{}, patience: 12 * time.Second}
	defer func() {
		if r := recover(); r != nil {
			res.Err = fmt.Sprintf("harness panic: %v", r)
		}
		mlOpenGate()
		config.SetQueryTimeoutSecs(300)
	}()
	// a clean start: nothing in the tables; goroutines left by earlier (failed) scenarios are the baseline
	for _, e := range query.VerifRunning() {
		query.DeleteQuery(e.Qid)
	}
	for _, e := range query.VerifWaiting() {
		query.DeleteQuery(e.Qid)
	}
	m.baseMgr, _ = mgrGoroutines()
	m.baseWat = watcherCountSettled()
	query.MAX_RUNNING_QUERIES = 1
	config.SetQueryTimeoutSecs(300)
	gated := sp.At != "race"
	theGate.mu.Lock()
	theGate.armed = gated
	theGate.hits = 0
	theGate.mu.Unlock()

	qid0 := uint64(5000000 + sp.ID*100)
	x, nsub, err := mlLaunch(sp.Kind, sp.Query, qid0)
	if err != nil {
		res.Err = err.Error()
		return
	}
	m.x = x
	res.NSub = nsub
	sub := sp.Sub % nsub
	hit := 1 + sp.Hit%hitsPer
	res.Spec.Sub, res.Spec.Hit = sub, hit
	res.Exact = sp.Hold || sp.Event == "none" || sp.At == "waiting" || sp.At == "after"
	evName := mlEventName(sp.Event)
	fail := func(class, detail string) {
		res.Fails = append(res.Fails, Fail{Class: class, Detail: res.Spec.String() + ": " + detail,
			Case: map[string]interface{}{"spec": res.Spec, "qids": res.Qids, "schedule": res.Sched}})
	}
	doCancel := func(q uint64) {
		for k := 0; k < sp.Cancels; k++ {
			query.CancelQuery(q)
			m.op("(ECancel %d)", q)
		}
		m.say("CancelQuery(%d) x%d", q, sp.Cancels)
	}

	cur := -1 // index of the selector the executor works on
	hitsInSub := 0
	evDone := false
	stuck := false
loop:
	for {
		what, v := m.next()
		switch what {
		case "stuck":
			stuck = true
			break loop
		case "returned":
			m.op("XStep") // the last selector: ApplyMetricsQuery returned, COMPLETE sent or early return
			m.op("XStep") // nothing left to start
			break loop
		case "queued":
			cur++
			hitsInSub = 0
			res.Qids = append(res.Qids, v)
			if cur > 0 {
				m.op("XStep") // the previous selector: ApplyMetricsQuery returned, COMPLETE sent
				_ = mlSettle(2 * time.Second)
				for k := 0; k < 3; k++ {
					m.op("(MStep %d)", res.Qids[cur-1])
				}
				m.op("XStep") // PStart with another selector left
			} else {
				m.op("XStep")
			}
			m.say("selector %d: StartQuery(%d) queued", cur, v)
			if res.Exact {
				m.checkpoint(fmt.Sprintf("selector %d queued", cur))
			}
			if sp.Event == "cancel" && sp.At == "waiting" && cur == sub && !evDone {
				evDone, res.Effective = true, true
				doCancel(v)
				continue // the executor reads CANCELLED instead of READY and returns
			}
			if sp.Event == "timeout" && cur == sub {
				config.SetQueryTimeoutSecs(1)
			}
			// the puller: one iteration admits it as soon as the slot is free
			adm := false
			for t0 := time.Now(); time.Since(t0) < m.patience; time.Sleep(150 * time.Microsecond) {
				if query.VerifPullOnce() {
					adm = true
					break
				}
				if m.x.returned() {
					break
				}
			}
			config.SetQueryTimeoutSecs(300)
			if !adm {
				m.say("selector %d (qid %d) was not admitted", cur, v)
				stuck = true
				break loop
			}
			m.op("EPull")
			m.say("puller admits %d", v)
			if sp.At == "race" && sp.Event == "cancel" && cur == sub && !evDone {
				evDone = true
				time.Sleep(time.Duration(sp.DelayUs) * time.Microsecond)
				_, res.Effective = inRunning(v)
				doCancel(v)
			}
		case "gate":
			hitsInSub++
			q := res.Qids[cur]
			if hitsInSub == 1 {
				m.op("XStep") // READY received, state manager started, search running
				if res.Exact && !(sp.Event == "timeout" && cur == sub) {
					_ = mlSettle(2 * time.Second)
					for k := 0; k < 2; k++ {
						m.op("(MStep %d)", q)
					}
					m.checkpoint(fmt.Sprintf("selector %d searching", cur))
				}
			}
			if sp.At == "search" && cur == sub && hitsInSub == hit && !evDone {
				evDone = true
				switch sp.Event {
				case "cancel":
					_, res.Effective = inRunning(q)
					doCancel(q)
				case "timeout":
					// the real watcher: TIMEOUT, then CancelQuery
					m.say("search of %d held until its 1 s timeout watcher has fired", q)
					for t0 := time.Now(); time.Since(t0) < 6*time.Second; time.Sleep(2 * time.Millisecond) {
						e, in := inRunning(q)
						if !in || e.Cancelled {
							res.Effective = true
							break
						}
					}
					if !res.Effective {
						res.Skip = "the 1 s timeout watcher did not fire within 6 s"
					}
					m.op("(MStep %d)", q)
					m.op("(MStep %d)", q)
					m.op("(EFire %d)", q)
				}
				if sp.Hold {
					_ = mlSettle(2 * time.Second)
					if sp.Event == "timeout" {
						// the watcher goroutine leaves after its CancelQuery
						for t0 := time.Now(); time.Since(t0) < time.Second; time.Sleep(time.Millisecond) {
							if n, _ := parkedWatchers(); n == 0 && !strings.Contains(allStacks(), "query.CancelQuery(") {
								break
							}
						}
					}
					for k := 0; k < 3; k++ {
						m.op("(MStep %d)", q)
					}
					m.checkpoint(fmt.Sprintf("selector %d searching, after the %s", cur, sp.Event))
				}
			}
			theGate.release <- struct{}{}
		}
	}
	mlOpenGate()
	if stuck {
		fail("metrics_request_not_answered_after_"+evName, fmt.Sprintf("the request did not return within %v (selectors started: %v; running %v, waiting %v)", m.patience, res.Qids, query.VerifRunning(), query.VerifWaiting()))
		for _, q := range res.Qids {
			query.CancelQuery(q)
			query.DeleteQuery(q)
		}
		return
	}
	if x.pan != "" {
		fail("metrics_query_panic", x.pan)
		return
	}
	res.Res, res.ResText = mlResCode(sp.Kind, x.res)
	m.say("request answered: code %d %s", res.Res, res.ResText)
	if sp.Event == "cancel" && sp.At == "after" && len(res.Qids) > 0 {
		doCancel(res.Qids[len(res.Qids)-1])
	}
	// quiescence: the managers take what is left in their channels
	clean := false
	for t0 := time.Now(); time.Since(t0) < 3*time.Second; time.Sleep(time.Millisecond) {
		n, _ := mgrGoroutines()
		if len(query.VerifRunning()) == 0 && len(query.VerifWaiting()) == 0 && n <= m.baseMgr && watcherCount() <= m.baseWat {
			clean = true
			break
		}
	}
	if !clean {
		_ = mlSettle(time.Second)
	}
	m.drainOps()
	m.checkpoint("answered, managers idle")
	fin := res.Cps[len(res.Cps)-1]
	// ---- oracle ----
	if len(fin.Run) > 0 || len(fin.Wait) > 0 {
		fail("metrics_query_left_in_query_table_after_"+evName, fmt.Sprintf("the request was answered (%d %q) and the state managers are idle, but allRunningQueries still holds %v and waitingQueries %v (each entry keeps one of the MAX_RUNNING_QUERIES slots)", res.Res, res.ResText, fin.Run, fin.Wait))
	}
	if fin.Mgrs > 0 {
		fail("metrics_query_state_goroutine_left_after_"+evName, fmt.Sprintf("%d manageStateForMetricsQuery goroutine(s) still wait on the state channel of an answered request (qids %v)", fin.Mgrs, res.Qids))
	}
	if fin.Watch > 0 {
		fail("metrics_query_timeout_watcher_left_after_"+evName, fmt.Sprintf("%d timeout watcher goroutine(s) of an answered request are alive (qids %v)", fin.Watch, res.Qids))
	}
	if sp.Hold && res.Effective && sp.At == "search" {
		if len(res.Qids) != sub+1 {
			fail("cancelled_metrics_request_keeps_running_after_"+evName, fmt.Sprintf("selectors %v were started although the request was cancelled during selector %d", res.Qids, sub))
		}
	}
	// ---- the slot must be free again: a plain request is admitted and answered ----
	theGate.mu.Lock()
	theGate.armed = false
	theGate.mu.Unlock()
	pq := qid0 + 50
	px, _, perr := mlLaunch("multi", "ml_d", pq)
	if perr != nil {
		res.Err = perr.Error()
		return
	}
	ok := false
	for t0 := time.Now(); time.Since(t0) < 2500*time.Millisecond; time.Sleep(200 * time.Microsecond) {
		if px.returned() {
			ok = true
			break
		}
		if len(query.VerifWaiting()) > 0 {
			query.VerifPullOnce()
		}
	}
	if !ok {
		fail("query_not_admitted_after_metrics_query_"+evName, fmt.Sprintf("a following request (`ml_d`, qid %d) is not admitted within 2.5 s: allRunningQueries = %v with MAX_RUNNING_QUERIES = 1, waitingQueries = %v", pq, query.VerifRunning(), query.VerifWaiting()))
		query.CancelQuery(pq)
		<-px.done
	}
	for _, e := range query.VerifRunning() {
		query.DeleteQuery(e.Qid)
	}
	for _, e := range query.VerifWaiting() {
		query.DeleteQuery(e.Qid)
	}
	_ = mlSettle(time.Second)
	return
}

// how often one selector passes the gate (= number of tags-tree base directories): one plain request
func mlCalibrate() (int, error) {
	theGate.mu.Lock()
	theGate.armed = true
	theGate.hits = 0
	theGate.mu.Unlock()
	query.MAX_RUNNING_QUERIES = 1
	x, _, err := mlLaunch("multi", "ml_a", 4000000)
	if err != nil {
		return 0, err
	}
	for t0 := time.Now(); !x.returned(); time.Sleep(200 * time.Microsecond) {
		select {
		case <-theGate.reached:
			theGate.release <- struct{}{}
		default:
		}
		if len(query.VerifWaiting()) > 0 {
			query.VerifPullOnce()
		}
		if time.Since(t0) > 20*time.Second {
			mlOpenGate()
			return 0, fmt.Errorf("calibration request did not return")
		}
	}
	mlOpenGate()
	theGate.mu.Lock()
	h := theGate.hits
	theGate.mu.Unlock()
	if c, t := mlResCode("multi", x.res); c != 1 {
		return 0, fmt.Errorf("calibration request failed: %s", t)
	}
	if h == 0 {
		return 0, fmt.Errorf("the search never passed the gate")
	}
	// what the request leaves behind is judged by the scenarios (each starts from empty tables)
	_ = mlSettle(time.Second)
	return h, nil
}

func workerMLife(in, outp string) {
	var specs []MLSpec
	b, _ := os.ReadFile(in)
	if err := json.Unmarshal(b, &specs); err != nil {
		fmt.Fprintln(os.Stderr, err)
		os.Exit(3)
	}
	var out struct {
		Results []*MLResult `json:"results"`
		Err     string      `json:"err,omitempty"`
	}
	write := func() {
		ob, _ := json.Marshal(out)
		_ = os.WriteFile(outp, ob, 0o644)
	}
	dir := filepath.Dir(outp) + "/data_" + strings.TrimSuffix(filepath.Base(outp), ".json")
	_ = os.RemoveAll(dir)
	_ = os.MkdirAll(dir, 0o755)
	log.SetLevel(log.WarnLevel)
	if err := initMetricsNode(dir); err != nil {
		out.Err = "init: " + err.Error()
		write()
		return
	}
	query.InitMaxRunningQueries()
	log.AddHook(theGate)
	hitsPer, err := mlCalibrate()
	if err != nil {
		out.Err = err.Error()
		write()
		return
	}
	failed := 0
	for _, sp := range specs {
		if failed >= 5 {
			// every failing scenario waits out its patience; the remaining ones add nothing
			out.Results = append(out.Results, &MLResult{Spec: sp, Skip: "five scenarios of this worker failed already"})
			continue
		}
		r := runMLScenario(sp, hitsPer)
		if len(r.Fails) > 0 {
			failed++
		}
		out.Results = append(out.Results, r)
		write()
	}
	write()
}

// ---------------------------------------------------------------------------
// parent: generation, Coq cases, verdicts
// ---------------------------------------------------------------------------

var mlMultiQueries = []string{"ml_a", "ml_a + ml_b", "ml_a * 2", "ml_a + ml_a", "ml_a + ml_b * ml_c", "(ml_a + ml_b) / (ml_c - ml_d)",
	"sum(ml_a) by (host) + sum(ml_b) by (host)", "rate(ml_a[1m]) + ml_b", "ml_a > bool ml_b", "ml_a and ml_b", "max(ml_c) - min(ml_d)"}
var mlSingleQueries = []string{"ml_a", "sum(ml_b) by (dc)", `ml_c{host="h1"}`, "avg_over_time(ml_d[1m])"}

type mlStream struct {
	mu      sync.Mutex
	results []*MLResult
	errs    []string
}

func genMLSpecs(r *vhlib.Rng, scale int) (fast []MLSpec, slow []MLSpec) {
	id := 0
	mk := func(kind, ev, at string, hold bool) MLSpec {
		id++
		sp := MLSpec{ID: id, Kind: kind, Event: ev, At: at, Hold: hold, Sub: r.Intn(4), Hit: r.Intn(8), Cancels: 1, DelayUs: 0}
		if kind == "single" {
			sp.Query = mlSingleQueries[r.Intn(len(mlSingleQueries))]
		} else {
			sp.Query = mlMultiQueries[r.Intn(len(mlMultiQueries))]
			if ev != "none" && r.Chance(70) {
				// mostly requests with several selectors when something happens to them
				sp.Query = mlMultiQueries[[]int{1, 4, 5, 6, 7, 8, 9, 10}[r.Intn(8)]]
			}
		}
		if ev == "cancel" && r.Chance(30) {
			sp.Cancels = 2 + r.Intn(2)
		}
		if at == "race" {
			sp.DelayUs = []int{0, 20, 100, 300, 1000, 2500}[r.Intn(6)]
		}
		return sp
	}
	for k := 0; k < scale; k++ {
		for _, q := range mlMultiQueries {
			sp := mk("multi", "none", "", true)
			sp.Query = q
			fast = append(fast, sp)
		}
		for _, q := range mlSingleQueries {
			sp := mk("single", "none", "", true)
			sp.Query = q
			fast = append(fast, sp)
		}
		for i := 0; i < 20; i++ {
			fast = append(fast, mk("multi", "cancel", "search", true))
		}
		for i := 0; i < 8; i++ {
			fast = append(fast, mk("multi", "cancel", "search", false))
		}
		for i := 0; i < 8; i++ {
			fast = append(fast, mk("multi", "cancel", "waiting", true))
		}
		for i := 0; i < 12; i++ {
			fast = append(fast, mk("multi", "cancel", "race", false))
		}
		for i := 0; i < 3; i++ {
			fast = append(fast, mk("multi", "cancel", "after", true))
		}
		for i := 0; i < 5; i++ {
			fast = append(fast, mk("single", "cancel", "search", true))
		}
		for i := 0; i < 2; i++ {
			fast = append(fast, mk("single", "cancel", "waiting", true))
			fast = append(fast, mk("single", "cancel", "search", false))
		}
		for i := 0; i < 3; i++ {
			fast = append(fast, mk("single", "cancel", "race", false))
		}
		for i := 0; i < 6; i++ {
			slow = append(slow, mk("multi", "timeout", "search", true))
		}
		for i := 0; i < 2; i++ {
			slow = append(slow, mk("single", "timeout", "search", true))
		}
	}
	return
}

func runMLBatch(wdir, tag string, specs []MLSpec) ([]*MLResult, string) {
	in := filepath.Join(wdir, fmt.Sprintf("mlife_%s_in.json", tag))
	op := filepath.Join(wdir, fmt.Sprintf("mlife_%s.json", tag))
	b, _ := json.Marshal(specs)
	_ = os.WriteFile(in, b, 0o644)
	tail, err := runWorker(time.Duration(120+3*len(specs))*time.Second, "mlife", in, op)
	var out struct {
		Results []*MLResult `json:"results"`
		Err     string      `json:"err"`
	}
	ob, rerr := os.ReadFile(op)
	if rerr != nil || json.Unmarshal(ob, &out) != nil {
		return nil, fmt.Sprintf("metrics life-cycle worker %s: %v %s", tag, err, tail)
	}
	if out.Err != "" {
		return out.Results, fmt.Sprintf("metrics life-cycle worker %s: %s", tag, out.Err)
	}
	if len(out.Results) < len(specs) {
		return out.Results, fmt.Sprintf("metrics life-cycle worker %s ended after %d of %d scenarios: %v %s", tag, len(out.Results), len(specs), err, tail)
	}
	return out.Results, ""
}

func runMLStream(r *vhlib.Rng, wdir string, thorough bool, spawn func(func())) *mlStream {
	ms := &mlStream{}
	scale := 1
	if thorough {
		scale = 15
	}
	fast, slow := genMLSpecs(r, scale)
	var batches [][]MLSpec
	per := 50
	for i := 0; i < len(fast); i += per {
		j := i + per
		if j > len(fast) {
			j = len(fast)
		}
		batches = append(batches, fast[i:j])
	}
	for i := 0; i < len(slow); i += 4 {
		j := i + 4
		if j > len(slow) {
			j = len(slow)
		}
		batches = append(batches, slow[i:j])
	}
	for bi := range batches {
		bi := bi
		spawn(func() {
			out, e := runMLBatch(wdir, fmt.Sprint(bi), batches[bi])
			ms.mu.Lock()
			ms.results = append(ms.results, out...)
			if e != "" {
				ms.errs = append(ms.errs, e)
			}
			ms.mu.Unlock()
		})
	}
	return ms
}

func coqMLCase(res *MLResult) string {
	var cps []string
	for _, cp := range res.Cps {
		var run []string
		for _, e := range cp.Run {
			run = append(run, fmt.Sprintf("(%d, %s, %d)", e.Q, vhlib.CoqBool(e.C), e.L))
		}
		var wait []string
		for _, q := range cp.Wait {
			wait = append(wait, fmt.Sprint(q))
		}
		cps = append(cps, fmt.Sprintf("(%s, mkMO %s %s %d %d %d)", vhlib.CoqList(cp.Ops), vhlib.CoqList(run), vhlib.CoqList(wait), cp.Mgrs, cp.Watch, cp.Res))
	}
	var qids []string
	for _, q := range res.Qids {
		qids = append(qids, fmt.Sprint(q))
	}
	return fmt.Sprintf("(%s, %s, 1, %s)", vhlib.CoqBool(res.Spec.Kind == "single"), vhlib.CoqList(qids), vhlib.CoqList(cps))
}

func evalMLStream(sum *vhlib.Summary, outDir string, ms *mlStream) {
	for _, e := range ms.errs {
		sum.HarnessError(e)
	}
	sort.SliceStable(ms.results, func(i, j int) bool { return ms.results[i].Spec.ID < ms.results[j].Spec.ID })
	var cases []string
	nfile := 0
	flush := func() {
		if len(cases) == 0 {
			return
		}
		sum.WriteCaseFile(outDir, fmt.Sprintf("cases_mlife_%02d", nfile), "From SigM Require Import Base QueryLife QueryLifeCheck MetricsLife MetricsLifeCheck.",
			"Definition cases : list mcase := "+vhlib.CoqListNL(cases)+".\n",
			"(if forallb mselfcheck cases then [] else [999%nat]) ++ mcheck_cases cases O", len(cases))
		nfile++
		cases = nil
	}
	for _, res := range ms.results {
		if res.Err != "" {
			sum.HarnessError("metrics scenario: " + res.Err)
			continue
		}
		if res.Skip != "" && len(res.Fails) == 0 {
			sum.Count("skipped/metrics: " + res.Skip)
			continue
		}
		ev := mlEventName(res.Spec.Event)
		sum.Count("seq/metrics_" + res.Spec.Kind)
		sum.Count("metrics_moment/" + ev + "_" + res.Spec.At)
		sum.Count(fmt.Sprintf("metrics_answer/%d", res.Res))
		sum.Eval(fmt.Sprintf("mlife/%s/%s/%s/%s/%d/%d/%v/%d/%d/%d", res.Spec.Kind, res.Spec.Query, ev, res.Spec.At, res.Spec.Sub, res.Spec.Hit, res.Spec.Hold, res.Spec.Cancels, res.Spec.DelayUs, res.Res),
			res.Effective)
		for _, f := range res.Fails {
			sum.Fail(f.Class, f.Detail, f.Case)
		}
		if len(sum.Samples) < 4 && res.Effective && res.Exact {
			sum.Sample(map[string]interface{}{"metrics_scenario": res.Spec.String(), "schedule": res.Sched, "answer": res.ResText})
		}
		if res.Exact && len(res.Qids) > 0 {
			cases = append(cases, coqMLCase(res))
			if len(cases) == 60 {
				flush()
			}
		}
	}
	flush()
}

// C17, round 8: the SET-UP of a query (segment.ExecuteQueryInternalNewPipeline ->
// SetupPipeResQuery -> PrepareToRunQuery / InitQueryInfoAndSummary, NewQueryProcessor,
// SetCleanupCallback) under a forced failure or a removal of the query at every point of the
// set-up the code itself offers:
//
//	before  - before ExecuteQueryInternalNewPipeline is entered
//	dqs     - hooks.GlobalHooks.InitDistributedQueryServiceHook (inside InitQueryInfoAndSummary, after the
//	          query summary and its ticker goroutine exist, before AssociateSearchInfoWithQid)
//	qsrs    - hooks.GlobalHooks.FilterQsrsHook (sort queries: inside NewSearcher, i.e. between
//	          AssociateSearchInfoWithQid and InitScrollFrom; other queries: first Fetch of the run)
//	streams - hooks.GlobalHooks.GetDistributedStreamsHook (inside NewQueryProcessor after InitScrollFrom)
//	created - the Debug log line "Created QueryProcessor with" (last statement of NewQueryProcessor,
//	          before SetCleanupCallback), taken through a logrus hook
//
// At the chosen point the harness plays the rest of the server with a LIST of actions: CancelQuery
// (client cancel), the real timeout watcher (query timeout 1 s, the point waits for it),
// DeleteQuery (the handler's reaction), a failing hook / a hook result of the wrong type.
// Modes: direct (the harness is the handler: StartQueryAsCoordinator, the executor called
// synchronously; every run is a Coq case), handler (the whole request through
// pipesearch.ParseAndExecutePipeRequest with the real puller and the real handler, whose
// DeleteQuery then races with the set-up), race (no point: a concurrent CancelQuery after a random
// delay).  Oracle, from the property text: whatever
// happens, once ExecuteQueryInternalNewPipeline has returned and the handler has deleted the
// query, no goroutine of the query remains (goroutine dump by function name) and no table entry;
// the query got exactly the answer the set-up's exit implies.  Every run is also a Coq case: the
// model (QuerySetup.v) predicts the exit of the set-up, the entry and the live ticker count.
package main

import (
	"context"
	"encoding/json"
	"errors"
	"fmt"
	"io"
	"os"
	"path/filepath"
	"runtime"
	"sort"
	"strings"
	"sync"
	"sync/atomic"
	"time"

	"github.com/siglens/siglens/pkg/ast/pipesearch"
	"github.com/siglens/siglens/pkg/config"
	eswriter "github.com/siglens/siglens/pkg/es/writer"
	"github.com/siglens/siglens/pkg/hooks"
	"github.com/siglens/siglens/pkg/segment"
	"github.com/siglens/siglens/pkg/segment/query"
	"github.com/siglens/siglens/pkg/segment/query/processor"
	"github.com/siglens/siglens/pkg/segment/query/summary"
	"github.com/siglens/siglens/pkg/segment/results/segresults"
	"github.com/siglens/siglens/pkg/segment/structs"
	"github.com/siglens/siglens/pkg/segment/writer"
	log "github.com/sirupsen/logrus"

	"verifharness/vhlib"
)

// SUSpec is one set-up scenario.
type SUSpec struct {
	ID      int      `json:"id"`
	Mode    string   `json:"mode"`    // direct | handler | race
	Query   string   `json:"query"`   // Splunk QL text
	Fails   []int    `json:"fails"`   // validations of the request this text fails (model input numbers)
	Point   string   `json:"point"`   // none | before | dqs | qsrs | streams | created
	Actions []string `json:"actions"` // cancel | timeout | delete | fail | badtype | cancel_wait (handler mode: cancel, then wait for the handler's delete)
	Delay   int      `json:"delay"`   // race mode: microseconds before the concurrent CancelQuery
}

func (s SUSpec) String() string {
	if s.Mode == "race" {
		return fmt.Sprintf("request %q through ParseAndExecutePipeRequest, CancelQuery from another goroutine %d us after the query is in the running table", s.Query, s.Delay)
	}
	how := "segment.ExecuteQueryInternalNewPipeline called after StartQueryAsCoordinator(forceRun)"
	if s.Mode == "handler" {
		how = "request through ParseAndExecutePipeRequest (real puller, real handler)"
	}
	return fmt.Sprintf("query %q, %s; at point %q the rest of the server does %v", s.Query, how, s.Point, s.Actions)
}

// SUResult is what was observed.
type SUResult struct {
	Spec       SUSpec         `json:"spec"`
	Err        string         `json:"err,omitempty"`
	Fired      bool           `json:"fired"`       // the injection point was reached
	FiredPhase string         `json:"fired_phase"` // setup | run ("Created QueryProcessor" seen before the point fired)
	Returned   bool           `json:"returned"`    // ExecuteQueryInternalNewPipeline / the request returned
	Exit       string         `json:"exit"`        // ok | prepare | processor | callback | run | ?
	ErrText    string         `json:"err_text"`
	Msgs       []int          `json:"msgs"`        // state messages on the channel after READY/RUNNING
	EntryAfter int            `json:"entry_after"` // 0 absent, 1 present, 2 present+cancelled (after the return)
	TickPoint  int            `json:"tick_point"`  // summary tickers of this query alive at the injection point
	TickReturn int            `json:"tick_return"` // ... after the return (settled)
	TickDelete int            `json:"tick_delete"` // ... after the handler's DeleteQuery
	EntryEnd   int            `json:"entry_end"`   // running + waiting entries at the end
	NewSigs    map[string]int `json:"new_sigs"`    // goroutines by function that were not there before the query
	Answer     string         `json:"answer"`      // handler / race mode: result | error | nil_response
	Millis     int            `json:"millis"`
}

const suTickFn = "summary.(*QuerySummary).tickWatcher"
const suTickWrap = "summary.(*QuerySummary).startTicker.gowrap"

// the goroutines (by id) that run the function fn, from the dump of all goroutines
func suGoIDs(fn string) map[int]bool {
	buf := make([]byte, 8<<20)
	n := runtime.Stack(buf, true)
	out := map[int]bool{}
	for _, g := range strings.Split(string(buf[:n]), "\n\n") {
		// a goroutine that has not run yet is shown in its wrapper `startTicker.gowrapN`
		if !strings.Contains(g, fn+"(") && !(fn == suTickFn && strings.Contains(g, suTickWrap)) {
			continue
		}
		var id int
		if _, err := fmt.Sscanf(g, "goroutine %d ", &id); err == nil {
			out[id] = true
		}
	}
	return out
}

// summary tickers that were not alive in `base`
func suNewTicks(base map[int]bool) int {
	k := 0
	for id := range suGoIDs(suTickFn) {
		if !base[id] {
			k++
		}
	}
	return k
}

// waits until no summary ticker besides those of `base` is alive (up to limit); returns the last count
func suSettleTick(base map[int]bool, limit time.Duration) int {
	dl := time.Now().Add(limit)
	got := suNewTicks(base)
	for got != 0 && time.Now().Before(dl) {
		time.Sleep(2 * time.Millisecond)
		got = suNewTicks(base)
	}
	return got
}

// the injection machinery (process-wide: one scenario at a time)
type suArm struct {
	mu        sync.Mutex
	spec      SUSpec
	qid       uint64
	armed     bool
	fired     bool
	phase     string
	created   int32
	tickPoint int
	tick0     map[int]bool
}

var suA suArm

// installed as hooks.GlobalHooks.GetDistributedStreamsHook only for the scenarios that use the point
// "streams" (all other scenarios run the single-node plan, parallel chains included)
var suStreamsHook func(createDpChain func() any, searcher interface{}, skippedStats bool, queryInfo interface{}, shouldDistribute bool) (interface{}, error)

func suCancelled(qid uint64) (present, cancelled bool) {
	for _, e := range query.VerifRunning() {
		if e.Qid == qid {
			return true, e.Cancelled
		}
	}
	return false, false
}

// the environment's actions at an injection point; fail / bad: the hook itself has to fail
func (a *suArm) at(point string) (fail bool, bad bool) {
	a.mu.Lock()
	if !a.armed || a.fired || a.spec.Point != point {
		a.mu.Unlock()
		return false, false
	}
	a.fired = true
	a.phase = "setup"
	if atomic.LoadInt32(&a.created) != 0 {
		a.phase = "run"
	}
	sp, qid, t0 := a.spec, a.qid, a.tick0
	a.mu.Unlock()
	tp := suNewTicks(t0)
	a.mu.Lock()
	a.tickPoint = tp
	a.mu.Unlock()
	for _, act := range sp.Actions {
		switch act {
		case "cancel":
			query.CancelQuery(qid)
		case "cancel_wait":
			query.CancelQuery(qid)
			for i := 0; i < 400; i++ { // the handler reacts to CANCELLED with DeleteQuery
				if p, _ := suCancelled(qid); !p {
					break
				}
				time.Sleep(time.Millisecond)
			}
		case "delete":
			query.DeleteQuery(qid)
		case "timeout":
			// the real watcher of this query fires (query timeout 1 s): wait until it has cancelled the query
			for i := 0; i < 600; i++ {
				if p, c := suCancelled(qid); !p || c {
					break
				}
				time.Sleep(5 * time.Millisecond)
			}
			if sp.Mode == "handler" { // ... and the handler has reacted
				for i := 0; i < 400; i++ {
					if p, _ := suCancelled(qid); !p {
						break
					}
					time.Sleep(time.Millisecond)
				}
			}
		case "fail":
			fail = true
		case "badtype":
			bad = true
		}
	}
	return fail, bad
}

type suLogHook struct{}

func (suLogHook) Levels() []log.Level { return []log.Level{log.DebugLevel} }
func (suLogHook) Fire(e *log.Entry) error {
	if strings.Contains(e.Message, "Created QueryProcessor with") {
		suA.at("created")
		atomic.StoreInt32(&suA.created, 1)
	}
	return nil
}

func suInstallHooks() {
	hooks.GlobalHooks.InitDistributedQueryServiceHook = func(qs interface{}, res interface{}, dqid string, enc uint32) interface{} {
		suA.at("dqs")
		return query.InitDistQueryService(qs.(*summary.QuerySummary), res.(*segresults.SearchResults), dqid, enc)
	}
	hooks.GlobalHooks.FilterQsrsHook = func(qsrs interface{}, qi interface{}, isRotated bool) (interface{}, error) {
		if fail, bad := suA.at("qsrs"); fail || bad {
			return nil, errors.New("verif: forced FilterQsrsHook failure")
		}
		return qsrs, nil
	}
	suStreamsHook = func(createDpChain func() any, searcher interface{}, skippedStats bool, queryInfo interface{}, shouldDistribute bool) (interface{}, error) {
		fail, bad := suA.at("streams")
		if fail {
			return nil, errors.New("verif: forced GetDistributedStreamsHook failure")
		}
		if bad {
			return 17, nil
		}
		// what a deployment's hook does when nothing is remote: a fresh chain, connected to the searcher
		chain, ok := createDpChain().([]*processor.DataProcessor)
		if !ok {
			return nil, errors.New("verif: chain factory gave no chain")
		}
		processor.ConnectEachDpChain([][]*processor.DataProcessor{chain}, searcher.(*processor.Searcher))
		return chain, nil
	}
	log.AddHook(suLogHook{})
	log.SetLevel(log.DebugLevel)
	log.SetOutput(io.Discard)
}

func suIngest() error {
	zero := time.Duration(0)
	cities := []string{"Boston", "Berlin", "Lima", "Oslo"}
	apps := []string{"web", "db", "cache"}
	id := 0
	for b := 0; b < 2; b++ {
		var sb strings.Builder
		for i := 0; i < 40; i++ {
			id++
			fmt.Fprintf(&sb, "{\"index\":{\"_index\":\"su\"}}\n")
			fmt.Fprintf(&sb, "{\"timestamp\":%d,\"city\":%q,\"app\":%q,\"latency\":%d,\"msg\":\"u%d did x\"}\n",
				tsBase+uint64(id)*1000, cities[id%4], apps[id%3], (id*37)%1000, id%20)
		}
		if _, _, err := eswriter.HandleBulkBody([]byte(sb.String()), nil, uint64(b+1), 0, false); err != nil {
			return err
		}
		writer.FlushWipBufferToFile(&zero, &zero)
		if b == 0 {
			writer.ForceRotateSegmentsForTest()
		}
	}
	return nil
}

func suExitOf(txt string) string {
	switch {
	case strings.Contains(txt, "failed to prepare to run query"):
		return "prepare"
	case strings.Contains(txt, "failed to create query processor"):
		return "processor"
	case strings.Contains(txt, "failed to set cleanup callback"):
		return "callback"
	}
	return "run"
}

func suEntryCode(qid uint64) int {
	p, c := suCancelled(qid)
	switch {
	case !p:
		return 0
	case c:
		return 2
	}
	return 1
}

// every goroutine by id with its signature: the outermost function of its stack that is not
// runtime-internal (the function the goroutine was started with), e.g.
// github.com/siglens/siglens/pkg/segment/query/summary.(*QuerySummary).tickWatcher
func suGoroutines() map[int]string {
	buf := make([]byte, 8<<20)
	n := runtime.Stack(buf, true)
	out := map[int]string{}
	for _, g := range strings.Split(string(buf[:n]), "\n\n") {
		var id int
		if _, err := fmt.Sscanf(g, "goroutine %d ", &id); err != nil {
			continue
		}
		lines := strings.Split(g, "\n")
		sig := "runtime"
		for _, l := range lines[1:] {
			if strings.HasPrefix(l, "\t") || strings.HasPrefix(l, "created by") {
				continue
			}
			f := l
			if i := strings.LastIndex(f, "("); i > 0 {
				f = f[:i]
			}
			if strings.HasPrefix(f, "runtime.") || strings.HasPrefix(f, "sync.") || strings.HasPrefix(f, "time.") || strings.HasPrefix(f, "internal/") {
				continue
			}
			sig = f // keep the LAST one: the bottom frame of the stack
		}
		out[id] = sig
	}
	return out
}

// goroutines (counted by start function) that are alive now and were not alive in `base`;
// the harness's own goroutines are left out
func suNewSigs(base map[int]string) map[string]int {
	out := map[string]int{}
	for id, sig := range suGoroutines() {
		if _, old := base[id]; old || strings.HasPrefix(sig, "main.") || sig == "runtime" {
			continue
		}
		out[sig]++
	}
	return out
}

// waits until no goroutine besides those of the baseline is alive (or the limit passes)
func suSettleSigs(base map[int]string, limit time.Duration) map[string]int {
	dl := time.Now().Add(limit)
	for {
		ns := suNewSigs(base)
		if len(ns) == 0 || time.Now().After(dl) {
			return ns
		}
		time.Sleep(5 * time.Millisecond)
	}
}

func suHasTimeout(sp SUSpec) bool {
	for _, a := range sp.Actions {
		if a == "timeout" {
			return true
		}
	}
	return false
}

func (a *suArm) arm(sp SUSpec, qid uint64, tick0 map[int]bool) {
	a.mu.Lock()
	a.spec, a.qid, a.armed, a.fired, a.phase, a.tickPoint, a.tick0 = sp, qid, sp.Point != "none" && sp.Point != "", false, "", 0, tick0
	atomic.StoreInt32(&a.created, 0)
	a.mu.Unlock()
	hooks.GlobalHooks.GetDistributedStreamsHook = nil
	if sp.Point == "streams" {
		hooks.GlobalHooks.GetDistributedStreamsHook = suStreamsHook
	}
}

func (a *suArm) disarm(res *SUResult) {
	a.mu.Lock()
	a.armed = false
	res.Fired, res.FiredPhase, res.TickPoint = a.fired, a.phase, a.tickPoint
	a.mu.Unlock()
	hooks.GlobalHooks.GetDistributedStreamsHook = nil
}

// direct mode: the harness is the handler
func suRunDirect(sp SUSpec, qid uint64) (res *SUResult) {
	res = &SUResult{Spec: sp, NewSigs: map[string]int{}}
	t0 := time.Now()
	defer func() { res.Millis = int(time.Since(t0).Milliseconds()) }()
	config.SetQueryTimeoutSecs(300)
	if suHasTimeout(sp) {
		config.SetQueryTimeoutSecs(1)
	}
	defer config.SetQueryTimeoutSecs(300)
	base := suGoroutines()
	tick0 := suGoIDs(suTickFn) // a ticker an earlier scenario leaked is not counted again
	root, aggs, _, err := pipesearch.ParseRequest(sp.Query, tsBase-1000, tsBase+100000000, qid, "Splunk QL", "su")
	if err != nil {
		res.Err = "parse: " + err.Error()
		return
	}
	ti := structs.InitTableInfo("su", 0, false, nil)
	sizeLimit := pipesearch.GetFinalSizelimit(aggs, 100)
	qc := structs.InitQueryContextWithTableInfo(ti, sizeLimit, 0, 0, false)
	qc.RawQuery = sp.Query
	rq, err := query.StartQueryAsCoordinator(qid, false, nil, root, aggs, qc, nil, true)
	if err != nil {
		res.Err = "start: " + err.Error()
		return
	}
	var first []int
	for len(rq.StateChan) > 0 {
		first = append(first, msgCode((<-rq.StateChan).StateName))
	}
	if len(first) != 2 || first[0] != msgCode(query.READY) || first[1] != msgCode(query.RUNNING) {
		res.Err = fmt.Sprintf("start: messages %v", first)
		return
	}
	suA.arm(sp, qid, tick0)
	if sp.Point == "before" {
		suA.at("before")
	}
	done := make(chan struct{})
	go func() {
		defer close(done)
		segment.ExecuteQueryInternalNewPipeline(qid, false, root, aggs, qc, rq, 100)
	}()
	select {
	case <-done:
		res.Returned = true
	case <-time.After(20 * time.Second):
	}
	suA.disarm(res)
	if !res.Returned {
		return
	}
	// the handler's view: the messages of the query
	res.Exit = "?"
	for len(rq.StateChan) > 0 {
		m := <-rq.StateChan
		res.Msgs = append(res.Msgs, msgCode(m.StateName))
		switch m.StateName {
		case query.COMPLETE:
			res.Exit = "ok"
		case query.ERROR:
			if m.Error != nil {
				res.ErrText = m.Error.Error()
			}
			res.Exit = suExitOf(res.ErrText)
		}
	}
	res.EntryAfter = suEntryCode(qid)
	res.TickReturn = suSettleTick(tick0, 400*time.Millisecond)
	// the handler deletes the query after a terminal message
	query.DeleteQuery(qid)
	res.TickDelete = suSettleTick(tick0, 1500*time.Millisecond)
	res.EntryEnd = len(query.VerifRunning()) + len(query.VerifWaiting())
	res.NewSigs = suSettleSigs(base, 1500*time.Millisecond)
	return
}

// handler / race mode: the whole synchronous request
func suRunRequest(sp SUSpec, qid uint64) (res *SUResult) {
	res = &SUResult{Spec: sp, NewSigs: map[string]int{}}
	t0 := time.Now()
	defer func() { res.Millis = int(time.Since(t0).Milliseconds()) }()
	config.SetQueryTimeoutSecs(300)
	if suHasTimeout(sp) {
		config.SetQueryTimeoutSecs(1)
	}
	defer config.SetQueryTimeoutSecs(300)
	base := suGoroutines()
	tick0 := suGoIDs(suTickFn)
	suA.arm(sp, qid, tick0)
	stopRace := make(chan struct{})
	var rwg sync.WaitGroup
	if sp.Mode == "race" {
		rwg.Add(1)
		go func() {
			defer rwg.Done()
			for i := 0; i < 200000; i++ {
				if p, _ := suCancelled(qid); p {
					break
				}
				select {
				case <-stopRace:
					return
				default:
				}
				time.Sleep(10 * time.Microsecond)
			}
			time.Sleep(time.Duration(sp.Delay) * time.Microsecond)
			query.CancelQuery(qid)
		}()
	}
	done := make(chan struct{})
	go func() {
		defer close(done)
		req := map[string]interface{}{
			"searchText": sp.Query, "indexName": "su", "startEpoch": tsBase - 1000, "endEpoch": tsBase + 100000000,
			"size": uint64(100), "from": uint64(0), "queryLanguage": "Splunk QL", "state": "query",
		}
		resp, _, _, err := pipesearch.ParseAndExecutePipeRequest(req, qid, 0, time.Now(), "", nil)
		switch {
		case err != nil:
			res.Answer = "error"
			res.ErrText = err.Error()
		case resp == nil:
			res.Answer = "nil_response"
		default:
			res.Answer = "result"
		}
	}()
	select {
	case <-done:
		res.Returned = true
	case <-time.After(20 * time.Second):
	}
	close(stopRace)
	rwg.Wait()
	suA.disarm(res)
	if !res.Returned {
		return
	}
	// the executor goroutine of a cancelled request may still be on its way out
	res.TickDelete = suSettleTick(tick0, 3*time.Second)
	res.TickReturn = res.TickDelete
	for i := 0; i < 300 && len(query.VerifRunning())+len(query.VerifWaiting()) > 0; i++ {
		time.Sleep(5 * time.Millisecond)
	}
	res.EntryEnd = len(query.VerifRunning()) + len(query.VerifWaiting())
	res.NewSigs = suSettleSigs(base, 3*time.Second)
	return
}

type suOut struct {
	Results []*SUResult `json:"results"`
	Err     string      `json:"err,omitempty"`
	GoMax   int         `json:"gomax"`
}

func workerSetup(dir, in, outp string) {
	var specs []SUSpec
	b, _ := os.ReadFile(in)
	_ = json.Unmarshal(b, &specs)
	out := suOut{GoMax: runtime.GOMAXPROCS(0)}
	write := func() {
		ob, _ := json.Marshal(out)
		_ = os.WriteFile(outp, ob, 0o644)
	}
	if err := initQueryNode(dir); err != nil {
		out.Err = err.Error()
		write()
		return
	}
	if err := suIngest(); err != nil {
		out.Err = "ingest: " + err.Error()
		write()
		return
	}
	ctx, stopPull := context.WithCancel(context.Background())
	defer stopPull()
	go query.PullQueriesToRun(ctx)
	suInstallHooks()
	// warm-up: lazily started goroutines of the query path
	for i, q := range []string{"*", "* | stats count by city", "* | sort latency | head 3"} {
		suRunDirect(SUSpec{Mode: "direct", Query: q, Point: "none"}, uint64(900+i))
		suRunRequest(SUSpec{Mode: "handler", Query: q, Point: "none"}, uint64(950+i))
	}
	time.Sleep(100 * time.Millisecond)
	for i, sp := range specs {
		var r *SUResult
		switch sp.Mode {
		case "handler", "race":
			r = suRunRequest(sp, uint64(2000+i))
		default:
			r = suRunDirect(sp, uint64(2000+i))
		}
		out.Results = append(out.Results, r)
	}
	write()
}

// ---------------------------------------------------------------------------
// parent side
// ---------------------------------------------------------------------------

type suQuery struct {
	text  string
	fails []int
}

// the request texts: plain search, first aggregation = stats (skipped by the searcher), a sort with
// head, a chain that SetupQueryParallelism splits, and a text validateStreamStatsTimeWindow rejects
var suQueries = []suQuery{
	{"*", nil},
	{"* | stats count by city", nil},
	{"* | sort latency | head 3", nil},
	{"* | eval x=latency*2 | stats sum(x) by app", nil},
	{"city=B* | dedup app | fields app, city", nil},
	{"* | sort city | streamstats time_window=1h count as c", []int{2}},
}

var suPointNo = map[string]int{"before": 0, "dqs": 1, "streams": 2, "created": 3, "qsrs": 4, "none": 99, "": 99}

func genSUSpecs(r *vhlib.Rng, thorough bool) (fast []SUSpec, slow []SUSpec) {
	id := 0
	add := func(dst *[]SUSpec, sp SUSpec) {
		sp.ID = id
		id++
		*dst = append(*dst, sp)
	}
	canFail := map[string]bool{"streams": true, "qsrs": true}
	points := []string{"before", "dqs", "streams", "created", "qsrs"}
	// the grid: every text x every point x the basic reactions
	for _, q := range suQueries {
		add(&fast, SUSpec{Mode: "direct", Query: q.text, Fails: q.fails, Point: "none"})
		for _, p := range points {
			lists := [][]string{{"cancel"}, {"delete"}, {"cancel", "delete"}}
			if canFail[p] {
				lists = append(lists, []string{"fail"}, []string{"fail", "delete"})
			}
			if p == "streams" {
				lists = append(lists, []string{"badtype"}, []string{"cancel", "badtype"})
			}
			for _, l := range lists {
				add(&fast, SUSpec{Mode: "direct", Query: q.text, Fails: q.fails, Point: p, Actions: l})
			}
		}
	}
	// random action lists
	nRand := 150
	if thorough {
		nRand = 1500
	}
	atoms := []string{"cancel", "delete", "cancel", "delete", "fail", "badtype"}
	for i := 0; i < nRand; i++ {
		q := suQueries[r.Intn(len(suQueries))]
		p := points[r.Intn(len(points))]
		n := 1 + r.Intn(4)
		var l []string
		for k := 0; k < n; k++ {
			a := atoms[r.Intn(len(atoms))]
			if (a == "fail" || a == "badtype") && !canFail[p] {
				a = "delete"
			}
			if a == "badtype" && p != "streams" {
				a = "fail"
			}
			l = append(l, a)
		}
		add(&fast, SUSpec{Mode: "direct", Query: q.text, Fails: q.fails, Point: p, Actions: l})
	}
	// the whole request: the handler's DeleteQuery races with the set-up
	for qi, q := range suQueries {
		add(&fast, SUSpec{Mode: "handler", Query: q.text, Point: "none"})
		for _, p := range []string{"dqs", "streams", "created", "qsrs"} {
			add(&fast, SUSpec{Mode: "handler", Query: q.text, Point: p, Actions: []string{"cancel_wait"}})
			if canFail[p] && (thorough || qi%2 == 0) {
				add(&fast, SUSpec{Mode: "handler", Query: q.text, Point: p, Actions: []string{"fail"}})
			}
		}
	}
	nRace := 120
	if thorough {
		nRace = 1500
	}
	for i := 0; i < nRace; i++ {
		q := suQueries[r.Intn(len(suQueries)-1)]
		add(&fast, SUSpec{Mode: "race", Query: q.text, Point: "none", Delay: r.Intn(400)})
	}
	// the real timeout watcher (1 s each)
	nTo := 4
	if thorough {
		nTo = 24
	}
	for i := 0; i < nTo; i++ {
		q := suQueries[r.Intn(len(suQueries))]
		p := points[i%len(points)]
		l := []string{"timeout"}
		if r.Chance(50) {
			l = append(l, "delete")
		}
		mode := "direct"
		if i%4 == 3 && p != "before" {
			mode = "handler"
			l = []string{"timeout"}
		}
		add(&slow, SUSpec{Mode: mode, Query: q.text, Fails: q.fails, Point: p, Actions: l})
	}
	return
}

type suStream struct {
	mu      sync.Mutex
	results []*SUResult
	errs    []string
}

func runSUStream(r *vhlib.Rng, wdir string, thorough bool, spawn func(func())) *suStream {
	ss := &suStream{}
	fast, slow := genSUSpecs(r, thorough)
	var batches [][]SUSpec
	per := 150
	for i := 0; i < len(fast); i += per {
		j := i + per
		if j > len(fast) {
			j = len(fast)
		}
		batches = append(batches, fast[i:j])
	}
	for i := 0; i < len(slow); i += 2 {
		j := i + 2
		if j > len(slow) {
			j = len(slow)
		}
		batches = append(batches, slow[i:j])
	}
	for bi := range batches {
		bi := bi
		spawn(func() {
			dir := filepath.Join(wdir, fmt.Sprintf("setup_%d", bi))
			_ = os.MkdirAll(dir, 0o755)
			in := filepath.Join(wdir, fmt.Sprintf("setup_%d_in.json", bi))
			op := filepath.Join(wdir, fmt.Sprintf("setup_%d.json", bi))
			b, _ := json.Marshal(batches[bi])
			_ = os.WriteFile(in, b, 0o644)
			tail, err := runWorker(240*time.Second, "setup", dir, in, op)
			var so suOut
			ob, rerr := os.ReadFile(op)
			ss.mu.Lock()
			defer ss.mu.Unlock()
			if rerr != nil || json.Unmarshal(ob, &so) != nil || so.Err != "" {
				ss.errs = append(ss.errs, fmt.Sprintf("setup worker %d: %v %s %s", bi, err, so.Err, tail))
				return
			}
			ss.results = append(ss.results, so.Results...)
		})
	}
	return ss
}

var suExitNo = map[string]int{"ok": 0, "prepare": 1, "processor": 2, "callback": 3, "run": 4}
var suActCoq = map[string]string{"cancel": "ACancel", "timeout": "ATimeout", "delete": "ADelete", "fail": "AFail", "badtype": "ABadType"}

func coqSUCase(res *SUResult) string {
	var fails, acts, msgs []string
	for _, f := range res.Spec.Fails {
		fails = append(fails, coqNat(f))
	}
	for _, a := range res.Spec.Actions {
		acts = append(acts, suActCoq[a])
	}
	for _, m := range res.Msgs {
		msgs = append(msgs, fmt.Sprintf("%d%%N", m))
	}
	ex, ok := suExitNo[res.Exit]
	if !ok {
		ex = 9
	}
	return fmt.Sprintf("(%s, %s, %s, (%s, %s, %s, %s, %s, %s))", vhlib.CoqList(fails), coqNat(suPointNo[res.Spec.Point]), vhlib.CoqList(acts),
		coqNat(ex), vhlib.CoqList(msgs), coqNat(res.EntryAfter), coqNat(res.TickPoint), coqNat(res.TickReturn), coqNat(res.TickDelete))
}

func suSigList(m map[string]int) []string {
	var l []string
	for k, v := range m {
		l = append(l, fmt.Sprintf("%s x%d", k, v))
	}
	sort.Strings(l)
	return l
}

func evalSUStream(sum *vhlib.Summary, outDir string, ss *suStream) {
	for _, e := range ss.errs {
		sum.HarnessError(e)
	}
	sort.SliceStable(ss.results, func(i, j int) bool { return ss.results[i].Spec.ID < ss.results[j].Spec.ID })
	var cases []string
	for _, res := range ss.results {
		sp := res.Spec
		c := map[string]interface{}{"stream": "setup", "mode": sp.Mode, "query": sp.Query, "point": sp.Point, "actions": sp.Actions, "delay_us": sp.Delay,
			"data": "index su: 80 events {city, app, latency, msg}, two flushes, one rotation"}
		if res.Err != "" {
			sum.HarnessError("setup scenario [" + sp.String() + "]: " + res.Err)
			continue
		}
		sum.Count("setup/mode/" + sp.Mode)
		sum.Count("setup/point/" + sp.Point)
		if !res.Returned {
			cls := "setup_executor_not_returned"
			if sp.Mode != "direct" {
				cls = "setup_request_not_answered"
			}
			sum.Fail(cls, sp.String()+": no return within 20 s", c)
			continue
		}
		if sp.Mode == "direct" {
			sum.Count("setup/exit/" + res.Exit)
			sum.Eval(fmt.Sprintf("setup/%s/%s/%v/%s%v", sp.Query, sp.Point, sp.Actions, res.Exit, res.Msgs), res.Fired && res.Exit != "ok")
			if res.Fired {
				sum.Count("setup/fired_in/" + res.FiredPhase)
			}
			fin := 0
			for _, m := range res.Msgs {
				if m == 4 || m == 7 {
					fin++
				}
			}
			if fin != 1 {
				sum.Fail("setup_executor_final_messages_not_one", fmt.Sprintf("%s: the executor sent %d COMPLETE/ERROR messages (all messages after RUNNING: %v)", sp.String(), fin, res.Msgs), c)
			}
			exitName := res.Exit
			if _, ok := suExitNo[exitName]; !ok {
				exitName = "unknown"
			}
			if res.TickReturn > 0 || res.TickDelete > 0 || len(res.NewSigs) > 0 {
				sum.Fail("setup_exit_"+exitName+"_leaves_goroutine", fmt.Sprintf("%s: ExecuteQueryInternalNewPipeline returned on exit %q (%s); %d goroutine(s) QuerySummary.tickWatcher of this query alive after the return, %d after DeleteQuery; goroutines that were not there before the query: %v", sp.String(), res.Exit, res.ErrText, res.TickReturn, res.TickDelete, suSigList(res.NewSigs)), c)
			}
			if res.EntryEnd != 0 {
				sum.Fail("setup_entry_left_after_delete", fmt.Sprintf("%s: %d table entries after DeleteQuery", sp.String(), res.EntryEnd), c)
			}
			cases = append(cases, coqSUCase(res))
		} else {
			sum.Count("setup/answer/" + res.Answer)
			sum.Eval(fmt.Sprintf("setup/%s/%s/%s/%v/%d/%s", sp.Mode, sp.Query, sp.Point, sp.Actions, sp.Delay, res.Answer), res.Fired || sp.Mode == "race")
			if res.TickDelete > 0 || len(res.NewSigs) > 0 {
				sum.Fail("setup_request_leaves_goroutine", fmt.Sprintf("%s: answered (%s %s); afterwards %d goroutine(s) QuerySummary.tickWatcher of this request stay alive (3 s), goroutines that were not there before the request: %v", sp.String(), res.Answer, res.ErrText, res.TickDelete, suSigList(res.NewSigs)), c)
			}
			if res.EntryEnd != 0 {
				sum.Fail("setup_request_leaves_entry", fmt.Sprintf("%s: answered (%s); %d table entries remain", sp.String(), res.Answer, res.EntryEnd), c)
			}
		}
		if len(sum.Samples) < 4 && sp.Mode == "direct" && res.Exit == "callback" {
			sum.Sample(map[string]interface{}{"stream": "setup", "scenario": sp.String(), "exit": res.Exit, "messages": res.Msgs, "tickers_at_point": res.TickPoint, "tickers_after_return": res.TickReturn})
		}
	}
	per := 250
	for i, nf := 0, 0; i < len(cases); i, nf = i+per, nf+1 {
		j := i + per
		if j > len(cases) {
			j = len(cases)
		}
		sum.WriteCaseFile(outDir, fmt.Sprintf("cases_setup_%02d", nf), "From SigM Require Import Base QuerySetup QuerySetupCheck.",
			"Definition cases : list scase := "+vhlib.CoqListNL(cases[i:j])+".\n", "check_setup_cases cases O", j-i)
	}
}

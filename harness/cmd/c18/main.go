package main

import (
	"fmt"
	"os"
	"os/exec"
	"path/filepath"
)

func main() {
	if len(os.Args) >= 3 && os.Args[1] == "worker" {
		switch os.Args[2] {
		case "build":
			workerBuild(os.Args[3], os.Args[4] == "1")
		case "query":
			workerQuery(os.Args[3], os.Args[4], os.Args[5] == "1")
		}
		return
	}
	dir := os.Args[1]
	_ = os.RemoveAll(dir)
	_ = os.MkdirAll(dir, 0o755)
	out, err := exec.Command(os.Args[0], "worker", "build", filepath.Join(dir, "data"), "1").CombinedOutput()
	fmt.Println(string(out), err)
	out, err = exec.Command(os.Args[0], "worker", "query", filepath.Join(dir, "data"), filepath.Join(dir, "obs.json"), "1").CombinedOutput()
	fmt.Println(string(out), err)
}

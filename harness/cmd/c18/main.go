// c18: damaged segment files.
//
//	(a) direct: the real utils.ChecksumFile (AppendChunk / AppendPartialChunk / Flush /
//	    ReadAt) on generated chunk files, every truncation length and single-byte
//	    modifications; the property oracle is evaluated on the implementation's results
//	    ("original data or an error, never altered data; intact chunks unaffected") and
//	    Coq case files compare the byte-exact file layout and every ReadAt result
//	    (data / end-of-file error / integrity error) with the model ChecksumFile.v.
//	(b) fault enumeration end to end: a small store (log segment A = 3 blocks, log
//	    segment B = 2 blocks, distinct timestamps per block, one metrics segment) is built by the real writer; for every
//	    sampled mutation of one stored file a fresh worker process (timeout, ulimit -v)
//	    runs the queries on the damaged store.  Outcome classes: same / events missing or
//	    error / ALTERED values / crash / hang / other segment affected.
//	    The column files (.csg) of the store are also fed to (a): real files written by
//	    writeWip must be write_chunks of their blocks, and ReadAt on their damaged
//	    versions must agree with the model.
package main

import (
	"bytes"
	"context"
	"encoding/json"
	"fmt"
	"io"
	"os"
	"os/exec"
	"path/filepath"
	"regexp"
	"sort"
	"strconv"
	"strings"
	"sync"
	"time"

	"github.com/siglens/siglens/pkg/utils"
	log "github.com/sirupsen/logrus"

	"verifharness/vhlib"
)

// ---------------------------------------------------------------------------
// (a) direct
// ---------------------------------------------------------------------------

type wop struct {
	Kind string `json:"k"` // chunk | partial | flush
	Data []byte `json:"d,omitempty"`
}

func (o wop) coq() string {
	switch o.Kind {
	case "chunk":
		return "OpChunk " + vhlib.CoqBytes(o.Data)
	case "partial":
		return "OpPartial " + vhlib.CoqBytes(o.Data)
	}
	return "OpFlush"
}

type mut struct {
	Kind string `json:"kind"` // keep | trunc | flip
	K    int    `json:"k"`
	V    int    `json:"v"`
}

func (m mut) coq() string {
	switch m.Kind {
	case "trunc":
		return fmt.Sprintf("Trunc %d", m.K)
	case "flip":
		return fmt.Sprintf("Flip %d %d", m.K, m.V)
	}
	return "Keep"
}
func (m mut) apply(f []byte) []byte {
	out := append([]byte{}, f...)
	switch m.Kind {
	case "trunc":
		if m.K < len(out) {
			out = out[:m.K]
		}
	case "flip":
		if m.K < len(out) {
			out[m.K] = byte(m.V)
		}
	}
	return out
}

type readReq struct{ Off, Len int }

// real ReadAt -> (code, data): 0 ok, 1 end of file, 2 checksum mismatch, 4 buffer length mismatch,
// 5 not the start of a chunk, 3 panic / unclassified error
func realRead(path string, off, n int) (code int, data []byte, msg string) {
	defer func() {
		if r := recover(); r != nil {
			code, data, msg = 3, nil, fmt.Sprintf("panic: %v", r)
		}
	}()
	fd, err := os.Open(path)
	if err != nil {
		return 1, nil, err.Error()
	}
	defer fd.Close()
	csf := &utils.ChecksumFile{Fd: fd}
	buf := make([]byte, n)
	got, err := csf.ReadAt(buf, int64(off))
	if err == nil {
		if got != n {
			return 3, nil, fmt.Sprintf("nil error but %d of %d bytes", got, n)
		}
		return 0, buf, ""
	}
	s := err.Error()
	switch {
	case err == io.EOF, strings.Contains(s, "Cannot read"):
		return 1, nil, s
	case strings.Contains(s, "checksum mismatch"):
		return 2, nil, s
	case strings.Contains(s, "buffer length mismatch"):
		return 4, nil, s
	case strings.Contains(s, "not the start of a chunk"):
		return 5, nil, s
	}
	return 3, nil, "unclassified error: " + s
}

// writes the ops with the real ChecksumFile; returns the file
func realWrite(path string, ops []wop) ([]byte, error) {
	_ = os.Remove(path)
	fd, err := os.OpenFile(path, os.O_RDWR|os.O_CREATE, 0o644)
	if err != nil {
		return nil, err
	}
	csf := &utils.ChecksumFile{Fd: fd}
	for _, o := range ops {
		switch o.Kind {
		case "chunk":
			_ = csf.AppendChunk(o.Data) // an error return leaves the file unchanged (model: None)
		case "partial":
			_ = csf.AppendPartialChunk(o.Data)
		case "flush":
			_ = csf.Flush()
		}
	}
	fd.Close()
	return os.ReadFile(path)
}

type chunkPos struct{ Off, Len int } // file offset of the magic number, data length

// layout of a well-formed chunk file (harness side; the model checks the same bytes)
func scanChunks(f []byte) ([]chunkPos, bool) {
	var out []chunkPos
	p := 0
	for p < len(f) {
		if p+12 > len(f) || utils.BytesToUint32LittleEndian(f[p:p+4]) != 0x87654321 {
			return out, false
		}
		n := int(utils.BytesToUint32LittleEndian(f[p+8 : p+12]))
		if p+12+n > len(f) {
			return out, false
		}
		out = append(out, chunkPos{p, n})
		p += 12 + n
	}
	return out, true
}

type directCase struct {
	Kind  string `json:"kind"`
	Ops   []wop  `json:"ops,omitempty"`
	File  []byte `json:"file"`
	Mut   mut    `json:"mutation"`
	Off   int    `json:"offset"`
	Len   int    `json:"len"`
	Code  int    `json:"code"`
	Data  []byte `json:"data,omitempty"`
	Error string `json:"error,omitempty"`
}

func fieldName(o int) string {
	switch {
	case o < 4:
		return "magic"
	case o < 8:
		return "crc"
	case o < 12:
		return "len"
	}
	return "data"
}

// runs reads on every mutation of one file; oracle + observations for Coq.
// chunks == nil: not a well-formed chunk file (legacy / misuse): only "no panic" + model comparison.
func sweepFile(sum *vhlib.Summary, tag string, ops []wop, file []byte, chunks []chunkPos, muts []mut, r *vhlib.Rng, tmp string) ([]string, int) {
	// aligned reads: every run i..j of chunks
	var reads []readReq
	type span struct{ i, j int }
	var spans []span
	for i := range chunks {
		n := 0
		for j := i; j < len(chunks); j++ {
			n += chunks[j].Len
			reads = append(reads, readReq{chunks[i].Off, n})
			spans = append(spans, span{i, j})
		}
	}
	nAligned := len(reads)
	// other reads: zero length, part of a chunk, one byte too many, data offsets, random
	if len(chunks) > 0 {
		c := chunks[r.Intn(len(chunks))]
		reads = append(reads, readReq{c.Off, 0}, readReq{c.Off, c.Len - 1}, readReq{c.Off, c.Len + 1}, readReq{c.Off + 12, c.Len})
	}
	for k := 0; k < 3; k++ {
		reads = append(reads, readReq{r.Intn(len(file) + 3), r.Intn(14)})
	}
	var obs []string
	mpath := filepath.Join(tmp, "mut.bin")
	for _, m := range muts {
		mf := m.apply(file)
		_ = os.WriteFile(mpath, mf, 0o644)
		var items []string
		for ri, rq := range reads {
			code, data, msg := realRead(mpath, rq.Off, rq.Len)
			sum.Eval(fmt.Sprintf("%s/%s/%d/%d/%d/%d", tag, m.Kind, m.K, m.V, rq.Off, rq.Len), !bytes.Equal(mf, file))
			sum.Count("direct/" + m.Kind)
			sum.Count(fmt.Sprintf("direct/result/%d", code))
			c := directCase{Kind: tag, Ops: ops, File: file, Mut: m, Off: rq.Off, Len: rq.Len, Code: code, Data: data, Error: msg}
			items = append(items, fmt.Sprintf("((%d, %d), (%d, %s))", rq.Off, rq.Len, code, vhlib.CoqBytes(data)))
			if code == 3 {
				sum.Fail("checksumfile_readat_panic", fmt.Sprintf("ReadAt(%d bytes @%d) on %s of a %d-byte file: %s", rq.Len, rq.Off, m.coq(), len(file), msg), c)
				continue
			}
			if ri >= nAligned || chunks == nil {
				continue
			}
			// ---- property oracle (aligned reads of a well-formed chunk file) ----
			sp := spans[ri]
			orig := file[0:0:0]
			for j := sp.i; j <= sp.j; j++ {
				orig = append(orig, file[chunks[j].Off+12:chunks[j].Off+12+chunks[j].Len]...)
			}
			regionEnd := chunks[sp.j].Off + 12 + chunks[sp.j].Len
			regionStart := chunks[sp.i].Off
			switch m.Kind {
			case "keep":
				if code != 0 || !bytes.Equal(data, orig) {
					sum.Fail("checksum_roundtrip_broken", fmt.Sprintf("intact file: ReadAt(chunks %d..%d) code=%d %s", sp.i, sp.j, code, msg), c)
				}
			case "trunc":
				if m.K >= regionEnd {
					if code != 0 || !bytes.Equal(data, orig) {
						sum.Fail("truncation_affects_intact_chunks", fmt.Sprintf("cut at %d beyond chunks %d..%d (end %d): code=%d %s", m.K, sp.i, sp.j, regionEnd, code, msg), c)
					}
				} else if code == 0 {
					cls := "truncated_chunk_returned_data"
					if !bytes.Equal(data, orig) {
						cls = "altered_values_from_checksummed_block"
					}
					sum.Fail(cls, fmt.Sprintf("cut at %d inside chunks %d..%d (end %d) but ReadAt returned %d bytes with nil error", m.K, sp.i, sp.j, regionEnd, len(data)), c)
				}
			case "flip":
				touched := m.K >= regionStart && m.K < regionEnd
				if !touched {
					if code != 0 || !bytes.Equal(data, orig) {
						sum.Fail("damage_affects_other_chunks", fmt.Sprintf("byte %d altered, chunks %d..%d [%d,%d) not touched: code=%d %s", m.K, sp.i, sp.j, regionStart, regionEnd, code, msg), c)
					}
					break
				}
				// which chunk / field
				ci, fo := 0, 0
				for j := sp.i; j <= sp.j; j++ {
					if m.K >= chunks[j].Off && m.K < chunks[j].Off+12+chunks[j].Len {
						ci, fo = j, m.K-chunks[j].Off
					}
				}
				fld := fieldName(fo)
				sum.Count("direct/flip_touching/" + fld)
				if code == 0 && !bytes.Equal(data, orig) {
					cls := "altered_values_from_checksummed_block"
					if ci == 0 && fld == "magic" {
						cls = "first_chunk_magic_damage_unverified_read"
					}
					sum.Fail(cls, fmt.Sprintf("byte %d (%s of chunk %d) set to %d: ReadAt(%d bytes @%d) returned nil error and data %v instead of %v",
						m.K, fld, ci, m.V, rq.Len, rq.Off, data, orig), c)
				} else if code == 0 && fld != "len" {
					// data equal to the original although a byte of magic/crc/data changed: impossible for data, accepted damage for magic/crc
					sum.Fail("damaged_chunk_accepted", fmt.Sprintf("byte %d (%s of chunk %d) set to %d was not noticed", m.K, fld, ci, m.V), c)
				}
			}
		}
		obs = append(obs, fmt.Sprintf("(%s, %s)", m.coq(), vhlib.CoqList(items)))
		if sum.Evaluations%997 == 1 {
			sum.Sample(map[string]interface{}{"stream": "direct", "file": tag, "file_len": len(file), "chunks": len(chunks), "mutation": m.coq(), "reads": len(reads)})
		}
	}
	return obs, len(reads)
}

func genMuts(r *vhlib.Rng, f []byte, chunks []chunkPos, thorough bool, nflips int, includeFirstMagic bool) []mut {
	ms := []mut{{Kind: "keep"}}
	for k := 0; k < len(f); k++ {
		ms = append(ms, mut{Kind: "trunc", K: k})
	}
	firstMagic := func(i int) bool { return len(chunks) > 0 && i < 4 }
	add := func(i, v int) {
		v &= 0xFF
		if i >= len(f) || int(f[i]) == v {
			return
		}
		if firstMagic(i) && !includeFirstMagic {
			return // known class, generated by the separate stream
		}
		ms = append(ms, mut{Kind: "flip", K: i, V: v})
	}
	if thorough {
		for i := range f {
			for _, v := range []int{int(f[i]) ^ 0xFF, int(f[i]) ^ 0x01, 0, int(f[i]) ^ 0x80, int(f[i]) + 1} {
				add(i, v)
			}
		}
		return ms
	}
	// every header byte of every chunk once, then random positions
	for _, c := range chunks {
		for o := 0; o < 12; o++ {
			add(c.Off+o, int(f[c.Off+o])^(1<<uint(r.Intn(8))))
		}
	}
	for j := 0; j < nflips && len(f) > 0; j++ {
		i := r.Intn(len(f))
		v := r.Intn(256)
		if r.Chance(50) {
			v = int(f[i]) ^ (1 << uint(r.Intn(8)))
		}
		add(i, v)
	}
	return ms
}

func randBytes(r *vhlib.Rng, n int) []byte {
	b := make([]byte, n)
	for i := range b {
		switch r.Intn(6) {
		case 0:
			b[i] = 0
		case 1:
			b[i] = 0xFF
		case 2:
			b[i] = []byte{0x21, 0x43, 0x65, 0x87}[i%4] // looks like the magic number
		default:
			b[i] = byte(r.Intn(256))
		}
	}
	return b
}

func coqOps(ops []wop) string {
	items := make([]string, len(ops))
	for i, o := range ops {
		items[i] = o.coq()
	}
	return vhlib.CoqList(items)
}

func runDirect(cfg vhlib.Config, sum *vhlib.Summary, r *vhlib.Rng) {
	tmp := filepath.Join(cfg.Out, "direct")
	_ = os.MkdirAll(tmp, 0o755)
	nfiles, nflips := 7, 45
	if cfg.Thorough() {
		nfiles = 36
	}
	for fi := 0; fi < nfiles; fi++ {
		rr := r.Fork()
		var ops []wop
		kind := "chunks"
		switch {
		case fi%7 == 5:
			kind = "legacy" // no magic number at offset 0: the backward-compatible raw read
		case fi%7 == 6:
			kind = "misuse" // API misuse: chunk while a partial one is open, flush without data, empty data
		}
		var file []byte
		var err error
		path := filepath.Join(tmp, fmt.Sprintf("f%d.bin", fi))
		switch kind {
		case "chunks":
			nc := rr.Range(1, 4)
			for c := 0; c < nc; c++ {
				if rr.Chance(50) {
					ops = append(ops, wop{Kind: "chunk", Data: randBytes(rr, rr.Range(1, 12))})
				} else {
					// writeWip shape: one byte of encoding type, then the block
					ops = append(ops, wop{Kind: "partial", Data: []byte{byte(rr.Intn(3))}})
					if rr.Chance(85) {
						ops = append(ops, wop{Kind: "partial", Data: randBytes(rr, rr.Range(1, 11))})
					}
					if rr.Chance(20) {
						ops = append(ops, wop{Kind: "partial", Data: nil})
					}
					ops = append(ops, wop{Kind: "flush"})
				}
			}
			file, err = realWrite(path, ops)
		case "legacy":
			file = randBytes(rr, rr.Range(5, 40))
			if file[0] == 0x21 {
				file[0] = 0x20
			}
			err = os.WriteFile(path, file, 0o644)
		case "misuse":
			ops = []wop{{Kind: "chunk", Data: randBytes(rr, 3)}, {Kind: "chunk", Data: nil}, {Kind: "partial", Data: randBytes(rr, 2)},
				{Kind: "chunk", Data: randBytes(rr, 2)}, {Kind: "partial", Data: randBytes(rr, 3)}, {Kind: "flush"}}
			if rr.Chance(50) {
				ops = append(ops, wop{Kind: "flush"}) // a second Flush rewrites the header at offset 0 with crc 0 / length 0
			}
			file, err = realWrite(path, ops)
		}
		if err != nil {
			sum.HarnessError("direct write: " + err.Error())
			continue
		}
		sum.Count("direct/file/" + kind)
		var chunks []chunkPos
		if kind == "chunks" {
			var ok bool
			chunks, ok = scanChunks(file)
			if !ok {
				sum.Fail("chunk_layout_broken", fmt.Sprintf("file written by the real ChecksumFile is not a sequence of magic|crc|len|data chunks (%d bytes)", len(file)),
					directCase{Kind: kind, Ops: ops, File: file})
				chunks = nil
			}
		}
		muts := genMuts(rr, file, chunks, cfg.Thorough(), nflips, false)
		obs, nreads := sweepFile(sum, fmt.Sprintf("%s%d", kind, fi), ops, file, chunks, muts, rr, tmp)
		// known-defect stream: the 4 magic bytes of the first chunk
		var kobs []string
		if kind == "chunks" && chunks != nil {
			var km []mut
			for i := 0; i < 4; i++ {
				km = append(km, mut{Kind: "flip", K: i, V: int(file[i]) ^ (1 << uint(rr.Intn(8)))})
				if cfg.Thorough() {
					km = append(km, mut{Kind: "flip", K: i, V: int(file[i]) ^ 0xFF}, mut{Kind: "flip", K: i, V: 0})
				}
			}
			kobs, _ = sweepFile(sum, fmt.Sprintf("%s%d/known", kind, fi), ops, file, chunks, km, rr, tmp)
		}
		all := append(obs, kobs...)
		// shard the case files
		const per = 60
		for s := 0; s*per < len(all); s++ {
			hi := (s + 1) * per
			if hi > len(all) {
				hi = len(all)
			}
			var defs, expr string
			switch {
			case kind == "legacy":
				defs = "Definition file : list N := " + vhlib.CoqBytes(file) + ".\n" +
					"Definition obs : list (mutation * list read_obs) := " + vhlib.CoqListNL(all[s*per:hi]) + ".\n"
				expr = "check_muts file obs 1"
			case kind == "chunks" && chunks != nil:
				// + model self-check: where damage_guard holds the model's read is an error or the original
				var ds, flips []string
				for _, ch := range chunks {
					ds = append(ds, vhlib.CoqBytes(file[ch.Off+12:ch.Off+12+ch.Len]))
				}
				lo := s * per
				for mi := lo; mi < hi; mi++ {
					if mi < len(muts) && muts[mi].Kind == "flip" {
						flips = append(flips, fmt.Sprintf("(%d, %d)", muts[mi].K, muts[mi].V))
					}
				}
				defs = "Definition ops : list wop := " + coqOps(ops) + ".\n" +
					"Definition ds : list (list N) := " + vhlib.CoqList(ds) + ".\n" +
					"Definition file : list N := " + vhlib.CoqBytes(file) + ".\n" +
					"Definition flips : list (N * N) := " + vhlib.CoqList(flips) + ".\n" +
					"Definition obs : list (mutation * list read_obs) := " + vhlib.CoqListNL(all[s*per:hi]) + ".\n"
				expr = "check_ops_self ops ds file obs flips"
			default:
				defs = "Definition ops : list wop := " + coqOps(ops) + ".\n" +
					"Definition file : list N := " + vhlib.CoqBytes(file) + ".\n" +
					"Definition obs : list (mutation * list read_obs) := " + vhlib.CoqListNL(all[s*per:hi]) + ".\n"
				expr = "check_ops ops file obs"
			}
			sum.WriteCaseFile(cfg.Out, fmt.Sprintf("cases_direct_%d_%d", fi, s), "From SigM Require Import Base Crc32 ChecksumFile ChecksumFileCheck.\n", defs, expr, (hi-s*per)*nreads+1)
		}
	}
}

// ---------------------------------------------------------------------------
// (b) end to end
// ---------------------------------------------------------------------------

type storeFile struct {
	Rel  string // path relative to the data dir
	Size int
	Seg  string // A | B | M | shared
	Kind string // extension / role
}

type e2eMut struct {
	File string `json:"file"`
	Kind string `json:"kind"` // xor | set | trunc
	Pos  int    `json:"pos"`
	Val  int    `json:"val"`
	Size int    `json:"file_size"`
	// known-class hang sample: run once with the generous per-query limit instead of twice
	Generous bool `json:"generous,omitempty"`
	// pool stream: the query list is run Rounds times in one process with GOMAXPROCS = Procs (0 = default)
	Rounds int `json:"rounds,omitempty"`
	Procs  int `json:"gomaxprocs,omitempty"`
}

func procsEnv(p int) string {
	if p > 0 {
		return fmt.Sprintf("export GOMAXPROCS=%d; ", p)
	}
	return ""
}

func (m e2eMut) String() string {
	if m.Rounds > 1 {
		m2 := m
		m2.Rounds = 0
		return fmt.Sprintf("%s, then the query list %d times in one process, GOMAXPROCS=%d", m2.String(), m.Rounds, m.Procs)
	}
	if m.Kind == "trunc" {
		return fmt.Sprintf("truncate %s (%d bytes) to %d", m.File, m.Size, m.Pos)
	}
	return fmt.Sprintf("%s 0x%02X byte %d of %s (%d bytes)", m.Kind, m.Val, m.Pos, m.File, m.Size)
}

func (m e2eMut) apply(b []byte) []byte {
	out := append([]byte{}, b...)
	switch m.Kind {
	case "trunc":
		if m.Pos < len(out) {
			out = out[:m.Pos]
		}
	case "xor":
		if m.Pos < len(out) {
			out[m.Pos] ^= byte(m.Val)
		}
	case "set":
		if m.Pos < len(out) {
			out[m.Pos] = byte(m.Val)
		}
	}
	return out
}

func classifyFile(rel string) (seg, kind string, ok bool) {
	parts := strings.Split(rel, "/")
	base := parts[len(parts)-1]
	switch {
	case strings.Contains(rel, "/final/"+indexName+"/"):
		// .../final/c18idx/<stream>/<segnum>/...
		for i, p := range parts {
			if p == indexName && i+2 < len(parts) {
				switch parts[i+2] {
				case "0":
					seg = "A"
				case "1":
					seg = "B"
				}
			}
		}
		if seg == "" {
			return "", "", false
		}
		kind = strings.TrimPrefix(filepath.Ext(base), ".")
		if kind == "" {
			kind = "noext"
		}
		return seg, kind, true
	case strings.Contains(rel, "/final/ts/") || strings.Contains(rel, "/final/tth/"):
		kind = strings.TrimPrefix(filepath.Ext(base), ".")
		if kind == "" {
			kind = "tth"
		}
		if base == "segment-validity.json" {
			return "", "", false
		}
		return "M", kind, true
	case base == "segmeta.json" || base == "metricmeta.json":
		return "shared", base, true
	}
	return "", "", false // suffix files, WAL (C10), virtual table names: not segment files
}

func listStore(data string) ([]storeFile, error) {
	var out []storeFile
	err := filepath.Walk(data, func(p string, info os.FileInfo, err error) error {
		if err != nil || info.IsDir() {
			return err
		}
		rel, _ := filepath.Rel(data, p)
		seg, kind, ok := classifyFile(rel)
		if ok {
			out = append(out, storeFile{Rel: rel, Size: int(info.Size()), Seg: seg, Kind: kind})
		}
		return nil
	})
	sort.Slice(out, func(i, j int) bool { return out[i].Rel < out[j].Rel })
	return out, err
}

func copyTree(src, dst string) error {
	return filepath.Walk(src, func(p string, info os.FileInfo, err error) error {
		if err != nil {
			return err
		}
		rel, _ := filepath.Rel(src, p)
		t := filepath.Join(dst, rel)
		if info.IsDir() {
			return os.MkdirAll(t, 0o755)
		}
		b, err := os.ReadFile(p)
		if err != nil {
			return err
		}
		return os.WriteFile(t, b, 0o644)
	})
}

const workerVmKB = 6000000 // ulimit -v of a query worker (a hostile length field cannot take the machine down)

// runs the query worker on the store at dir; returns observations, status: ok | crash | hang
func runQueryWorker(data, outPath string, timeout time.Duration, perQuerySec int) (*workerOut, string, string) {
	return runQueryWorkerN(data, outPath, timeout, perQuerySec, 1, 0)
}

func runQueryWorkerN(data, outPath string, timeout time.Duration, perQuerySec, rounds, procs int) (*workerOut, string, string) {
	_ = os.Remove(outPath)
	ctx, cancel := context.WithTimeout(context.Background(), timeout)
	defer cancel()
	cmd := exec.CommandContext(ctx, "/bin/sh", "-c", fmt.Sprintf("ulimit -v %d; %sexec %q worker query %q %q 1 %d %d", workerVmKB, procsEnv(procs), os.Args[0], data, outPath, perQuerySec, rounds))
	var stderr bytes.Buffer
	cmd.Stderr = &stderr
	err := cmd.Run()
	var wo workerOut
	if b, rerr := os.ReadFile(outPath); rerr == nil {
		_ = json.Unmarshal(b, &wo)
	}
	tail := stderr.String()
	// keep the first fatal/panic line
	msg := ""
	for _, ln := range strings.Split(tail, "\n") {
		if strings.HasPrefix(ln, "fatal error:") || strings.HasPrefix(ln, "panic:") || strings.Contains(ln, "out of memory") || strings.Contains(ln, "cannot allocate") {
			msg = ln
			break
		}
	}
	// the first siglens frame below the panic: the crash site
	if i := strings.Index(tail, "[running]:"); i >= 0 {
		for _, ln := range strings.Split(tail[i:], "\n") {
			if strings.HasPrefix(ln, "github.com/siglens/siglens/") {
				site := ln
				if k := strings.LastIndex(site, "("); k > 0 {
					site = site[:k]
				}
				msg += " at " + strings.TrimPrefix(site, "github.com/siglens/siglens/")
				break
			}
		}
	}
	if ctx.Err() == context.DeadlineExceeded {
		return &wo, "hang", msg
	}
	for _, q := range wo.Q {
		if q.Err == "timeout" && err == nil && wo.Done {
			return &wo, "hang", "query " + q.Name + " did not return within the per-query limit"
		}
	}
	if err != nil || !wo.Done {
		if msg == "" && len(tail) > 300 {
			msg = tail[len(tail)-300:]
		} else if msg == "" {
			msg = tail
		}
		return &wo, "crash", fmt.Sprintf("%v: %s", err, msg)
	}
	return &wo, "ok", ""
}

// ---- expected answers per set of searchable blocks (A1, A2, A3, B1, B2) ----
func units() []unit { return storeBlocks() }

func evRecord(e event) string {
	return canon(map[string]interface{}{"grp": e.Grp, "id": e.ID, "msg": e.Msg, "n": e.N, "seg": e.Seg, "timestamp": e.TS, "w": e.Word})
}

// matches of a log search query on one event (the spec side of the four search queries)
func evMatches(q string, e event) bool {
	switch q {
	case "all", "asc":
		return true
	case "tb": // time-bounded search of the access-sequence stream
		return e.TS >= tbLo && e.TS <= tbHi
	case "term":
		return e.Word == "alpha"
	case "msg":
		return e.Msg == "msg-a-7-xx" || e.Msg == "msg-b-104-xxxx"
	case "num":
		return e.N > 50 && e.N < 1060
	}
	return false
}

func expectedStats(q string, evs []event) map[string]string {
	out := map[string]string{}
	switch q {
	case "stats":
		type acc struct{ c, s int }
		m := map[string]*acc{}
		for _, e := range evs {
			if m[e.Grp] == nil {
				m[e.Grp] = &acc{}
			}
			m[e.Grp].c++
			m[e.Grp].s += e.N
		}
		for g, a := range m {
			out[g] = fmt.Sprintf("{\"c\":%d,\"s\":%d}", a.c, a.s)
		}
	case "count":
		c := 0
		for _, e := range evs {
			if e.Word == "alpha" {
				c++
			}
		}
		out["*"] = fmt.Sprintf("{\"c\":%d}", c)
	}
	return out
}

func eqMap(a, b map[string]string) bool {
	if len(a) != len(b) {
		return false
	}
	for k, v := range a {
		if b[k] != v {
			return false
		}
	}
	return true
}

// outcome of one query for the three log units: which units are missing, or altered
type qOutcome struct {
	Missing map[string]bool // unit names (search: a unit is missing if ANY of its matching records is missing)
	ColMiss map[string]bool // units with a record returned without some of its columns (the present ones are original)
	// aggregates: every set of missing blocks that explains the answer (counts can be ambiguous);
	// Missing is the first one, the caller prefers one inside the damaged segment
	MissAlts []map[string]bool
	Altered string          // non-empty: description of values that were never ingested / wrong aggregates
	AltUnits map[string]bool // blocks whose records came back with other values
	Err     string
}

// got is want with some columns left out (all present values original)
func columnsOmitted(got, want string) bool {
	var g, w map[string]interface{}
	if json.Unmarshal([]byte(got), &g) != nil || json.Unmarshal([]byte(want), &w) != nil {
		return false
	}
	for k, v := range g {
		wv, ok := w[k]
		if !ok || canon(wv) != canon(v) {
			return false
		}
	}
	return len(g) < len(w)
}

func judgeQuery(q qres) qOutcome {
	o := qOutcome{Missing: map[string]bool{}, ColMiss: map[string]bool{}, Err: q.Err}
	us := units()
	switch q.Name {
	case "all", "asc", "term", "msg", "num", "tb":
		want := map[string]string{}
		owner := map[string]string{}
		for _, u := range us {
			for _, e := range u.Evs {
				if evMatches(q.Name, e) {
					k := fmt.Sprintf("%d", e.ID)
					want[k] = evRecord(e)
					owner[k] = u.Name
				}
			}
		}
		for k, rec := range q.Recs {
			w, ok := want[k]
			if !ok {
				o.Altered = fmt.Sprintf("record id=%s not expected for query %s: %s", k, q.Name, rec)
			} else if w != rec {
				if columnsOmitted(rec, w) {
					o.ColMiss[owner[k]] = true
				} else {
					o.Altered = fmt.Sprintf("record id=%s altered: got %s want %s", k, rec, w)
					if o.AltUnits == nil {
						o.AltUnits = map[string]bool{}
					}
					o.AltUnits[owner[k]] = true
				}
			}
		}
		for _, rec := range q.NoID {
			// a record without its id column: acceptable only as "columns omitted" of some expected record
			ok := false
			for k, w := range want {
				if columnsOmitted(rec, w) {
					ok = true
					o.ColMiss[owner[k]] = true
					o.Missing[owner[k]] = o.Missing[owner[k]] // attribution only
					break
				}
			}
			if !ok {
				o.Altered = fmt.Sprintf("record without id that is no projection of an ingested record: %s", rec)
			}
		}
		if q.Dup {
			o.Altered = "duplicate record id"
		}
		for k := range want {
			if _, ok := q.Recs[k]; !ok && len(q.NoID) == 0 {
				o.Missing[owner[k]] = true
			}
		}
		for u, v := range o.Missing {
			if !v {
				delete(o.Missing, u)
			}
		}
	case "stats", "count":
		// the answer must be the aggregate over some subset of the blocks
		found := false
		got := q.Groups
		if got == nil {
			got = map[string]string{}
		}
		if q.Name == "count" && len(got) == 0 {
			got = map[string]string{"*": "{\"c\":0}"}
		}
		for mask := 1<<uint(len(us)) - 1; mask >= 0; mask-- {
			var evs []event
			miss := map[string]bool{}
			for i, u := range us {
				if mask&(1<<uint(i)) != 0 {
					evs = append(evs, u.Evs...)
				} else {
					miss[u.Name] = true
				}
			}
			if eqMap(expectedStats(q.Name, evs), got) {
				if !found {
					o.Missing = miss
				}
				found = true
				o.MissAlts = append(o.MissAlts, miss)
			}
		}
		if !found {
			o.Altered = fmt.Sprintf("aggregate %s matches no subset of the ingested blocks: %v", q.Name, q.Groups)
		}
		if q.Dup {
			o.Altered = "duplicate group"
		}
	}
	return o
}

func unitSeg(u string) string {
	if strings.HasPrefix(u, "A") {
		return "A"
	}
	return "B"
}

type lane struct {
	dir, data, pristine string
}

type e2eResult struct {
	Mut     e2eMut
	SF      storeFile
	Status  string // ok | crash | hang
	Msg     string
	Out     *workerOut
	Outcome string // same | missing | missing_err | altered | crash | hang | cross
}

func bloomLenField(file []byte, pos int) (bool, uint64) {
	// .cmi = records [size LE32][blockNum LE16][type][payload]; bloom payload = m BE64, k BE64, bitset length BE64, words
	p := 0
	for p+7 <= len(file) {
		size := int(utils.BytesToUint32LittleEndian(file[p : p+4]))
		typ := file[p+6]
		if typ == 1 && pos >= p+23 && pos < p+31 && p+31 <= len(file) {
			return true, 0
		}
		if size <= 0 {
			break
		}
		p += 4 + size
	}
	return false, 0
}

// known crash sites (file kind, first siglens frame below the panic) -> known sub-class of
// query_crash_on_damaged_file; anything else stays in the generic class (= VIOLATION)
var crashSites = []struct{ kind, site, class string }{
	{"bsu", "microreader.ReadBlockSummaries", "bsu_truncated_block_summary_panic"},
	{"cmi", "metadata.readRangeIndexFromByteArray", "cmi_range_index_length_panic"},
	{"cmi", "metadata.rangeIndexToBytes", "cmi_range_index_length_panic"},
	{"cmi", "metadata.doBloomCheckForCol", "cmi_bloom_zero_size_divide_panic"},
	{"mbsu", "microreader.ReadMetricsBlockSummaries", "metrics_mbsu_truncated_panic"},
	{"mbsu", "utils.BytesToUint16LittleEndian", "metrics_mbsu_truncated_panic"},
	{"mbsu", "utils.BytesToUint32LittleEndian", "metrics_mbsu_truncated_panic"},
	{"mnm", "metadata.ReadMetricNames", "metrics_mnm_length_panic"},
	{"tsg", "metrics/series.", "metrics_series_offset_panic"},
	{"tso", "metrics/series.", "metrics_series_offset_panic"},
	{"tth", "metrics/tagstree.", "metrics_tagstree_length_panic"},
}

var allocRx = regexp.MustCompile(`cannot allocate (\d+)-byte block`)

// class of a dead query process; "" = not judged (an allocation of at most 4 GiB + slack, taken
// from a 32-bit on-disk length, refused by the worker's ulimit -v: it succeeds on a machine with
// memory, as in C10; reported in the distribution only)
func crashClass(f storeFile, known string, msg string) string {
	if m := allocRx.FindStringSubmatch(msg); m != nil {
		n, _ := strconv.ParseUint(m[1], 10, 64)
		if n <= 5<<30 {
			return ""
		}
		if f.Kind == "cmi" && known == "bloom_len" {
			return "bloom_cmi_length_oom"
		}
		return "query_crash_on_damaged_file"
	}
	for _, cs := range crashSites {
		if cs.kind == f.Kind && strings.Contains(msg, " at ") && strings.Contains(msg[strings.LastIndex(msg, " at "):], cs.site) {
			return cs.class
		}
	}
	return "query_crash_on_damaged_file"
}

var epochRx = regexp.MustCompile(`"(earliestEpochMs|latestEpochMs)":(\d+)`)

// exact inputs of the known classes (generated in a separate stream; the main stream avoids them)
//   bloom_len      : a byte of the bit-set length field of a bloom record of a .cmi file
//   segmeta_epoch  : a digit of earliestEpochMs / latestEpochMs in segmeta.json
//   csg_first_magic: byte 0..3 of a column file (magic number of its first chunk)
func knownInput(m e2eMut, f storeFile, content []byte) string {
	if m.Kind == "trunc" {
		return ""
	}
	switch {
	case f.Kind == "cmi":
		if in, _ := bloomLenField(content, m.Pos); in {
			return "bloom_len"
		}
	case f.Kind == "segmeta.json":
		for _, loc := range epochRx.FindAllSubmatchIndex(content, -1) {
			if m.Pos >= loc[4] && m.Pos < loc[5] {
				return "segmeta_epoch"
			}
		}
	case f.Kind == "csg":
		if m.Pos < 4 {
			return "csg_first_magic"
		}
	}
	return ""
}

func runE2E(cfg vhlib.Config, sum *vhlib.Summary, r *vhlib.Rng) {
	base := filepath.Join(cfg.Out, "e2e")
	nl := 8
	if cfg.Thorough() {
		nl = 12
	}
	lanes := make([]lane, nl)
	var wg sync.WaitGroup
	errs := make([]error, nl)
	for i := range lanes {
		lanes[i] = lane{dir: filepath.Join(base, fmt.Sprintf("lane%02d", i))}
		lanes[i].data = filepath.Join(lanes[i].dir, "data")
		lanes[i].pristine = filepath.Join(lanes[i].dir, "pristine")
		wg.Add(1)
		go func(l lane, i int) {
			defer wg.Done()
			_ = os.MkdirAll(l.dir, 0o755)
			ctx, cancel := context.WithTimeout(context.Background(), 120*time.Second)
			defer cancel()
			out, err := exec.CommandContext(ctx, os.Args[0], "worker", "build", l.data, "1").CombinedOutput()
			if err != nil {
				t := string(out)
				if len(t) > 400 {
					t = t[len(t)-400:]
				}
				errs[i] = fmt.Errorf("build worker: %v: %s", err, t)
				return
			}
			errs[i] = copyTree(l.data, l.pristine)
		}(lanes[i], i)
	}
	wg.Wait()
	for _, e := range errs {
		if e != nil {
			sum.HarnessError("e2e: " + e.Error())
			return
		}
	}
	files, err := listStore(lanes[0].pristine)
	if err != nil || len(files) == 0 {
		sum.HarnessError(fmt.Sprintf("e2e: cannot list the store: %v", err))
		return
	}
	for i := 1; i < nl; i++ {
		fi, _ := listStore(lanes[i].pristine)
		if len(fi) != len(files) {
			sum.HarnessError("e2e: the lanes' stores differ in their file lists")
			return
		}
		for j := range fi {
			if fi[j].Rel != files[j].Rel || fi[j].Size != files[j].Size {
				sum.HarnessError(fmt.Sprintf("e2e: lane %d differs: %s (%d) vs %s (%d)", i, fi[j].Rel, fi[j].Size, files[j].Rel, files[j].Size))
				return
			}
		}
	}
	// baseline on the pristine store: must be the specified answers
	wo, st, msg := runQueryWorker(lanes[0].data, filepath.Join(lanes[0].dir, "obs.json"), 90*time.Second, 25)
	if st != "ok" {
		sum.HarnessError("e2e: baseline worker " + st + ": " + msg)
		return
	}
	var baseMetrics map[string]string
	for _, q := range wo.Q {
		if q.Name == "metrics" {
			baseMetrics = q.Groups
			if len(q.Groups) != 2 || q.Err != "" {
				sum.HarnessError(fmt.Sprintf("e2e: baseline metrics answer unexpected: %v %s", q.Groups, q.Err))
				return
			}
			continue
		}
		o := judgeQuery(q)
		if o.Altered != "" || len(o.Missing) > 0 || q.Err != "" {
			sum.Fail("undamaged_store_wrong_answer", fmt.Sprintf("query %s on the undamaged store: altered=%q missing=%v err=%q", q.Name, o.Altered, o.Missing, q.Err),
				map[string]interface{}{"query": q})
			return
		}
	}
	sum.Count("e2e/baseline_ok")

	// ---- the readers of the unchecksummed files on the store's real files ----
	if onlySeq {
		content := map[string][]byte{}
		for _, f := range files {
			b, _ := os.ReadFile(filepath.Join(lanes[0].pristine, f.Rel))
			content[f.Rel] = b
		}
		runSeq(cfg, sum, r.Fork(), lanes, files, content)
		return
	}
	runDecoders(cfg, sum, r.Fork(), lanes[0].pristine, files)

	// ---- real column files vs the model (layout + reads) ----
	csgFiles := 0
	for _, f := range files {
		if f.Kind != "csg" {
			continue
		}
		b, _ := os.ReadFile(filepath.Join(lanes[0].pristine, f.Rel))
		chunks, ok := scanChunks(b)
		c := directCase{Kind: "csg:" + f.Rel, File: b}
		if !ok || len(chunks) == 0 {
			sum.Fail("chunk_layout_broken", "column file "+f.Rel+" written by the segment writer is not a sequence of magic|crc|len|data chunks", c)
			continue
		}
		want := 2
		if f.Seg == "A" {
			want = 3
		}
		if len(chunks) != want {
			sum.Fail("chunk_layout_broken", fmt.Sprintf("column file %s has %d chunks, the segment has %d blocks", f.Rel, len(chunks), want), c)
		}
		if csgFiles >= 4 && !cfg.Thorough() {
			continue
		}
		csgFiles++
		rr := r.Fork()
		nfl := 25
		muts := genMuts(rr, b, chunks, cfg.Thorough() && len(b) <= 120, nfl, true)
		if !cfg.Thorough() {
			// fewer truncations for the real files in the quick tier: every 3rd + chunk boundaries
			var ms []mut
			for _, m := range muts {
				if m.Kind != "trunc" || m.K%3 == 0 {
					ms = append(ms, m)
				}
			}
			muts = ms
		}
		obs, nreads := sweepFile(sum, "csg/"+filepath.Base(f.Rel), nil, b, chunks, muts, rr, filepath.Join(cfg.Out, "direct"))
		var blocks []string
		for _, ch := range chunks {
			blocks = append(blocks, vhlib.CoqBytes(b[ch.Off+12:ch.Off+12+ch.Len]))
		}
		const per = 60
		for s := 0; s*per < len(obs); s++ {
			hi := (s + 1) * per
			if hi > len(obs) {
				hi = len(obs)
			}
			defs := "Definition blocks : list (list N) := " + vhlib.CoqListNL(blocks) + ".\n" +
				"Definition file : list N := " + vhlib.CoqBytes(b) + ".\n" +
				"Definition obs : list (mutation * list read_obs) := " + vhlib.CoqListNL(obs[s*per:hi]) + ".\n"
			sum.WriteCaseFile(cfg.Out, fmt.Sprintf("cases_csg_%d_%d", csgFiles, s), "From SigM Require Import Base Crc32 ChecksumFile ChecksumFileCheck.\n",
				defs, "check_blocks blocks file obs", (hi-s*per)*nreads+1)
		}
	}

	// ---- mutations ----
	content := map[string][]byte{}
	for _, f := range files {
		b, _ := os.ReadFile(filepath.Join(lanes[0].pristine, f.Rel))
		content[f.Rel] = b
	}
	var muts []e2eMut
	var mfile []storeFile
	knownStream := false
	addMut := func(f storeFile, kind string, pos, val int) {
		if f.Size == 0 {
			return
		}
		if !knownStream && knownInput(e2eMut{File: f.Rel, Kind: kind, Pos: pos, Val: val}, f, content[f.Rel]) != "" {
			sum.Count("e2e/known_input_left_to_known_stream")
			return
		}
		if kind != "trunc" {
			if pos >= f.Size {
				return
			}
			if kind == "set" && int(content[f.Rel][pos]) == val {
				return
			}
		} else if pos >= f.Size {
			return
		}
		muts = append(muts, e2eMut{File: f.Rel, Kind: kind, Pos: pos, Val: val, Size: f.Size})
		mfile = append(mfile, f)
	}
	if cfg.Thorough() {
		for _, f := range files {
			step := 1
			if f.Size > 400 && f.Kind != "csg" {
				step = 7 // the larger files (sfm, sst, segmeta.json): every 7th position
			}
			if f.Size > 1500 && f.Kind != "csg" {
				step = 31 // pqmr
			}
			for p := 0; p < f.Size; p += step {
				addMut(f, "xor", p, 0xFF)
				addMut(f, "xor", p, 0x01)
				addMut(f, "set", p, 0)
				addMut(f, "trunc", p, 0)
			}
		}
	} else {
		// one file per (segment, kind), 8 mutations each
		groups := map[string][]storeFile{}
		var keys []string
		for _, f := range files {
			k := f.Seg + "/" + f.Kind
			if _, ok := groups[k]; !ok {
				keys = append(keys, k)
			}
			groups[k] = append(groups[k], f)
		}
		sort.Strings(keys)
		for _, k := range keys {
			g := groups[k]
			f := g[r.Intn(len(g))]
			addMut(f, "xor", r.Intn(min(8, f.Size)), 0xFF)
			addMut(f, "xor", r.Intn(min(16, f.Size)), 1<<uint(r.Intn(8)))
			addMut(f, "xor", r.Intn(f.Size), 0xFF)
			addMut(f, "xor", r.Intn(f.Size), 0x01)
			addMut(f, "set", r.Intn(f.Size), 0)
			addMut(f, "trunc", f.Size/2, 0)
			addMut(f, "trunc", f.Size-1, 0)
			addMut(f, "trunc", 0, 0)
			if len(g) > 1 { // a second file of the kind gets two more
				f2 := g[r.Intn(len(g))]
				addMut(f2, "xor", r.Intn(f2.Size), 0xFF)
				addMut(f2, "trunc", r.Intn(f2.Size), 0)
			}
		}
	}
	// column files: cuts at every chunk boundary, inside every chunk's header and inside every
	// chunk's data (not only the first chunk): a block whose file ends inside its data must be
	// refused, not served from what the reader holds from an earlier block
	for _, f := range files {
		if f.Kind != "csg" || cfg.Thorough() { // thorough enumerates every truncation length anyway
			continue
		}
		chunks, ok := scanChunks(content[f.Rel])
		if !ok {
			continue
		}
		for _, ch := range chunks {
			for _, cut := range []int{ch.Off, ch.Off + 5, ch.Off + 12, ch.Off + 12 + ch.Len/2, ch.Off + 12 + ch.Len - 1} {
				if cut > 0 {
					addMut(f, "trunc", cut, 0)
					sum.Count("e2e/csg_chunk_truncation")
				}
			}
		}
	}
	if flt := os.Getenv("C18_E2E_FILTER"); flt != "" { // exploration / replay: only files whose path contains the string
		var m2 []e2eMut
		var f2 []storeFile
		for i := range muts {
			for _, fl := range strings.Split(flt, ",") {
				if strings.Contains(muts[i].File, fl) {
					m2, f2 = append(m2, muts[i]), append(f2, mfile[i])
					break
				}
			}
		}
		muts, mfile = m2, f2
	}
	// ---- pool stream: one altered data byte in a NON-last chunk of a column file, then the whole query
	// list (every query spans both segments) several times in ONE process, with GOMAXPROCS 1 and default:
	// the readers' buffers come from process-wide pools, so what a reader does after a failed checksum
	// must not show up in the records of the other, undamaged segment ----
	npool := 0
	for _, f := range files {
		if f.Kind != "csg" {
			continue
		}
		chunks, ok := scanChunks(content[f.Rel])
		if !ok || len(chunks) < 2 {
			continue
		}
		isTs := strings.Contains(f.Rel, "_990987796498064742.csg")
		if !cfg.Thorough() && !isTs && npool >= 4 {
			continue
		}
		if !isTs {
			npool++
		}
		for ci, ch := range chunks[:len(chunks)-1] {
			if !cfg.Thorough() && ci > 0 && !isTs {
				continue
			}
			for _, procs := range []int{1, 0} {
				addMut(f, "xor", ch.Off+12+ch.Len/2, 0xFF)
				muts[len(muts)-1].Rounds, muts[len(muts)-1].Procs = 3, procs
				sum.Count("e2e/pool_stream")
			}
		}
	}

	// ---- known-class stream ----
	knownStream = true
	nMain := len(muts)
	epochSamples := 1
	if cfg.Thorough() {
		epochSamples = 3
	}
	for _, f := range files {
		b := content[f.Rel]
		switch {
		case f.Kind == "cmi" && len(b) > 31 && b[6] == 1:
			// bloom record 0: bit-set length = big-endian uint64 at bytes 23..30
			addMut(f, "xor", 25, 0xFF)
			if f.Seg == "A" {
				addMut(f, "set", 14, 0) // m (number of bits) = 0 -> cmi_bloom_zero_size_divide_panic
			}
			if cfg.Thorough() {
				for p := 23; p < 31; p++ {
					addMut(f, "xor", p, 0x01)
					addMut(f, "set", p, 0)
					if p != 25 {
						addMut(f, "xor", p, 0xFF)
					}
				}
			}
		case f.Kind == "csg":
			// the encoding-type values: the unverified read hands byte 0 to the block decoder as encoding type
			addMut(f, "set", 0, 0x02)
			addMut(f, "set", 0, 0x01)
			addMut(f, "set", 0, 0x00)
			if cfg.Thorough() {
				for p := 0; p < 4; p++ {
					addMut(f, "xor", p, 0xFF)
					addMut(f, "xor", p, 0x01)
				}
			}
		case f.Kind == "cmi" && len(b) > 8 && b[6] == 2 && f.Seg == "A":
			addMut(f, "xor", 7, 0xFF) // range index: length of the column name -> cmi_range_index_length_panic
		case f.Kind == "bsu" && f.Seg == "A":
			addMut(f, "trunc", 2, 0) // -> bsu_truncated_block_summary_panic
		case f.Kind == "mbsu":
			addMut(f, "trunc", 9, 0) // -> metrics_mbsu_truncated_panic
		case f.Kind == "mnm":
			addMut(f, "xor", 0, 0xFF) // -> metrics_mnm_length_panic
		case f.Kind == "tsg":
			addMut(f, "xor", 10, 0xFF) // -> metrics_series_offset_panic
		case f.Kind == "tso":
			addMut(f, "xor", 1, 0xFF) // -> metrics_series_offset_panic
		case f.Kind == "tth":
			addMut(f, "xor", 30, 0xFF) // -> metrics_tagstree_length_panic
		case f.Kind == "segmeta.json":
			for k, loc := range epochRx.FindAllSubmatchIndex(b, -1) {
				if k < epochSamples {
					// last digit of the millisecond value 1 -> 3: the segment's time range starts inside its first block
					addMut(f, "xor", loc[5]-1, 0x02)
					muts[len(muts)-1].Generous = true
				}
			}
		}
	}
	knownIdx := map[int]bool{}
	for i := nMain; i < len(muts); i++ {
		knownIdx[i] = true
	}

	results := make([]e2eResult, len(muts))
	jobs := make(chan int)
	for li := range lanes {
		wg.Add(1)
		go func(l lane) {
			defer wg.Done()
			for i := range jobs {
				m := muts[i]
				// restore the whole store at the SAME path, then damage one file in place
				_ = os.RemoveAll(l.data)
				if err := copyTree(l.pristine, l.data); err != nil {
					results[i] = e2eResult{Mut: m, SF: mfile[i], Status: "harness", Msg: err.Error()}
					continue
				}
				p := filepath.Join(l.data, m.File)
				b, _ := os.ReadFile(p)
				_ = os.WriteFile(p, m.apply(b), 0o644)
				lim := 12
				if m.Generous {
					lim = 40
				}
				rounds := 1
				if m.Rounds > 1 {
					rounds = m.Rounds
				}
				wo, st, msg := runQueryWorkerN(l.data, filepath.Join(l.dir, "obs.json"), time.Duration(lim*7*rounds+30)*time.Second, lim, rounds, m.Procs)
				results[i] = e2eResult{Mut: m, SF: mfile[i], Status: st, Msg: msg, Out: wo}
			}
		}(lanes[li])
	}
	for i := range muts {
		if i%1000 == 999 {
			fmt.Fprintf(os.Stderr, "c18 e2e: %d of %d mutations dispatched\n", i+1, len(muts))
		}
		jobs <- i
	}
	close(jobs)
	wg.Wait()

	// every hang is re-run alone with a generous limit before it is believed
	for i := range results {
		// a dead worker without a Go panic / fatal-error line (e.g. "pthread_create failed" + SIGABRT when the
		// address-space limit is hit under load) is re-run alone as well and judged by that run
		unclear := results[i].Status == "crash" && !strings.Contains(results[i].Msg, "panic:") && !strings.Contains(results[i].Msg, "fatal error:") &&
			!strings.Contains(results[i].Msg, "out of memory") && !strings.Contains(results[i].Msg, "cannot allocate")
		if unclear {
			sum.Count("e2e/unclear_crash_rerun_alone")
		}
		if !unclear && (results[i].Status != "hang" || results[i].Mut.Generous) {
			continue
		}
		sum.Count("e2e/timeout_rerun_alone")
		l := lanes[0]
		_ = os.RemoveAll(l.data)
		_ = copyTree(l.pristine, l.data)
		p := filepath.Join(l.data, results[i].Mut.File)
		b, _ := os.ReadFile(p)
		_ = os.WriteFile(p, results[i].Mut.apply(b), 0o644)
		wo, st, msg := runQueryWorker(l.data, filepath.Join(l.dir, "obs.json"), 300*time.Second, 40)
		results[i].Status, results[i].Msg, results[i].Out = st, msg, wo
	}

	logf, _ := os.Create(filepath.Join(cfg.Out, "e2e_results.jsonl"))
	defer logf.Close()
	for i, res := range results {
		m, f := res.Mut, res.SF
		stream := "main"
		if knownIdx[i] {
			stream = "known"
		}
		sum.Eval("e2e/"+m.String(), true)
		sum.Count("e2e/file/" + f.Seg + "/" + f.Kind)
		sum.Count("e2e/mutation/" + m.Kind)
		c := map[string]interface{}{"stream": "e2e", "mutation": m, "segment": f.Seg, "status": res.Status, "message": res.Msg,
			"how": "build the store with `c18 worker build <dir> 1`, apply the mutation to <dir>/" + m.File + ", run `c18 worker query <dir> out.json 1`"}
		if res.Status != "ok" {
			lb, _ := json.Marshal(map[string]interface{}{"m": m, "seg": f.Seg, "kind": f.Kind, "outcome": res.Status, "msg": res.Msg})
			fmt.Fprintln(logf, string(lb))
		}
		switch res.Status {
		case "harness":
			sum.HarnessError("e2e: " + res.Msg)
			continue
		case "crash":
			done := []string{}
			for _, q := range res.Out.Q {
				done = append(done, q.Name)
			}
			cls := crashClass(f, knownInput(m, f, content[f.Rel]), res.Msg)
			if cls == "" {
				sum.Count("e2e/outcome/alloc_le_4gib_refused_by_worker_vm_limit/" + f.Kind)
				continue
			}
			sum.Count("e2e/outcome/crash/" + f.Kind)
			sum.Count("e2e/crash_class/" + cls)
			sum.Fail(cls, fmt.Sprintf("%s: the query process died (%s) after answering %v", m, res.Msg, done), c)
			continue
		case "hang":
			sum.Count("e2e/outcome/hang/" + f.Kind)
			hung := []string{}
			for _, q := range res.Out.Q {
				if q.Err == "timeout" {
					hung = append(hung, q.Name)
				}
			}
			hcls := "query_hang_on_damaged_file"
			if knownInput(m, f, content[f.Rel]) == "segmeta_epoch" {
				hcls = "segmeta_epoch_damage_search_spins"
			}
			sum.Fail(hcls, fmt.Sprintf("%s: run alone, queries %v did not return within 40 s, process spinning (%s)", m, hung, res.Msg), c)
			continue
		}
		// judge the answers
		outcome := "same"
		var details []string
		crossSeg := ""
		altered := ""
		colMissing := false
		crossAltered := ""
		for _, q := range res.Out.Q {
			if q.Name == "init" {
				outcome = "missing_err"
				details = append(details, "init: "+q.Err)
				if f.Seg != "shared" {
					crossSeg = "node start-up failed: " + q.Err
				}
				continue
			}
			if strings.HasPrefix(q.Err, "panic:") {
				// no recover in the server's handlers: a panic in the request goroutine ends the process
				cls := crashClass(f, knownInput(m, f, content[f.Rel]), q.Err)
				sum.Count("e2e/outcome/panic_in_query/" + f.Kind)
				sum.Count("e2e/crash_class/" + cls)
				sum.Fail(cls, fmt.Sprintf("%s: query %s panicked in the request goroutine: %s", m, q.Name, q.Err), c)
			}
			if q.Name == "metrics" {
				if q.Err != "" {
					details = append(details, "metrics err: "+q.Err)
				}
				if eqMap(q.Groups, baseMetrics) {
					continue
				}
				// series missing / error / altered points
				bad := false
				for s, pts := range q.Groups {
					bp, ok := baseMetrics[s]
					if !ok {
						bad = true
						altered = fmt.Sprintf("metrics series %s was never ingested (points %s)", s, pts)
						continue
					}
					have := map[string]bool{}
					for _, it := range strings.Split(bp, ";") {
						have[it] = true
					}
					for _, it := range strings.Split(pts, ";") {
						if !have[it] {
							bad = true
							altered = fmt.Sprintf("metrics series %s has point %s (ingested: %s)", s, it, bp)
						}
					}
				}
				if f.Seg != "M" && f.Seg != "shared" {
					crossSeg = fmt.Sprintf("metrics answer changed: %v", q.Groups)
				}
				if !bad {
					if q.Err != "" {
						outcome = "missing_err"
					} else if outcome == "same" {
						outcome = "missing"
					}
				}
				continue
			}
			o := judgeQuery(q)
			if q.Err != "" {
				details = append(details, q.Name+" err: "+q.Err)
			}
			// an aggregate that several sets of missing blocks explain: prefer one inside the damaged segment
			for _, alt := range o.MissAlts {
				inside := true
				for u := range alt {
					if unitSeg(u) != f.Seg {
						inside = false
					}
				}
				if inside {
					o.Missing = alt
					break
				}
			}
			if o.Altered != "" {
				altered = q.Name + ": " + o.Altered
			}
			for u := range o.AltUnits {
				if f.Seg != "shared" && f.Seg != "M" && unitSeg(u) != f.Seg {
					crossAltered = fmt.Sprintf("query %s: %s", q.Name, o.Altered)
				}
			}
			for u := range o.Missing {
				if f.Seg != "shared" && unitSeg(u) != f.Seg {
					crossSeg = fmt.Sprintf("query %s lost events of block %s (err=%q)", q.Name, u, q.Err)
				}
			}
			for u := range o.ColMiss {
				if f.Seg != "shared" && unitSeg(u) != f.Seg {
					crossSeg = fmt.Sprintf("query %s returned records of block %s without some columns (err=%q)", q.Name, u, q.Err)
				}
				colMissing = true
				details = append(details, fmt.Sprintf("%s: records of %s returned without some columns err=%q", q.Name, u, q.Err))
			}
			if len(o.Missing) > 0 {
				if q.Err != "" {
					outcome = "missing_err"
				} else if outcome == "same" {
					outcome = "missing"
				}
				details = append(details, fmt.Sprintf("%s: missing %v err=%q", q.Name, keys(o.Missing), q.Err))
			}
		}
		if crossAltered != "" {
			sum.Count("e2e/outcome/cross_altered/" + f.Kind)
			sum.Fail("cross_segment_values_altered_after_damage", fmt.Sprintf("%s (segment %s damaged): records of the UNDAMAGED segment came back altered: %s", m, f.Seg, crossAltered), c)
		}
		if altered != "" {
			outcome = "altered"
			if f.Kind == "csg" && knownInput(m, f, content[f.Rel]) == "csg_first_magic" {
				sum.Fail("first_chunk_magic_damage_unverified_read", fmt.Sprintf("END TO END: %s (magic number of the first chunk of a column file): %s", m, altered), c)
			} else if f.Kind == "csg" {
				sum.Fail("altered_values_from_checksummed_block", fmt.Sprintf("%s: %s", m, altered), c)
			} else {
				sum.Count("e2e/altered_unchecksummed/" + f.Kind)
				if len(sum.Notes) < 12 {
					sum.Notes = append(sum.Notes, fmt.Sprintf("altered values from a file without checksum (observed, not a violation of the checksummed-block clause): %s: %s", m, altered))
				}
			}
		}
		if colMissing && outcome == "same" {
			outcome = "column_missing"
		}
		if crossSeg != "" {
			sum.Count("e2e/outcome/cross/" + f.Kind)
			sum.Fail("cross_segment_effect", fmt.Sprintf("%s (segment %s): %s", m, f.Seg, crossSeg), c)
		}
		sum.Count("e2e/outcome/" + outcome + "/" + f.Kind)
		sum.Count("e2e/stream/" + stream)
		lb, _ := json.Marshal(map[string]interface{}{"m": m, "seg": f.Seg, "kind": f.Kind, "outcome": outcome, "details": details, "altered": altered})
		fmt.Fprintln(logf, string(lb))
		if i%41 == 0 {
			sum.Sample(map[string]interface{}{"stream": "e2e", "mutation": m.String(), "segment": f.Seg, "outcome": outcome, "details": details})
		}
	}

	// ---- access sequences on a damaged block-summary file (the lazily loaded shared search metadata) ----
	runSeq(cfg, sum, r.Fork(), lanes, files, content)
}

func keys(m map[string]bool) []string {
	var out []string
	for k := range m {
		out = append(out, k)
	}
	sort.Strings(out)
	return out
}

// C18_ONLY=seq: run only the access-sequence stream (exploration aid, never set by ./check)
var onlySeq = os.Getenv("C18_ONLY") == "seq"

func main() {
	if len(os.Args) >= 3 && os.Args[1] == "worker" {
		switch os.Args[2] {
		case "build":
			workerBuild(os.Args[3], len(os.Args) > 4 && os.Args[4] == "1")
		case "buildpq":
			workerBuildPQ(os.Args[3])
		case "pq":
			from, _ := strconv.Atoi(os.Args[6])
			if len(os.Args) > 7 {
				if n, err := strconv.Atoi(os.Args[7]); err == nil && n > 0 {
					queryTimeout = time.Duration(n) * time.Second
				}
			}
			workerPQ(os.Args[3], os.Args[4], os.Args[5], from)
		case "readers":
			seed, _ := strconv.ParseUint(os.Args[5], 10, 64)
			n, _ := strconv.Atoi(os.Args[6])
			workerReaders(os.Args[3], os.Args[4], seed, n)
		case "decode":
			from, _ := strconv.Atoi(os.Args[6])
			workerDecode(os.Args[3], os.Args[4], os.Args[5], from)
		case "seq":
			if len(os.Args) > 6 {
				if n, err := strconv.Atoi(os.Args[6]); err == nil && n > 0 {
					queryTimeout = time.Duration(n) * time.Second
				}
			}
			workerSeq(os.Args[3], os.Args[4], os.Args[5])
		case "query":
			if len(os.Args) > 6 {
				if n, err := strconv.Atoi(os.Args[6]); err == nil && n > 0 {
					queryTimeout = time.Duration(n) * time.Second
				}
			}
			if len(os.Args) > 7 {
				if n, err := strconv.Atoi(os.Args[7]); err == nil && n > 0 {
					queryRounds = n
				}
			}
			workerQuery(os.Args[3], os.Args[4], len(os.Args) > 5 && os.Args[5] == "1")
		}
		return
	}
	log.SetLevel(log.PanicLevel)
	log.SetOutput(os.Stderr)
	cfg := vhlib.ParseFlags()
	sum := vhlib.NewSummary("direct stream: one case = one ReadAt call (offset, length) of the real ChecksumFile on one (file, mutation) pair; files of 1-4 chunks written by AppendChunk / AppendPartialChunk+Flush, " +
		"legacy files, API-misuse files, and the real column files of the store; mutations: none, every truncation length, single-byte modifications " +
		"(quick: every chunk-header byte + random positions; thorough: every position x 5 values). " +
		"e2e stream: one case = one mutation (byte xor 0xFF / xor one bit / set 0 / truncation) of one stored file of a 2-log-segment + 1-metrics-segment store, " +
		"8 queries in a fresh worker process. seq stream: one case = one damaged block-summary file (.bsu: truncations at / inside every record, header fields) + one seeded SEQUENCE of 5-9 accesses " +
		"of different kinds (persistent-query path, bulk timestamp / record readers, GetLoadSsm, memory rebalance evict / load, ordinary, repeated and time-bounded queries; every kind first in turn) in ONE worker process. " +
		"pq stream: one case = one damaged persistent-query match-result file (.pqmr of one of four persistent queries: every cut at / inside the last record, cuts in the earlier records, one replaced byte per field of every record; " +
		"thorough: every truncation length, five values of every byte) + the query it belongs to asked twice in a worker process. " +
		"non-trivial = the mutation changes the file; distinct by (file, mutation, read / access sequence)")
	r := vhlib.NewRng(cfg.Seed)
	// the persistent-query stream has its own stores and its own random stream (the other streams' cases do not move);
	// it runs beside the others
	pqDone := make(chan struct{})
	go func() {
		defer close(pqDone)
		if !onlySeq && os.Getenv("C18_SKIP") != "pq" { // C18_SKIP=pq: exploration aid (timing), never set by ./check
			runPQ(cfg, sum, vhlib.NewRng(cfg.Seed^0x70716d72))
		}
	}()
	if os.Getenv("C18_ONLY") == "pq" { // exploration: only the persistent-query stream
		<-pqDone
		sum.Notes = append(sum.Notes, pqNotes...)
		sum.Write(cfg.Out)
		return
	}
	if onlySeq { // exploration: only the access-sequence stream (the forks keep the random streams aligned)
		r.Fork()
		r.Fork()
		r.Fork()
	} else {
		runDirect(cfg, sum, r.Fork())
		runReaders(cfg, sum, r.Fork())
		runPoolTrace(cfg, sum, r.Fork())
	}
	runE2E(cfg, sum, r.Fork())
	<-pqDone
	sum.Notes = append(sum.Notes, pqNotes...)
	sum.Write(cfg.Out)
}

// ---------------------------------------------------------------------------
// (c) decoders of the unchecksummed files: real readers vs the model MetaDecoders.v
// ---------------------------------------------------------------------------

func decMutations(r *vhlib.Rng, b []byte, thorough bool, nflips int) [][]byte {
	out := [][]byte{append([]byte{}, b...)}
	step := 1
	if !thorough && len(b) > 120 {
		step = 3
	}
	for k := 0; k < len(b); k++ {
		if k%step == 0 || k < 40 {
			out = append(out, append([]byte{}, b[:k]...))
		}
	}
	flip := func(i, v int) {
		if i < len(b) && int(b[i]) != v&0xFF {
			m := append([]byte{}, b...)
			m[i] = byte(v)
			out = append(out, m)
		}
	}
	if thorough {
		for i := range b {
			flip(i, int(b[i])^0xFF)
			flip(i, int(b[i])^0x01)
			flip(i, 0)
		}
		return out
	}
	for i := 0; i < 32 && i < len(b); i++ {
		flip(i, int(b[i])^0xFF)
	}
	for j := 0; j < nflips && len(b) > 0; j++ {
		i := r.Intn(len(b))
		v := r.Intn(256)
		if r.Chance(50) {
			v = int(b[i]) ^ (1 << uint(r.Intn(8)))
		}
		flip(i, v)
	}
	return out
}

func coqBytesList(l [][]byte) string {
	items := make([]string, len(l))
	for i, x := range l {
		items[i] = vhlib.CoqBytes(x)
	}
	return vhlib.CoqList(items)
}

func runDecoders(cfg vhlib.Config, sum *vhlib.Summary, r *vhlib.Rng, pristine string, files []storeFile) {
	dir := filepath.Join(cfg.Out, "decoders")
	_ = os.MkdirAll(dir, 0o755)
	var cases []decCase
	add := func(dec string, data []byte, nflips int) {
		for _, m := range decMutations(r, data, cfg.Thorough(), nflips) {
			cases = append(cases, decCase{Dec: dec, Data: m})
		}
		sum.Count("decoders/source/" + dec)
	}
	for _, f := range files {
		b, err := os.ReadFile(filepath.Join(pristine, f.Rel))
		if err != nil {
			continue
		}
		switch f.Kind {
		case "bsu":
			add("bsu", b, 40)
		case "mbsu":
			add("mbsu", b, 30)
		case "mnm":
			add("mnm", b, 30)
		case "cmi":
			if f.Seg != "A" && !cfg.Thorough() {
				continue
			}
			// records: size LE32 | blkNum LE16 | payload (type byte first); size counts blkNum + payload
			for p, n := 0, 0; p+6 <= len(b); n++ {
				size := int(utils.BytesToUint32LittleEndian(b[p : p+4]))
				if size < 3 || p+4+size > len(b) {
					break
				}
				if n == 0 || cfg.Thorough() { // quick: the first record of every column
					add("cmi", b[p+6:p+4+size], 12)
				}
				p += 4 + size
			}
		}
	}
	// a few hand-made inputs: several names, empty file, unknown range type
	add("mnm", []byte{3, 0, 'c', 'p', 'u', 0, 0, 5, 0, 'm', 'e', 'm', '.', 'x'}, 10)
	add("cmi", []byte{2, 1, 0, 'n', 9, 1, 2, 3}, 0)
	inPath := filepath.Join(dir, "cases.json")
	outPath := filepath.Join(dir, "out.jsonl")
	cb, _ := json.Marshal(cases)
	_ = os.WriteFile(inPath, cb, 0o644)
	_ = os.Remove(outPath)
	outs := make([]*decOut, len(cases))
	from := 0
	for restarts := 0; from < len(cases) && restarts < 400; restarts++ {
		ctx, cancel := context.WithTimeout(context.Background(), 600*time.Second)
		cmd := exec.CommandContext(ctx, "/bin/sh", "-c", fmt.Sprintf("ulimit -v %d; exec %q worker decode %q %q %q %d", workerVmKB, os.Args[0], dir, inPath, outPath, from))
		var stderr bytes.Buffer
		cmd.Stderr = &stderr
		_ = cmd.Run()
		cancel()
		done := 0
		if ob, err := os.ReadFile(outPath); err == nil {
			for _, ln := range strings.Split(string(ob), "\n") {
				var o decOut
				if ln != "" && json.Unmarshal([]byte(ln), &o) == nil && o.I < len(cases) {
					oo := o
					outs[o.I] = &oo
					if o.I+1 > done {
						done = o.I + 1
					}
				}
			}
		}
		if done < from {
			done = from
		}
		if done < len(cases) {
			// the process died on case [done]
			msg := ""
			for _, ln := range strings.Split(stderr.String(), "\n") {
				if strings.HasPrefix(ln, "fatal error:") || strings.Contains(ln, "out of memory") || strings.HasPrefix(ln, "panic:") {
					msg = ln
					break
				}
			}
			outs[done] = &decOut{I: done, Code: 3, Msg: "process died: " + msg}
			done++
		}
		from = done
	}
	// oracle + Coq observations
	type shard struct{ items []string }
	obs := map[string][]string{}
	for i, c := range cases {
		o := outs[i]
		if o == nil {
			sum.HarnessError(fmt.Sprintf("decoders: no result for case %d", i))
			return
		}
		dec := c.Dec
		if dec == "cmi" {
			if len(c.Data) == 0 {
				continue // getCmi is never called with an empty record by readCmis? it is (size 2): outside the model, skip
			}
			switch c.Data[0] {
			case 1:
				dec = "bloom"
			case 2:
				dec = "ri"
			default:
				dec = "cmi_other"
			}
		}
		sum.Eval(fmt.Sprintf("dec/%s/%x", dec, c.Data), true)
		sum.Count("decoders/" + dec)
		sum.Count(fmt.Sprintf("decoders/result/%d", o.Code))
		if o.Code >= 2 {
			cls := "decoder_panic_on_damaged_file"
			if allocRx.MatchString(o.Msg) {
				if m := allocRx.FindStringSubmatch(o.Msg); m != nil {
					if n, _ := strconv.ParseUint(m[1], 10, 64); n <= 5<<30 {
						cls = "" // refused by the worker's address-space limit only
					}
				}
			}
			switch {
			case cls == "":
			case dec == "bsu":
				cls = "bsu_truncated_block_summary_panic"
			case dec == "mbsu":
				cls = "metrics_mbsu_truncated_panic"
			case dec == "mnm":
				cls = "metrics_mnm_length_panic"
			case dec == "ri":
				cls = "cmi_range_index_length_panic"
			case dec == "bloom" && strings.Contains(o.Msg, "divide by zero"):
				cls = "cmi_bloom_zero_size_divide_panic"
			case dec == "bloom" && o.Code == 3:
				cls = "bloom_cmi_length_oom"
			}
			if cls != "" {
				sum.Fail(cls, fmt.Sprintf("reader of a %s given %d bytes %v: %s", dec, len(c.Data), c.Data, o.Msg),
					map[string]interface{}{"stream": "decoders", "decoder": c.Dec, "data": c.Data, "result": o})
			} else {
				sum.Count("decoders/alloc_le_4gib_refused_by_worker_vm_limit")
				continue
			}
		}
		code := o.Code
		switch dec {
		case "mnm":
			obs[dec] = append(obs[dec], fmt.Sprintf("(%s, (%d, %s))", vhlib.CoqBytes(c.Data), code, coqBytesList(o.Names)))
		case "mbsu":
			var l []string
			for _, m := range o.Mbs {
				l = append(l, fmt.Sprintf("(%d, %d, %d)", m[0], m[1], m[2]))
			}
			obs[dec] = append(obs[dec], fmt.Sprintf("(%s, (%d, %s))", vhlib.CoqBytes(c.Data), code, vhlib.CoqList(l)))
		case "bsu":
			var l, bl []string
			for _, m := range o.Sums {
				l = append(l, fmt.Sprintf("(%d, %d, %d)", m[0], m[1], m[2]))
			}
			for _, b := range o.Blocks {
				var cs []string
				for _, cc := range b.Cols {
					cs = append(cs, fmt.Sprintf("(%s, %d, %d)", vhlib.CoqBytes(cc.Name), cc.Off, cc.Len))
				}
				bl = append(bl, fmt.Sprintf("(%d, %s)", b.Num, vhlib.CoqList(cs)))
			}
			obs[dec] = append(obs[dec], fmt.Sprintf("(%s, (%d, (%s, %s)))", vhlib.CoqBytes(c.Data), code, vhlib.CoqList(l), vhlib.CoqList(bl)))
			if code <= 1 {
				// the reader's summaries next to an error are part of its result (what a caller could cache)
				obs["bsup"] = append(obs["bsup"], fmt.Sprintf("(%s, (%d, %s))", vhlib.CoqBytes(c.Data), code, vhlib.CoqList(l)))
			}
		case "ri":
			var l []string
			for _, e := range o.Ranges {
				if e.Nil {
					l = append(l, fmt.Sprintf("(%s, None)", vhlib.CoqBytes(e.Key)))
				} else {
					l = append(l, fmt.Sprintf("(%s, Some (%d, %d, %d))", vhlib.CoqBytes(e.Key), e.Ty, e.Mn, e.Mx))
				}
			}
			obs[dec] = append(obs[dec], fmt.Sprintf("(%s, (%d, %s))", vhlib.CoqBytes(c.Data[1:]), code, vhlib.CoqList(l)))
		case "bloom":
			h := [3]uint64{}
			if o.Bloom != nil {
				h = *o.Bloom
			}
			obs[dec] = append(obs[dec], fmt.Sprintf("(%s, (%d, (%d, %d, %d)))", vhlib.CoqBytes(c.Data[1:]), code, h[0], h[1], h[2]))
		}
	}
	typ := map[string]string{
		"mnm":   "list (list N * (N * list (list N)))",
		"mbsu":  "list (list N * (N * list (N * N * N)))",
		"bsu":   "list (list N * (N * (list (N * N * N) * list (N * list (list N * N * N)))))",
		"ri":    "list (list N * (N * list (list N * option (N * N * N))))",
		"bloom": "list (list N * (N * (N * N * N)))",
	}
	typ["bsup"] = "list (list N * (N * list (N * N * N)))"
	for _, dec := range []string{"mnm", "mbsu", "bsu", "bsup", "ri", "bloom"} {
		l := obs[dec]
		const per = 120
		for s := 0; s*per < len(l); s++ {
			hi := (s + 1) * per
			if hi > len(l) {
				hi = len(l)
			}
			defs := "Definition cases : " + typ[dec] + " := " + vhlib.CoqListNL(l[s*per:hi]) + ".\n"
			imports, chk := "From SigM Require Import Base MetaDecoders MetaDecodersCheck.\n", "check_"+dec
			if dec == "bsup" {
				imports, chk = "From SigM Require Import Base MetaDecoders MetaDecodersCheck MetaCache MetaCacheCheck.\n", "check_bsu_partial"
			}
			sum.WriteCaseFile(cfg.Out, fmt.Sprintf("cases_dec_%s_%d", dec, s), imports, defs, chk+" cases", hi-s*per)
		}
	}
}

// ---------------------------------------------------------------------------
// (d) reader level: interleaved real readers of several segments on the shared buffer pools
// ---------------------------------------------------------------------------
func runReaders(cfg vhlib.Config, sum *vhlib.Summary, r *vhlib.Rng) {
	dir := filepath.Join(cfg.Out, "readers")
	_ = os.MkdirAll(dir, 0o755)
	n := 60
	if cfg.Thorough() {
		n = 600
	}
	outPath := filepath.Join(dir, "out.json")
	ctx, cancel := context.WithTimeout(context.Background(), 300*time.Second)
	defer cancel()
	cmd := exec.CommandContext(ctx, "/bin/sh", "-c", fmt.Sprintf("ulimit -v %d; exec %q worker readers %q %q %d %d", workerVmKB, os.Args[0], dir, outPath, r.U64(), n))
	var stderr bytes.Buffer
	cmd.Stderr = &stderr
	err := cmd.Run()
	var res []rdResult
	if b, rerr := os.ReadFile(outPath); rerr == nil {
		_ = json.Unmarshal(b, &res)
	}
	if err != nil || len(res) != n {
		t := stderr.String()
		if len(t) > 400 {
			t = t[len(t)-400:]
		}
		sum.Fail("reader_crash_on_damaged_block", fmt.Sprintf("the reader-level worker died (%v): %s", err, t), map[string]interface{}{"stream": "readers"})
		return
	}
	for i, rr := range res {
		sum.Eval(fmt.Sprintf("readers/%d", i), true)
		sum.Count(fmt.Sprintf("readers/recs_per_block/%d", rr.Scenario.NumRecs))
		sum.Count(fmt.Sprintf("readers/other_segments/%d", rr.Scenario.Others))
		if rr.Harness != "" {
			sum.HarnessError("readers: " + rr.Harness)
			continue
		}
		if rr.Problem != "" {
			sum.Fail(rr.Class, rr.Problem, map[string]interface{}{"stream": "readers", "scenario": rr.Scenario,
				"how": "column files of <num_recs> records per block written with ChecksumFile.AppendChunk; byte <damage_at> of chunk <damaged> of segment A's timestamp column XOR 0xFF; steps A<k> = TimeRangeReader.GetTimeStampForRecord(block k), X.load = SegmentFileReader.ValidateAndReadBlock(0), X.read = ReadRecord(all)"})
			continue
		}
		sum.Count("readers/ok")
		if i%17 == 0 {
			sum.Sample(map[string]interface{}{"stream": "readers", "scenario": rr.Scenario})
		}
	}
}

// pq stream of c18: the persistent-query match-result files (<segkey>/pqmr/<pqid>.pqmr) in the fault enumeration.
//
// Store: the two log segments of the e2e stream (A = 3 blocks, B = 2 blocks), built by a worker that asks every filter
// query on the still empty index first.  That makes the filters persistent queries: every buffer flush appends the
// block's match bits to the segment's pqmr file (FlushPqmr: blkNum u16 | size u16 | bitset length u64 BE | words u64 BE),
// and in a later process the same query is answered from those files: blocks the file reports come from the stored bits,
// the other blocks are raw-searched, a file ReadPqmr refuses sends the whole segment to the raw search.
//
// One case = one damaged pqmr file (truncation / one byte replaced) + the query it belongs to, asked TWICE (a raw-search
// fall-back re-writes match results, so the file may have changed before the second answer).  The oracle is the property
// text: every answer is the original answer or a reported error; it is never a different set of events, the process does
// not die or hang, and the events of the other segment are exactly the original ones.  The file content before each answer
// and the answer per block go to Coq: the model's reader (PqmrProto.read_pqmr, shared with C07) and searcher rule
// (seg_answer) must predict every answer from the damaged bytes.
package main

import (
	"bufio"
	"bytes"
	"context"
	"encoding/binary"
	"encoding/json"
	"fmt"
	"io"
	"os"
	"os/exec"
	"path/filepath"
	"regexp"
	"runtime"
	"sort"
	"strconv"
	"strings"
	"sync"
	"time"

	"github.com/siglens/siglens/pkg/segment/writer"
	vtable "github.com/siglens/siglens/pkg/virtualtable"
	log "github.com/sirupsen/logrus"

	"verifharness/vhlib"
)

// the persistent queries: per-block match patterns that differ from block to block (a block served with the bits of
// its neighbour is then visible), one query that matches nothing in some blocks, one that matches everything in some
type pqQuery struct {
	Name, Text string
	Match      func(e event) bool
}

var pqQueries = []pqQuery{
	{"term", "w=alpha", func(e event) bool { return e.Word == "alpha" }},
	{"msg", "msg=msg-a-7-xx OR msg=msg-b-104-xxxx", func(e event) bool { return e.Msg == "msg-a-7-xx" || e.Msg == "msg-b-104-xxxx" }},
	{"num", "n>50 AND n<1060", func(e event) bool { return e.N > 50 && e.N < 1060 }},
	{"band", "n<100 OR n>150", func(e event) bool { return e.N < 100 || e.N > 150 }},
}

func pqQueryByName(n string) *pqQuery {
	for i := range pqQueries {
		if pqQueries[i].Name == n {
			return &pqQueries[i]
		}
	}
	return nil
}

// worker buildpq <dir>
func workerBuildPQ(dir string) {
	log.SetLevel(log.PanicLevel)
	if err := initNode(dir); err != nil {
		fmt.Fprintln(os.Stderr, "init:", err)
		os.Exit(4)
	}
	idx := indexName
	if err := vtable.AddVirtualTable(&idx, 0); err != nil {
		fmt.Fprintln(os.Stderr, "AddVirtualTable:", err)
		os.Exit(4)
	}
	for _, q := range pqQueries {
		_ = runLogQuery(q.Name, q.Text) // asked before the first event arrives: a persistent query from now on
	}
	zero := time.Duration(0)
	prev := ""
	for i, u := range storeBlocks() {
		if prev != "" && prev != u.Seg {
			writer.ForceRotateSegmentsForTest()
		}
		prev = u.Seg
		if err := ingest(u.Evs, uint64(i+1)); err != nil {
			fmt.Fprintln(os.Stderr, "build:", err)
			os.Exit(5)
		}
		writer.FlushWipBufferToFile(&zero, &zero)
	}
	writer.ForceRotateSegmentsForTest()
	writer.WaitForSortedIndexToComplete()
	os.Exit(0)
}

// ---- logrus hook: how many segments of a query were raw-searched / answered from persistent-query results ----
type pqPathHook struct {
	mu sync.Mutex
	m  map[uint64][2]int
}

var pqPathRe = regexp.MustCompile(`qid=(\d+), GetSortedQSRs: Received \d+ query segment requests\. (\d+) raw search (\d+) pqs`)

func (h *pqPathHook) Levels() []log.Level { return []log.Level{log.InfoLevel} }
func (h *pqPathHook) Fire(e *log.Entry) error {
	if m := pqPathRe.FindStringSubmatch(e.Message); m != nil {
		q, _ := strconv.ParseUint(m[1], 10, 64)
		r, _ := strconv.Atoi(m[2])
		p, _ := strconv.Atoi(m[3])
		h.mu.Lock()
		h.m[q] = [2]int{r, p}
		h.mu.Unlock()
	}
	return nil
}

var pqPaths = &pqPathHook{m: map[uint64][2]int{}}

// ---- worker side ----
type pqCase struct {
	Seg  string `json:"seg"`   // segment of the damaged file
	Q    string `json:"query"` // the persistent query the file belongs to
	File string `json:"file"`  // path relative to the data dir
	Kind string `json:"kind"`  // keep | trunc | set
	Pos  int    `json:"pos"`
	Val  int    `json:"val"`
	Size int    `json:"file_size"`
	What string `json:"what,omitempty"` // which part of which record the mutation hits
}

func (c pqCase) String() string {
	switch c.Kind {
	case "trunc":
		return fmt.Sprintf("truncate %s (%d bytes) to %d [%s], then `%s` twice", c.File, c.Size, c.Pos, c.What, pqQueryByName(c.Q).Text)
	case "set":
		return fmt.Sprintf("set byte %d of %s (%d bytes) to 0x%02X [%s], then `%s` twice", c.Pos, c.File, c.Size, c.Val, c.What, pqQueryByName(c.Q).Text)
	}
	return fmt.Sprintf("undamaged %s, `%s` twice", c.File, pqQueryByName(c.Q).Text)
}

func (c pqCase) apply(b []byte) []byte {
	out := append([]byte{}, b...)
	switch c.Kind {
	case "trunc":
		if c.Pos < len(out) {
			out = out[:c.Pos]
		}
	case "set":
		if c.Pos < len(out) {
			out[c.Pos] = byte(c.Val)
		}
	}
	return out
}

type pqRun struct {
	File []byte   `json:"file"`           // content of the pqmr file when the query was asked
	Err  string   `json:"err,omitempty"`  // reported error / panic / timeout
	IDs  []int    `json:"ids"`            // ids of the records returned
	Bad  []string `json:"bad,omitempty"`  // records whose values are not the ingested ones
	Path [2]int   `json:"path"`           // segments raw-searched / answered from persistent-query results
}

type pqObs struct {
	I    int     `json:"i"` // case index; -1 = the answers on the undamaged store at the start, -2 = at the end
	Q    string  `json:"q,omitempty"`
	Runs []pqRun `json:"runs"`
}

var pqEventByID = func() map[int]event {
	m := map[int]event{}
	for _, u := range storeBlocks() {
		for _, e := range u.Evs {
			m[e.ID] = e
		}
	}
	return m
}()

// a goroutine started by the query (the match-result back-fill after a raw search) may still be writing: wait until
// the number of goroutines is back to what it was before the query and the file has stopped changing
func pqSettle(baseG int, path string) {
	deadline := time.Now().Add(400 * time.Millisecond)
	for runtime.NumGoroutine() > baseG && time.Now().Before(deadline) {
		time.Sleep(300 * time.Microsecond)
	}
	prev, _ := os.ReadFile(path)
	for i := 0; i < 5; i++ {
		time.Sleep(time.Millisecond)
		cur, _ := os.ReadFile(path)
		if string(cur) == string(prev) {
			return
		}
		prev = cur
	}
}

func pqAsk(q *pqQuery, path string) pqRun {
	var run pqRun
	run.File, _ = os.ReadFile(path)
	baseG := runtime.NumGoroutine()
	res := runLogQuery(q.Name, q.Text)
	run.Err = res.Err
	pqPaths.mu.Lock()
	run.Path = pqPaths.m[qid]
	pqPaths.mu.Unlock()
	run.IDs = []int{}
	for k, rec := range res.Recs {
		id, err := strconv.Atoi(k)
		if err != nil {
			run.Bad = append(run.Bad, rec)
			continue
		}
		e, ok := pqEventByID[id]
		if !ok || evRecord(e) != rec {
			run.Bad = append(run.Bad, rec)
			continue
		}
		run.IDs = append(run.IDs, id)
	}
	run.Bad = append(run.Bad, res.NoID...)
	if res.Dup {
		run.Bad = append(run.Bad, "duplicate record id")
	}
	sort.Ints(run.IDs)
	sort.Strings(run.Bad)
	if path != "" {
		pqSettle(baseG, path)
	}
	return run
}

// worker pq <dir> <cases.json> <out.jsonl> <from> [perQuerySec]: one output line per case, appended as soon as the case
// is done (a case that kills the process is the first one without a line)
func workerPQ(dir, inPath, outPath string, from int) {
	b, err := os.ReadFile(inPath)
	var cases []pqCase
	if err != nil || json.Unmarshal(b, &cases) != nil {
		os.Exit(3)
	}
	f, err := os.OpenFile(outPath, os.O_WRONLY|os.O_CREATE|os.O_APPEND, 0o644)
	if err != nil {
		os.Exit(3)
	}
	emit := func(o pqObs) {
		lb, _ := json.Marshal(o)
		_, _ = f.Write(append(lb, '\n'))
	}
	log.SetLevel(log.InfoLevel)
	log.SetOutput(io.Discard)
	log.AddHook(pqPaths)
	if err := initNode(dir); err != nil {
		emit(pqObs{I: -3, Runs: []pqRun{{Err: "init: " + err.Error()}}})
		os.Exit(0)
	}
	time.Sleep(30 * time.Millisecond)
	// the undamaged content of every file, read before the first query (a late back-fill must not become "the original")
	pristine := map[string][]byte{}
	for _, c := range cases {
		if _, ok := pristine[c.File]; !ok {
			if pb, e := os.ReadFile(filepath.Join(dir, c.File)); e == nil {
				pristine[c.File] = pb
			}
		}
	}
	baseline := func(i int) {
		for qi := range pqQueries {
			emit(pqObs{I: i, Q: pqQueries[qi].Name, Runs: []pqRun{pqAsk(&pqQueries[qi], "")}})
		}
	}
	if from == 0 {
		baseline(-1)
	}
	for i := from; i < len(cases); i++ {
		c := cases[i]
		q := pqQueryByName(c.Q)
		p := filepath.Join(dir, c.File)
		orig, have := pristine[c.File]
		if !have || q == nil {
			emit(pqObs{I: i, Runs: []pqRun{{Err: "harness: cannot read " + c.File}}})
			continue
		}
		_ = os.WriteFile(p, c.apply(orig), 0o644)
		o := pqObs{I: i, Q: c.Q}
		for k := 0; k < 2; k++ {
			o.Runs = append(o.Runs, pqAsk(q, p))
			if o.Runs[k].Err == "timeout" {
				emit(o)
				os.Exit(0) // the stuck query keeps its goroutines: the driver goes on in a new process
			}
		}
		emit(o)
		_ = os.WriteFile(p, orig, 0o644)
	}
	baseline(-2)
	f.Close()
	os.Exit(0)
}

// ---------------------------------------------------------------------------
// driver side
// ---------------------------------------------------------------------------

// one record of a pqmr file as the writer laid it out (independent of ReadPqmr)
type pqRec struct {
	Off, Size int    // offset of the record, value of its size field (payload = bitset length + words)
	Blk       int    // block number
	Len       uint64 // bitset length in bits
	Bits      []int  // record numbers marked
}

func scanPqmr(b []byte) ([]pqRec, bool) {
	var out []pqRec
	off := 0
	for off < len(b) {
		if off+4 > len(b) {
			return out, false
		}
		rc := pqRec{Off: off, Blk: int(binary.LittleEndian.Uint16(b[off:])), Size: int(binary.LittleEndian.Uint16(b[off+2:]))}
		if rc.Size < 8 || off+4+rc.Size > len(b) || (rc.Size-8)%8 != 0 {
			return out, false
		}
		rc.Len = binary.BigEndian.Uint64(b[off+4:])
		rc.Bits = []int{}
		for w := 0; w < (rc.Size-8)/8; w++ {
			v := binary.BigEndian.Uint64(b[off+12+8*w:])
			for k := 0; k < 64; k++ {
				if v&(1<<uint(k)) != 0 && uint64(64*w+k) < rc.Len {
					rc.Bits = append(rc.Bits, 64*w+k)
				}
			}
		}
		out = append(out, rc)
		off += 4 + rc.Size
	}
	return out, true
}

// which part of which record byte p belongs to
func pqField(recs []pqRec, p int) (rec int, field string) {
	for j, rc := range recs {
		if p >= rc.Off && p < rc.Off+4+rc.Size {
			switch d := p - rc.Off; {
			case d < 2:
				return j, "blknum"
			case d < 4:
				return j, "size"
			case d < 12:
				return j, "bitsetlen"
			default:
				return j, "words"
			}
		}
	}
	return -1, "end"
}

type pqFile struct {
	Rel   string
	Seg   string
	Q     string
	Bytes []byte
	Recs  []pqRec
	Truth [][]int // per block of the segment: record numbers that match the query
}

// blocks of a segment, in block order
func pqSegUnits(seg string) []unit {
	var out []unit
	for _, u := range storeBlocks() {
		if u.Seg == seg {
			out = append(out, u)
		}
	}
	return out
}

func pqTruth(q *pqQuery, seg string) [][]int {
	var out [][]int
	for _, u := range pqSegUnits(seg) {
		t := []int{}
		for i, e := range u.Evs {
			if q.Match(e) {
				t = append(t, i)
			}
		}
		out = append(out, t)
	}
	return out
}

func pqExpectedIDs(q *pqQuery) []int {
	var out []int
	for _, u := range storeBlocks() {
		for _, e := range u.Evs {
			if q.Match(e) {
				out = append(out, e.ID)
			}
		}
	}
	sort.Ints(out)
	return out
}

func eqInts(a, b []int) bool {
	if len(a) != len(b) {
		return false
	}
	for i := range a {
		if a[i] != b[i] {
			return false
		}
	}
	return true
}

type pqLane struct{ dir, data, pristine string }

// runs the cases on one lane; a worker that dies or gives up is replaced by a new one that starts behind the case
func runPQLane(l pqLane, cases []pqCase, perQuerySec int) (obs map[int]pqObs, base []pqObs, died map[int]string, herr string) {
	obs, died = map[int]pqObs{}, map[int]string{}
	casesPath, outPath := filepath.Join(l.dir, "cases.json"), filepath.Join(l.dir, "out.jsonl")
	cb, _ := json.Marshal(cases)
	_ = os.WriteFile(casesPath, cb, 0o644)
	_ = os.Remove(outPath)
	from, ended := 0, false
	for restarts := 0; (from < len(cases) || !ended) && restarts < len(cases)+3; restarts++ {
		_ = os.RemoveAll(l.data)
		if err := copyTree(l.pristine, l.data); err != nil {
			return obs, base, died, "restore: " + err.Error()
		}
		ctx, cancel := context.WithTimeout(context.Background(), time.Duration(60+(len(cases)-from)*(perQuerySec+1))*time.Second)
		cmd := exec.CommandContext(ctx, "/bin/sh", "-c", fmt.Sprintf("ulimit -v %d; exec %q worker pq %q %q %q %d %d", workerVmKB, os.Args[0], l.data, casesPath, outPath, from, perQuerySec))
		var stderr bytes.Buffer
		cmd.Stderr = &stderr
		err := cmd.Run()
		timedOut := ctx.Err() == context.DeadlineExceeded
		cancel()
		last := from - 1
		base = base[:0]
		ended = false
		if f, e := os.Open(outPath); e == nil {
			sc := bufio.NewScanner(f)
			sc.Buffer(make([]byte, 1<<20), 1<<28)
			for sc.Scan() {
				var o pqObs
				if json.Unmarshal(sc.Bytes(), &o) != nil {
					continue
				}
				switch {
				case o.I == -3:
					f.Close()
					return obs, base, died, "worker: " + o.Runs[0].Err
				case o.I < 0:
					base = append(base, o)
					if o.I == -2 {
						ended = true
					}
				default:
					obs[o.I] = o
					if o.I > last {
						last = o.I
					}
				}
			}
			f.Close()
		}
		if err == nil && ended && last+1 >= len(cases) {
			break
		}
		next := last + 1
		if err != nil {
			// the process died (or was killed at the limit) inside case `next`
			msg := ""
			for _, ln := range strings.Split(stderr.String(), "\n") {
				if strings.HasPrefix(ln, "fatal error:") || strings.HasPrefix(ln, "panic:") || strings.Contains(ln, "out of memory") || strings.Contains(ln, "cannot allocate") {
					msg = ln
					break
				}
			}
			site := ""
			for _, ln := range strings.Split(stderr.String(), "\n") {
				if strings.HasPrefix(ln, "github.com/siglens/siglens/") {
					site = ln
					if k := strings.LastIndex(site, "("); k > 0 {
						site = site[:k]
					}
					site = " at " + strings.TrimPrefix(site, "github.com/siglens/siglens/")
					break
				}
			}
			if timedOut {
				msg = "hang: worker killed at the wall-clock limit " + msg
			}
			if msg == "" {
				t := stderr.String()
				if len(t) > 300 {
					t = t[len(t)-300:]
				}
				msg = fmt.Sprintf("%v: %s", err, t)
			}
			if next < len(cases) {
				died[next] = msg + site
				from = next + 1
			} else {
				from = next // died in the closing baseline: ask it again
			}
			continue
		}
		from = next // a worker that stopped after a query that did not return
	}
	return obs, base, died, ""
}

func coqIntLists(l [][]int) string {
	var parts []string
	for _, x := range l {
		var xs []string
		for _, v := range x {
			xs = append(xs, strconv.Itoa(v))
		}
		parts = append(parts, vhlib.CoqList(xs))
	}
	return vhlib.CoqList(parts)
}

// per block of segment seg: record numbers of the returned ids
func pqAnswerPerBlock(seg string, ids []int) [][]int {
	var out [][]int
	for _, u := range pqSegUnits(seg) {
		a := []int{}
		for i, e := range u.Evs {
			for _, id := range ids {
				if id == e.ID {
					a = append(a, i)
				}
			}
		}
		out = append(out, a)
	}
	return out
}

// notes of the stream, added to the summary by main when the stream has ended
var pqNotes []string

func runPQ(cfg vhlib.Config, sum *vhlib.Summary, r *vhlib.Rng) {
	base := filepath.Join(cfg.Out, "pq")
	nl := 3
	if cfg.Thorough() {
		nl = 8
	}
	lanes := make([]pqLane, nl)
	errs := make([]error, nl)
	var wg sync.WaitGroup
	for i := range lanes {
		d := filepath.Join(base, fmt.Sprintf("lane%02d", i))
		lanes[i] = pqLane{dir: d, data: filepath.Join(d, "data"), pristine: filepath.Join(d, "pristine")}
		wg.Add(1)
		go func(l pqLane, i int) {
			defer wg.Done()
			_ = os.RemoveAll(l.dir)
			_ = os.MkdirAll(l.dir, 0o755)
			ctx, cancel := context.WithTimeout(context.Background(), 120*time.Second)
			defer cancel()
			out, err := exec.CommandContext(ctx, os.Args[0], "worker", "buildpq", l.data).CombinedOutput()
			if err != nil {
				t := string(out)
				if len(t) > 400 {
					t = t[len(t)-400:]
				}
				errs[i] = fmt.Errorf("buildpq worker: %v: %s", err, t)
				return
			}
			errs[i] = copyTree(l.data, l.pristine)
		}(lanes[i], i)
	}
	wg.Wait()
	for _, e := range errs {
		if e != nil {
			sum.HarnessError("pq: " + e.Error())
			return
		}
	}
	// the pqmr files of the store: which query each belongs to (by the bits the writer stored), the same in every lane
	var files []pqFile
	for li, l := range lanes {
		paths, _ := filepath.Glob(filepath.Join(l.pristine, "*", "final", indexName, "*", "*", "*", "pqmr", "*.pqmr"))
		sort.Strings(paths)
		if li == 0 {
			for _, p := range paths {
				rel, _ := filepath.Rel(l.pristine, p)
				seg, _, ok := classifyFile(rel)
				b, _ := os.ReadFile(p)
				recs, wf := scanPqmr(b)
				if !ok || !wf {
					sum.Fail("pqmr_writer_layout_broken", fmt.Sprintf("%s (%d bytes) written by the segment writer is not a sequence of blkNum|size|bitset records", rel, len(b)), map[string]interface{}{"file": rel, "bytes": b})
					continue
				}
				pf := pqFile{Rel: rel, Seg: seg, Bytes: b, Recs: recs}
				for qi := range pqQueries {
					t := pqTruth(&pqQueries[qi], seg)
					same := len(t) == len(recs)
					for j := 0; same && j < len(recs); j++ {
						same = recs[j].Blk == j && eqInts(recs[j].Bits, t[j])
					}
					if same {
						if pf.Q != "" {
							sum.HarnessError("pq: two queries store the same bits in " + rel)
						}
						pf.Q, pf.Truth = pqQueries[qi].Name, t
					}
				}
				if pf.Q == "" {
					sum.Fail("persistent_query_bits_differ_from_filter", fmt.Sprintf("%s: the match bits the flushes stored (%+v) are those of none of the persistent queries", rel, recs), map[string]interface{}{"file": rel, "bytes": b})
					continue
				}
				files = append(files, pf)
			}
			continue
		}
		n := 0
		for _, p := range paths {
			rel, _ := filepath.Rel(l.pristine, p)
			b, _ := os.ReadFile(p)
			for _, pf := range files {
				if pf.Rel == rel && bytes.Equal(pf.Bytes, b) {
					n++
				}
			}
		}
		if n != len(files) || len(paths) != len(files) {
			sum.HarnessError(fmt.Sprintf("pq: lane %d holds other pqmr files than lane 0", li))
			return
		}
	}
	if len(files) != 2*len(pqQueries) {
		sum.HarnessError(fmt.Sprintf("pq: %d pqmr files in the store, expected one per segment and persistent query (%d)", len(files), 2*len(pqQueries)))
		return
	}

	// ---- cases ----
	var cases []pqCase
	add := func(pf pqFile, kind string, pos, val int) {
		c := pqCase{Seg: pf.Seg, Q: pf.Q, File: pf.Rel, Kind: kind, Pos: pos, Val: val, Size: len(pf.Bytes)}
		switch kind {
		case "trunc":
			if pos >= len(pf.Bytes) {
				return
			}
			j, fld := pqField(pf.Recs, pos)
			if pos == pf.Recs[j].Off {
				c.What = fmt.Sprintf("at the start of record %d of %d", j, len(pf.Recs))
			} else {
				c.What = fmt.Sprintf("inside record %d of %d, first missing byte in its %s", j, len(pf.Recs), fld)
			}
		case "set":
			if pos >= len(pf.Bytes) || int(pf.Bytes[pos]) == val {
				return
			}
			j, fld := pqField(pf.Recs, pos)
			c.What = fmt.Sprintf("record %d of %d, %s byte %d", j, len(pf.Recs), fld, pos-pf.Recs[j].Off)
		}
		for _, o := range cases {
			if o.File == c.File && o.Kind == c.Kind && o.Pos == c.Pos && o.Val == c.Val {
				return
			}
		}
		cases = append(cases, c)
	}
	damageValues := func(orig byte) []int {
		return []int{int(orig ^ 0xFF), int(orig ^ 0x01), int(orig ^ 0x80), 0, int(orig ^ 0x06)}
	}
	for fi, pf := range files {
		if fi < 2 || cfg.Thorough() {
			add(pf, "keep", 0, 0)
		}
		last := pf.Recs[len(pf.Recs)-1]
		if cfg.Thorough() {
			for k := 0; k < len(pf.Bytes); k++ {
				add(pf, "trunc", k, 0)
				for _, v := range damageValues(pf.Bytes[k]) {
					add(pf, "set", k, v)
				}
			}
			continue
		}
		// quick: every cut at and inside the LAST record (the reader meets the end of the file inside a record), and for
		// the earlier records one cut in the header and one in the bitset
		for k := last.Off; k < len(pf.Bytes); k++ {
			add(pf, "trunc", k, 0)
		}
		for _, rc := range pf.Recs[:len(pf.Recs)-1] {
			add(pf, "trunc", rc.Off+1+r.Intn(3), 0)
			add(pf, "trunc", rc.Off+4+r.Intn(rc.Size), 0)
		}
		// one replaced byte per field of every record; the four high-order bytes of the bitset length only with the
		// value the known-class stream below does not use
		for _, rc := range pf.Recs {
			pick := func(lo, n int) {
				if n <= 0 {
					return
				}
				p := rc.Off + lo + r.Intn(n)
				vs := damageValues(pf.Bytes[p])
				add(pf, "set", p, vs[r.Intn(len(vs))])
			}
			pick(0, 2)
			pick(2, 2)
			pick(8, 4)
			pick(12, rc.Size-8)
			add(pf, "set", rc.Off+4, 0x01) // 2^56 bits: bitset.New recovers from the impossible allocation
		}
	}
	// regression stream of pqmr_bitset_length_oom (fixed, 3b911d3): the bitset length of a record set to 2^40 / 2^48
	// bits; ReadPqmr must refuse the record (raw-search fall-back: the original answer), a death is a VIOLATION
	nMain := len(cases)
	for fi, pf := range files {
		if fi%4 == 0 || cfg.Thorough() {
			rc := pf.Recs[len(pf.Recs)/2]
			add(pf, "set", rc.Off+4+2, 0x01)
			add(pf, "set", rc.Off+4+1, 0x01)
		}
	}
	_ = nMain
	if flt := os.Getenv("C18_PQ_FILTER"); flt != "" { // exploration / replay: kind:pos of the cases to keep
		var c2 []pqCase
		for _, c := range cases {
			if strings.Contains(flt, fmt.Sprintf("%s:%d,", c.Kind, c.Pos)) {
				c2 = append(c2, c)
			}
		}
		cases = c2
	}

	perLane := make([][]pqCase, nl)
	idxOf := make([][]int, nl)
	for i, c := range cases {
		perLane[i%nl] = append(perLane[i%nl], c)
		idxOf[i%nl] = append(idxOf[i%nl], i)
	}
	perQ := 12
	type laneRes struct {
		obs  map[int]pqObs
		base []pqObs
		died map[int]string
		herr string
	}
	lres := make([]laneRes, nl)
	for li := range lanes {
		wg.Add(1)
		go func(li int) {
			defer wg.Done()
			o, b, d, h := runPQLane(lanes[li], perLane[li], perQ)
			lres[li] = laneRes{o, b, d, h}
		}(li)
	}
	wg.Wait()

	fileOf := map[string]pqFile{}
	for _, pf := range files {
		fileOf[pf.Rel] = pf
	}
	// the undamaged store, at the start and at the end of every worker: the original answers, from the stored bits
	for li, lr := range lres {
		if lr.herr != "" {
			sum.HarnessError(fmt.Sprintf("pq lane %d: %s", li, lr.herr))
			return
		}
		if len(lr.base) < len(pqQueries) {
			sum.HarnessError(fmt.Sprintf("pq lane %d: the answers on the undamaged store are missing", li))
			return
		}
		for _, b := range lr.base {
			q := pqQueryByName(b.Q)
			run := b.Runs[0]
			if run.Err != "" || len(run.Bad) > 0 || !eqInts(run.IDs, pqExpectedIDs(q)) {
				sum.Fail("undamaged_store_wrong_answer", fmt.Sprintf("persistent query `%s` on the undamaged store (%d): ids %v err %q bad %v, expected %v", q.Text, b.I, run.IDs, run.Err, run.Bad, pqExpectedIDs(q)), b)
			}
			if run.Path != [2]int{0, 2} {
				sum.HarnessError(fmt.Sprintf("pq lane %d: `%s` on the undamaged store was planned as %d raw / %d persistent-query segments, expected 0 / 2", li, q.Text, run.Path[0], run.Path[1]))
			}
			sum.Count("pq/undamaged_answer_checked")
		}
	}

	// ---- judge ----
	type verdict struct {
		class, detail string
	}
	judge := func(c pqCase, o *pqObs, diedMsg string) (vs []verdict, note string) {
		pf := fileOf[c.File]
		q := pqQueryByName(c.Q)
		want := pqExpectedIDs(q)
		_, fld := pqField(pf.Recs, c.Pos)
		if diedMsg != "" {
			cls := "pqmr_damage_crashes_query_process"
			switch {
			case strings.HasPrefix(diedMsg, "hang:"):
				cls = "pqmr_damage_hangs_query"
			case c.Kind == "set" && fld == "bitsetlen" && (strings.Contains(diedMsg, "out of memory") || strings.Contains(diedMsg, "cannot allocate")) && strings.Contains(diedMsg, "ReadPqmr"):
				cls = "pqmr_bitset_length_oom"
			}
			return []verdict{{cls, fmt.Sprintf("%s: the query process died: %s", c, diedMsg)}}, "died"
		}
		if o == nil || len(o.Runs) == 0 {
			return nil, "no observation"
		}
		note = "original"
		firstClass := ""
		for k, run := range o.Runs {
			nth := []string{"first", "second"}[k]
			rep := ""
			if k == 1 {
				rep = "_on_repeat" // only when the first answer was acceptable
			}
			switch {
			case strings.HasPrefix(run.Err, "panic:"):
				vs = append(vs, verdict{"pqmr_damage_crashes_query_process", fmt.Sprintf("%s: the %s query panicked in the request goroutine: %s", c, nth, run.Err)})
				note = "panic"
				continue
			case run.Err == "timeout":
				vs = append(vs, verdict{"pqmr_damage_hangs_query", fmt.Sprintf("%s: the %s query did not return within %d s", c, nth, perQ)})
				note = "hang"
				continue
			case len(run.Bad) > 0:
				vs = append(vs, verdict{"pqmr_damage_altered_record_values", fmt.Sprintf("%s: the %s answer holds records that were never ingested: %v", c, nth, run.Bad)})
				note = "altered values"
				continue
			case run.Err != "":
				note = "reported error"
				continue
			case eqInts(run.IDs, want):
				continue
			}
			var extra, lost []int
			other := false
			for _, id := range run.IDs {
				if !q.Match(pqEventByID[id]) {
					extra = append(extra, id)
					other = other || strings.ToUpper(pqEventByID[id].Seg) != c.Seg
				}
			}
			for _, id := range want {
				found := false
				for _, g := range run.IDs {
					found = found || g == id
				}
				if !found {
					lost = append(lost, id)
					other = other || strings.ToUpper(pqEventByID[id].Seg) != c.Seg
				}
			}
			cls := ""
			switch {
			case other:
				cls = "pqmr_damage_affects_other_segment"
			case c.Kind == "trunc":
				cls = "pqmr_truncated_record_served_as_match_bits"
			case c.Kind == "keep":
				cls = "undamaged_store_wrong_answer"
			case fld == "blknum":
				cls = "pqmr_block_number_damage_served_as_match_bits"
			case fld == "size":
				cls = "pqmr_record_size_damage_served_as_match_bits"
			case fld == "bitsetlen":
				// known only for a length the record's words can still hold (the bitset decoder accepts it: bits beyond the
				// length are ignored); a length that needs more words than the record has cannot be decoded, and a record
				// that cannot be decoded must never contribute match bits
				cls = "pqmr_bitset_length_damage_served_as_match_bits"
				j, _ := pqField(pf.Recs, c.Pos)
				d := c.apply(pf.Bytes)
				rc := pf.Recs[j]
				nl := binary.BigEndian.Uint64(d[rc.Off+4:])
				need := (nl + 63) / 64
				if nl > ^uint64(0)-63 {
					need = ^uint64(0) / 64
				}
				if need > uint64((rc.Size-8)/8) {
					cls = "pqmr_undecodable_record_served_as_match_bits"
				}
			default:
				cls = "pqmr_bitset_byte_damage_served_as_match_bits"
			}
			note = "served"
			if k == 0 {
				firstClass = cls
			} else if firstClass == cls {
				continue // the same wrong answer again
			}
			vs = append(vs, verdict{cls + rep, fmt.Sprintf("%s: the %s answer has no error and is not the original one: events %v returned although they do not match, matching events %v left out (file when asked: %d bytes)",
				c, nth, extra, lost, len(run.File))})
		}
		return vs, note
	}

	type coqCase struct {
		s     string
		large bool
	}
	var coq []coqCase
	var allocCases []string
	nLarge := 0
	// a failure is believed only when the case, run alone in a fresh process on a restored store, shows it again: the
	// first case of every class is re-run (the re-runs side by side on the lanes); a class whose first case does not
	// show the failure again gets its later cases re-run one by one
	type obsOf struct {
		o    *pqObs
		died string
	}
	laneObs := func(ci int) obsOf {
		lr := lres[ci%nl]
		var o *pqObs
		if ob, ok := lr.obs[ci/nl]; ok {
			o = &ob
		}
		return obsOf{o, lr.died[ci/nl]}
	}
	rerun := func(l pqLane, c pqCase) obsOf {
		sum.Count("pq/failure_rerun_alone")
		o2, _, d2, h2 := runPQLane(l, []pqCase{c}, 40)
		if h2 != "" {
			sum.HarnessError("pq: rerun alone: " + h2)
		}
		var ob2 *pqObs
		if x, ok := o2[0]; ok {
			ob2 = &x
		}
		return obsOf{ob2, d2[0]}
	}
	firstOf := map[string]int{}
	var order []string
	for ci, c := range cases {
		lo := laneObs(ci)
		if vs, _ := judge(c, lo.o, lo.died); len(vs) > 0 {
			if _, ok := firstOf[vs[0].class]; !ok {
				firstOf[vs[0].class] = ci
				order = append(order, vs[0].class)
			}
		}
	}
	confirmed := map[int]obsOf{}
	var cmu sync.Mutex
	for li := range lanes {
		wg.Add(1)
		go func(li int) {
			defer wg.Done()
			for k := li; k < len(order); k += nl {
				ci := firstOf[order[k]]
				ob := rerun(lanes[li], cases[ci])
				cmu.Lock()
				confirmed[ci] = ob
				cmu.Unlock()
			}
		}(li)
	}
	wg.Wait()
	classBelieved := map[string]bool{}
	for ci, c := range cases {
		lo := laneObs(ci)
		o, diedMsg := lo.o, lo.died
		pf := fileOf[c.File]
		sum.Eval("pq/"+c.String(), c.Kind != "keep")
		sum.Count("pq/mutation/" + c.Kind)
		_, fld := pqField(pf.Recs, c.Pos)
		if c.Kind == "set" {
			sum.Count("pq/field/" + fld)
		}
		vs, note := judge(c, o, diedMsg)
		if note == "no observation" {
			sum.HarnessError("pq: no observation for " + c.String())
			continue
		}
		if len(vs) > 0 && !classBelieved[vs[0].class] {
			cls := vs[0].class
			alone, have := confirmed[ci]
			if !have {
				alone = rerun(lanes[0], c)
			}
			vs2, note2 := judge(c, alone.o, alone.died)
			if len(vs2) > 0 && vs2[0].class == cls {
				classBelieved[cls] = true
				vs, o, diedMsg = vs2, alone.o, alone.died
			} else {
				// an artefact of the shared worker process (a late back-fill of an earlier case): judged by the run alone; the
				// lane's answers still go to Coq with the bytes the file held, so an answer the bytes do not explain is reported
				sum.Count("pq/failure_not_reproduced_alone")
				pqNotes = append(pqNotes, fmt.Sprintf("pq: %s: %s in the lane's worker, %s when run alone", c, cls, note2))
				vs, note = vs2, note2
			}
		}
		sum.Count("pq/outcome/" + c.Kind + "/" + note)
		replay := map[string]interface{}{"stream": "pq", "case": c, "file_bytes": pf.Bytes, "observed": o, "died": diedMsg,
			"how": "`c18 worker buildpq <dir>`, apply the mutation to <dir>/" + c.File + ", then `c18 worker pq <dir> cases.json out.jsonl 0` with cases.json = [case] (asks the query twice)"}
		for _, v := range vs {
			sum.Fail(v.class, v.detail, replay)
		}
		// Coq: the model's reader and searcher rule on the bytes the file held when each answer was given
		truth := coqIntLists(pf.Truth)
		if diedMsg != "" || o == nil {
			j, _ := pqField(pf.Recs, c.Pos)
			if c.Kind == "set" && j >= 0 {
				d := c.apply(pf.Bytes)
				rc := pf.Recs[j]
				allocCases = append(allocCases, fmt.Sprintf("(%s, true)", vhlib.CoqBytes(d[rc.Off+4:rc.Off+4+rc.Size])))
			}
			continue
		}
		if c.Kind == "set" && fld == "bitsetlen" {
			j, _ := pqField(pf.Recs, c.Pos)
			d := c.apply(pf.Bytes)
			rc := pf.Recs[j]
			allocCases = append(allocCases, fmt.Sprintf("(%s, false)", vhlib.CoqBytes(d[rc.Off+4:rc.Off+4+rc.Size])))
		}
		var runs []string
		large := false
		for _, run := range o.Runs {
			if run.Err != "" || len(run.Bad) > 0 {
				continue // no answer to predict
			}
			if len(run.File) > 400 {
				large = true
			}
			runs = append(runs, fmt.Sprintf("(%s, %s)", vhlib.CoqBytes(run.File), coqIntLists(pqAnswerPerBlock(c.Seg, run.IDs))))
		}
		if large {
			nLarge++
			if nLarge > 6 && !cfg.Thorough() {
				// the back-fill appended three 1892-byte records: only a few of these go to Coq in the quick tier
				sum.Count("pq/backfilled_file_not_sent_to_coq")
				runs = runs[:1]
				large = false
			}
		}
		m := "Keep"
		switch c.Kind {
		case "trunc":
			m = fmt.Sprintf("Trunc %d", c.Pos)
		case "set":
			m = fmt.Sprintf("Flip %d %d", c.Pos, c.Val)
		}
		first := "true"
		if len(o.Runs) == 0 || o.Runs[0].Err != "" || len(o.Runs[0].Bad) > 0 {
			first = "false"
		}
		coq = append(coq, coqCase{fmt.Sprintf("(file_%s_%s, %s, %s, %s, %s)", c.Seg, c.Q, m, truth, first, vhlib.CoqList(runs)), large})
	}

	// case files: the originals once, then shards (a case with a back-filled file counts for 15)
	var defs strings.Builder
	var origs []string
	for _, pf := range files {
		fmt.Fprintf(&defs, "Definition file_%s_%s : list N := %s.\n", pf.Seg, pf.Q, vhlib.CoqBytes(pf.Bytes))
		origs = append(origs, fmt.Sprintf("(file_%s_%s, %s)", pf.Seg, pf.Q, coqIntLists(pf.Truth)))
	}
	imports := "From SigM Require Import Base PqmrProto ChecksumFileCheck PqmrDamage PqmrDamageCheck.\n"
	sum.WriteCaseFile(cfg.Out, "cases_pq_files", imports, defs.String()+"Definition origs : list (list N * list (list N)) := "+vhlib.CoqListNL(origs)+".\n"+
		"Definition allocs : list (list N * bool) := "+vhlib.CoqListNL(allocCases)+".\n",
		"check_pq_origs origs ++ check_pq_allocs allocs", len(origs)+len(allocCases))
	shard, weight, n := 0, 0, 0
	var cur []string
	flush := func() {
		if len(cur) == 0 {
			return
		}
		sum.WriteCaseFile(cfg.Out, fmt.Sprintf("cases_pq_%d", shard), imports, defs.String()+"Definition cases : list pq_case := "+vhlib.CoqListNL(cur)+".\n", "check_pq_cases cases", n)
		shard++
		cur, weight, n = nil, 0, 0
	}
	for _, cc := range coq {
		w := 1
		if cc.large {
			w = 15
		}
		if weight+w > 150 {
			flush()
		}
		cur = append(cur, cc.s)
		weight += w
		n++
	}
	flush()
	sum.Sample(map[string]interface{}{"stream": "pq", "files": len(files), "cases": len(cases), "example": cases[len(cases)/2].String()})
}

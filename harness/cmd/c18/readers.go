// reader-level stream of c18: several real readers (TimeRangeReader, SegmentFileReader) of
// DIFFERENT segments share the real buffer pools; one segment's timestamp column has a chunk
// that fails its checksum.  The readers are driven interleaved, the way concurrent segment
// searches interleave; whatever happens to the damaged segment, every record of the other
// segments' (intact, checksummed) blocks must come back unchanged.
package main

import (
	"encoding/json"
	"fmt"
	"os"
	"path/filepath"

	"github.com/siglens/siglens/pkg/memorypool"
	"github.com/siglens/siglens/pkg/segment/reader/segread"
	"github.com/siglens/siglens/pkg/segment/reader/segread/segreader"
	"github.com/siglens/siglens/pkg/segment/structs"
	sutils "github.com/siglens/siglens/pkg/segment/utils"
	"github.com/siglens/siglens/pkg/utils"
	log "github.com/sirupsen/logrus"

	"verifharness/vhlib"
)

type rdScenario struct {
	NumRecs  int      `json:"num_recs"`  // records per block (decides the pool size class)
	BlocksA  int      `json:"blocks_a"`  // blocks of the damaged timestamp column
	Damaged  int      `json:"damaged"`   // index of the damaged block (not the last one)
	DamageAt int      `json:"damage_at"` // byte inside the chunk (>= 4: crc, length stays, data)
	Others   int      `json:"others"`    // number of intact segments read by dictionary-column readers
	Steps    []string `json:"steps"`     // interleaving, e.g. "A0" (reader A block 0), "B.load", "B.read"
}

type rdResult struct {
	Scenario rdScenario `json:"scenario"`
	Problem  string     `json:"problem,omitempty"` // property failure
	Class    string     `json:"class,omitempty"`
	Harness  string     `json:"harness,omitempty"`
}

func rdDictBlock(word string, numRecs int) []byte {
	blk := []byte{sutils.ZSTD_DICTIONARY_BLOCK[0]}
	blk = append(blk, utils.Uint16ToBytesLittleEndian(1)...)
	blk = append(blk, sutils.VALTYPE_ENC_SMALL_STRING[0])
	blk = append(blk, utils.Uint16ToBytesLittleEndian(uint16(len(word)))...)
	blk = append(blk, word...)
	blk = append(blk, utils.Uint16ToBytesLittleEndian(uint16(numRecs))...)
	for i := 0; i < numRecs; i++ {
		blk = append(blk, utils.Uint16ToBytesLittleEndian(uint16(i))...)
	}
	return blk
}

func rdTimestampBlock(lowTs uint64, numRecs int) []byte {
	blk := []byte{sutils.TIMESTAMP_TOPDIFF_VARENC[0], byte(structs.TS_Type16)}
	blk = append(blk, utils.Uint64ToBytesLittleEndian(lowTs)...)
	for i := 0; i < numRecs; i++ {
		blk = append(blk, utils.Uint16ToBytesLittleEndian(uint16(i))...)
	}
	return blk
}

func rdWriteColumn(fname, cname string, blocks [][]byte) (*structs.AllBlksMetaInfo, error) {
	fd, err := os.OpenFile(fname, os.O_CREATE|os.O_RDWR|os.O_TRUNC, 0o644)
	if err != nil {
		return nil, err
	}
	defer fd.Close()
	allBmi := &structs.AllBlksMetaInfo{CnameDict: map[string]int{cname: 0}, AllBmh: map[uint16]*structs.BlockMetadataHolder{}}
	csf := &utils.ChecksumFile{Fd: fd}
	for i, blk := range blocks {
		off, err := fd.Seek(0, 2)
		if err != nil {
			return nil, err
		}
		if err := csf.AppendChunk(blk); err != nil {
			return nil, err
		}
		allBmi.AllBmh[uint16(i)] = &structs.BlockMetadataHolder{BlkNum: uint16(i),
			ColBlockOffAndLen: []structs.ColOffAndLen{{Offset: off, Length: uint32(len(blk))}}}
	}
	return allBmi, nil
}

func genRdScenario(r *vhlib.Rng) rdScenario {
	sc := rdScenario{
		NumRecs: vhlib.Pick(r, []int{20, 50, 100, 100, 300, 600, 1500}),
		BlocksA: r.Range(2, 4),
		Others:  r.Range(1, 3),
	}
	sc.Damaged = r.Intn(sc.BlocksA - 1)
	blkLen := 2 + 8 + 2*sc.NumRecs
	sc.DamageAt = 12 + r.Intn(blkLen)
	if r.Chance(20) {
		sc.DamageAt = 4 + r.Intn(4) // checksum field
	}
	// A reads its blocks in order; the others load after some failed read of A and are read at the end,
	// with further loads sprinkled in
	names := []string{"B", "C", "D"}[:sc.Others]
	loaded := map[string]bool{}
	for b := 0; b < sc.BlocksA; b++ {
		sc.Steps = append(sc.Steps, fmt.Sprintf("A%d", b))
		for _, n := range names {
			if !loaded[n] && (b >= sc.Damaged && r.Chance(70) || r.Chance(25)) {
				sc.Steps = append(sc.Steps, n+".load")
				loaded[n] = true
			}
		}
		if r.Chance(30) {
			for _, n := range names {
				if loaded[n] {
					sc.Steps = append(sc.Steps, n+".read")
				}
			}
		}
	}
	for _, n := range names {
		if !loaded[n] {
			sc.Steps = append(sc.Steps, n+".load")
		}
		sc.Steps = append(sc.Steps, n+".read")
	}
	return sc
}

func runRdScenario(dir string, si int, sc rdScenario) (res rdResult) {
	res.Scenario = sc
	defer func() {
		if rc := recover(); rc != nil {
			res.Problem = fmt.Sprintf("panic: %v%s", rc, panicSite())
			res.Class = "reader_panic_on_damaged_block"
		}
	}()
	tsKey := "timestamp"
	var blocksA [][]byte
	for b := 0; b < sc.BlocksA; b++ {
		blocksA = append(blocksA, rdTimestampBlock(uint64(b+1)*1000000, sc.NumRecs))
	}
	fnameA := filepath.Join(dir, fmt.Sprintf("s%d_A_ts.csg", si))
	bmiA, err := rdWriteColumn(fnameA, tsKey, blocksA)
	if err != nil {
		res.Harness = err.Error()
		return
	}
	raw, _ := os.ReadFile(fnameA)
	chunkOff := int(bmiA.AllBmh[uint16(sc.Damaged)].ColBlockOffAndLen[0].Offset)
	raw[chunkOff+sc.DamageAt] ^= 0xFF
	_ = os.WriteFile(fnameA, raw, 0o644)
	fdA, err := os.Open(fnameA)
	if err != nil {
		res.Harness = err.Error()
		return
	}
	blkSet := map[uint16]struct{}{}
	recCnt := map[uint16]uint16{}
	for b := 0; b < sc.BlocksA; b++ {
		blkSet[uint16(b)] = struct{}{}
		recCnt[uint16(b)] = uint16(sc.NumRecs)
	}
	trA, err := segread.InitNewTimeReaderWithFD(fdA, tsKey, blkSet, recCnt, 1, bmiA)
	if err != nil {
		res.Harness = err.Error()
		return
	}
	defer trA.Close()
	type other struct {
		rd   *segreader.SegmentFileReader
		word string
	}
	others := map[string]*other{}
	for i, n := range []string{"B", "C", "D"}[:sc.Others] {
		word := fmt.Sprintf("seg%s-scenario%d-value-%d", n, si, i)
		fname := filepath.Join(dir, fmt.Sprintf("s%d_%s_col.csg", si, n))
		bmi, err := rdWriteColumn(fname, "col", [][]byte{rdDictBlock(word, sc.NumRecs)})
		if err != nil {
			res.Harness = err.Error()
			return
		}
		fd, err := os.Open(fname)
		if err != nil {
			res.Harness = err.Error()
			return
		}
		rd, err := segreader.InitNewSegFileReader(fd, "col", map[uint16]struct{}{0: {}}, 2,
			[]*structs.BlockSummary{{RecCount: uint16(sc.NumRecs)}}, sutils.INCONSISTENT_CVAL_SIZE, bmi)
		if err != nil {
			res.Harness = err.Error()
			return
		}
		defer rd.Close()
		others[n] = &other{rd: rd, word: word}
	}
	for _, st := range sc.Steps {
		if st[0] == 'A' {
			b := int(st[1] - '0')
			for rn := 0; rn < sc.NumRecs; rn += 1 + sc.NumRecs/7 {
				ts, err := trA.GetTimeStampForRecord(uint16(b), uint16(rn), 1)
				if b == sc.Damaged {
					if err == nil {
						res.Problem = fmt.Sprintf("damaged block %d of segment A (byte %d of its chunk altered) was read without an error: ts=%d", b, sc.DamageAt, ts)
						res.Class = "altered_values_from_checksummed_block"
						return
					}
					break
				}
				if err != nil || ts != uint64(b+1)*1000000+uint64(rn) {
					res.Problem = fmt.Sprintf("intact block %d of segment A, record %d: ts=%d err=%v, want %d", b, rn, ts, err, uint64(b+1)*1000000+uint64(rn))
					res.Class = "damage_affects_other_chunks"
					return
				}
			}
			continue
		}
		o := others[st[:1]]
		switch st[2:] {
		case "load":
			if err := o.rd.ValidateAndReadBlock(0); err != nil {
				res.Problem = fmt.Sprintf("intact segment %s failed to load its block: %v", st[:1], err)
				res.Class = "cross_segment_effect"
				return
			}
		case "read":
			for rn := 0; rn < sc.NumRecs; rn++ {
				rec, err := o.rd.ReadRecord(uint16(rn))
				if err != nil || len(rec) < 3 || string(rec[3:]) != o.word {
					res.Problem = fmt.Sprintf("segment %s (intact, checksum verified) record %d: got %q err=%v, want %q — damage in segment A's timestamp block %d leaked into another segment's reader",
						st[:1], rn, rec, err, o.word, sc.Damaged)
					res.Class = "cross_segment_values_altered_after_damage"
					return
				}
			}
		}
	}
	return
}

// worker readers <dir> <out.json> <seed> <n>
func workerReaders(dir, outPath string, seed uint64, n int) {
	log.SetLevel(log.PanicLevel)
	_ = os.MkdirAll(dir, 0o755)
	r := vhlib.NewRng(seed)
	var out []rdResult
	for i := 0; i < n; i++ {
		out = append(out, runRdScenario(dir, i, genRdScenario(r.Fork())))
	}
	b, _ := json.Marshal(out)
	_ = os.WriteFile(outPath, b, 0o644)
	os.Exit(0)
}

// ---- the real memory pool against the model's Get/Put (which buffer a Get returns) ----
func runPoolTrace(cfg vhlib.Config, sum *vhlib.Summary, r *vhlib.Rng) {
	n := 8
	if cfg.Thorough() {
		n = 80
	}
	var cases []string
	for c := 0; c < n; c++ {
		n0 := r.Intn(4)
		pool := memorypool.NewMemoryPool(n0, 64)
		ids := map[*byte]int{}   // creation order of the pool's buffers = order of first appearance
		var bufs [][]byte        // by id
		var held []int           // ids currently taken
		var ops, obs []string
		// the first n0 items exist already: take and return them once to learn their identity
		nops := r.Range(20, 60)
		for k := 0; k < nops; k++ {
			if len(held) == 0 || r.Chance(55) {
				b := pool.Get(16)
				b = b[:1]
				id, ok := ids[&b[0]]
				if !ok {
					id = len(ids)
					ids[&b[0]] = id
					bufs = append(bufs, b)
				}
				held = append(held, id)
				ops = append(ops, "G")
				obs = append(obs, fmt.Sprintf("%d", id))
			} else {
				j := r.Intn(len(held))
				id := held[j]
				if r.Chance(85) {
					held = append(held[:j], held[j+1:]...)
				} // else: Put twice later (idempotent)
				_ = pool.Put(bufs[id])
				ops = append(ops, fmt.Sprintf("P %d", id))
			}
			sum.Eval(fmt.Sprintf("pool/%d/%d", c, k), true)
		}
		sum.Count("pool/sequences")
		cases = append(cases, fmt.Sprintf("(%d, %s, %s)", n0, vhlib.CoqList(ops), vhlib.CoqList(obs)))
	}
	defs := "Definition cases : list (N * list rawop * list N) := " + vhlib.CoqListNL(cases) + ".\n"
	sum.WriteCaseFile(cfg.Out, "cases_pool", "From SigM Require Import Base BufPool BufPoolCheck.\n", defs, "check_pool cases", n)
}

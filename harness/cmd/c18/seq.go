// (e) access sequences on a damaged block-summary file: the lazily loaded, process-wide search
// metadata of a segment (SegmentMicroIndex: block summaries + block search info, filled from the
// segment's .bsu file by GetLoadSsm/loadSearchMetadata, GetSearchInfoAndSummary and the memory
// rebalance) must never keep anything from a load that failed.  One case = one damaged .bsu + one
// SEQUENCE of accesses of different kinds in ONE worker process; the oracle looks at every access
// and at the cache state after it (model: coq/model/MetaCache.v).
package main

import (
	"bytes"
	"context"
	"encoding/binary"
	"encoding/json"
	"fmt"
	"os"
	"os/exec"
	"path/filepath"
	"strings"
	"sync"
	"time"

	"github.com/siglens/siglens/pkg/segment/metadata"
	"github.com/siglens/siglens/pkg/segment/pqmr"
	"github.com/siglens/siglens/pkg/segment/reader/microreader"
	"github.com/siglens/siglens/pkg/segment/reader/segread"
	"github.com/siglens/siglens/pkg/segment/reader/segread/segreader"
	"github.com/siglens/siglens/pkg/segment/structs"
	log "github.com/sirupsen/logrus"

	"verifharness/vhlib"
)

// ---------------------------------------------------------------------------
// worker side
// ---------------------------------------------------------------------------

// kinds:  pqs   metadata.GetSearchInfoAndSummaryForPQS   (persistent-query search path)
//
//	info  metadata.GetSearchInfoAndSummary          (multi-column reader, record reader)
//	ts    segread.ReadAllTimestampsForBlock         (bulk timestamp reader), block 0
//	recs  segreader.ReadAllRecords                  (all records of column "w")
//	ssm   metadata.GetLoadSsm                       (what an ordinary search does first)
//	evict metadata.RebalanceInMemorySsm(0)          (memory rebalance: evicts every segment's search metadata)
//	reload metadata.RebalanceInMemorySsm(1 TiB)     (memory rebalance: loads every segment's search metadata)
//	q:<name>  an ordinary query through pipesearch (all, term, stats, count, tb = time-bounded)
type seqStep struct {
	Kind string `json:"kind"`
	Seg  string `json:"seg,omitempty"` // A | B for the kinds that address one segment
}

func (s seqStep) String() string {
	if s.Seg != "" {
		return s.Kind + "(" + s.Seg + ")"
	}
	return s.Kind
}

type metaState struct {
	Known  bool        `json:"known"`
	Loaded bool        `json:"loaded"`
	Sums   [][3]uint64 `json:"sums,omitempty"`
}

type seqObs struct {
	Step  seqStep              `json:"step"`
	Ans   bool                 `json:"ans"`            // the access answered without an error
	Err   string               `json:"err,omitempty"`  // error returned / "panic: ..."
	Sums  [][3]uint64          `json:"sums,omitempty"` // block summaries (high, low, records) in the answer
	NBlk  int                  `json:"nblk"`           // blocks in the answer (block metadata / blocks read)
	Vals  []uint64             `json:"vals,omitempty"` // ts: timestamps of block 0
	Q     *qres                `json:"q,omitempty"`
	After map[string]metaState `json:"after,omitempty"` // cache state of the segments after the step
}

type seqOut struct {
	SegKeys map[string]string    `json:"segkeys"`
	File    map[string]seqObs    `json:"file"` // the stateless reader (microreader.ReadBlockSummaries) on each segment's .bsu
	Init    map[string]metaState `json:"init"`
	Obs     []seqObs             `json:"obs"`
	Done    bool                 `json:"done"`
}

const tbLo, tbHi = tsBase + 1000000, tsBase + 5999999 // blocks A2, A3, B1

var seqQueryText = map[string]string{
	"all": "*", "term": "w=alpha", "stats": "* | stats count AS c, sum(n) AS s by grp", "count": "w=alpha | stats count AS c", "tb": "*",
}

func sumsOf(l []*structs.BlockSummary) [][3]uint64 {
	out := [][3]uint64{}
	for _, s := range l {
		if s == nil {
			out = append(out, [3]uint64{})
			continue
		}
		out = append(out, [3]uint64{s.HighTs, s.LowTs, uint64(s.RecCount)})
	}
	return out
}

func workerSeq(dir, outPath, stepsPath string) {
	log.SetLevel(log.PanicLevel)
	out := seqOut{SegKeys: map[string]string{}, File: map[string]seqObs{}, Init: map[string]metaState{}}
	flush := func() {
		b, _ := json.Marshal(out)
		_ = os.WriteFile(outPath, b, 0o644)
	}
	flush()
	var steps []seqStep
	sb, err := os.ReadFile(stepsPath)
	if err != nil || json.Unmarshal(sb, &steps) != nil {
		os.Exit(3)
	}
	if err := initNode(dir); err != nil {
		out.Obs = append(out.Obs, seqObs{Step: seqStep{Kind: "init"}, Err: "error: " + err.Error()})
		out.Done = true
		flush()
		os.Exit(0)
	}
	for k := range metadata.GetAllSegKeys() {
		switch filepath.Base(k) {
		case "0":
			out.SegKeys["A"] = k
		case "1":
			out.SegKeys["B"] = k
		}
	}
	state := func() map[string]metaState {
		m := map[string]metaState{}
		for seg, k := range out.SegKeys {
			known, loaded, sums := metadata.VerifSearchMetadataState(k)
			m[seg] = metaState{Known: known, Loaded: loaded, Sums: sums}
		}
		return m
	}
	// InitMemoryLimiter starts a goroutine whose first memory rebalance may load every segment's search
	// metadata (loadParallelSsm = a load access) around now: let it finish, then look
	time.Sleep(30 * time.Millisecond)
	out.Init = state()
	// the stateless reader on the files as they are now: what a load has to deliver, or its error
	for seg, k := range out.SegKeys {
		o := seqObs{Step: seqStep{Kind: "file", Seg: seg}}
		func() {
			defer func() {
				if r := recover(); r != nil {
					o.Err = fmt.Sprintf("panic: %v%s", r, panicSite())
				}
			}()
			sums, allBmi, err := microreader.ReadBlockSummaries(structs.GetBsuFnameFromSegKey(k), false)
			o.Sums = sumsOf(sums)
			if allBmi != nil {
				o.NBlk = len(allBmi.AllBmh)
			}
			if err != nil {
				o.Err = "error: " + err.Error()
			} else {
				o.Ans = true
			}
		}()
		out.File[seg] = o
	}
	flush()
	for _, st := range steps {
		o := seqObs{Step: st}
		key := out.SegKeys[st.Seg]
		func() {
			defer func() {
				if r := recover(); r != nil {
					o.Ans = false
					o.Err = fmt.Sprintf("panic: %v%s", r, panicSite())
				}
			}()
			fail := func(err error) { o.Err = "error: " + err.Error() }
			switch {
			case st.Kind == "pqs":
				blks, sums, err := metadata.GetSearchInfoAndSummaryForPQS(key, pqmr.InitSegmentPQMResults())
				if err != nil {
					fail(err)
					return
				}
				o.Ans, o.Sums, o.NBlk = true, sumsOf(sums), len(blks)
			case st.Kind == "info":
				allBmi, sums, err := metadata.GetSearchInfoAndSummary(key)
				if err != nil {
					fail(err)
					return
				}
				o.Ans, o.Sums = true, sumsOf(sums)
				if allBmi != nil {
					o.NBlk = len(allBmi.AllBmh)
				}
			case st.Kind == "ssm":
				qid++
				smi, err := metadata.GetLoadSsm(key, qid)
				if err != nil {
					fail(err)
					return
				}
				o.Ans, o.Sums = true, sumsOf(smi.BlockSummaries)
				if smi.BlockSearchInfo != nil {
					o.NBlk = len(smi.BlockSearchInfo.AllBmh)
				}
			case st.Kind == "ts":
				// what the persistent-query search does: ALL blocks the file itself announces, with the block summaries it
				// announces (both taken from the stateless reader here, so that this can be the first access), one worker
				sums, fbmi, _ := microreader.ReadBlockSummaries(structs.GetBsuFnameFromSegKey(key), false)
				blks := map[uint16]struct{}{}
				maxBlk := 0
				if fbmi != nil {
					for b := range fbmi.AllBmh {
						blks[b] = struct{}{}
						if int(b) > maxBlk {
							maxBlk = int(b)
						}
					}
				}
				if len(blks) == 0 {
					blks[0] = struct{}{}
				}
				rc := uint16(6)
				if len(sums) > 0 {
					rc = sums[0].RecCount
				}
				bs := append([]*structs.BlockSummary{}, sums...)
				for len(bs) < maxBlk+8 {
					bs = append(bs, &structs.BlockSummary{RecCount: rc})
				}
				type tsRes struct {
					res map[uint16][]uint64
					err error
					pan string
				}
				ch := make(chan tsRes, 1)
				go func() {
					defer func() {
						if r := recover(); r != nil {
							ch <- tsRes{pan: fmt.Sprintf("panic: %v%s", r, panicSite())}
						}
					}()
					res, err := segread.ReadAllTimestampsForBlock(blks, key, bs, 1)
					ch <- tsRes{res: res, err: err}
				}()
				var tr tsRes
				select {
				case tr = <-ch:
				case <-time.After(queryTimeout):
					o.Err = "timeout"
					return
				}
				if tr.pan != "" {
					o.Err = tr.pan
					return
				}
				if tr.err != nil {
					fail(tr.err)
					return
				}
				o.Ans, o.NBlk = true, len(tr.res)
				o.Vals = append([]uint64{}, tr.res[0]...) // block 0's timestamps are judged
				if len(o.Vals) > int(rc) {
					o.Vals = o.Vals[:rc]
				}
				segread.ReturnTimeBuffers(tr.res)
			case st.Kind == "recs":
				res, err := segreader.ReadAllRecords(key, "w")
				if err != nil {
					fail(err)
					return
				}
				o.Ans, o.NBlk = true, len(res)
			case st.Kind == "evict":
				metadata.RebalanceInMemorySsm(0)
			case st.Kind == "reload":
				metadata.RebalanceInMemorySsm(1 << 40)
			case strings.HasPrefix(st.Kind, "q:"):
				name := st.Kind[2:]
				lo, hi := tsBase-1000, tsBase+100000000
				if name == "tb" {
					lo, hi = tbLo, tbHi
				}
				q := runLogQueryRange(name, seqQueryText[name], lo, hi)
				o.Q = &q
				o.Err = q.Err
				o.Ans = q.Err == ""
			}
		}()
		o.After = state()
		out.Obs = append(out.Obs, o)
		flush()
		if o.Err == "timeout" {
			break // the stuck call keeps its goroutine: stop here
		}
	}
	out.Done = true
	flush()
	os.Exit(0)
}

// ---------------------------------------------------------------------------
// driver side
// ---------------------------------------------------------------------------

// layout of a .bsu as written by the segment writer: per block
// blkSumLen LE32 | blkNum LE16 | highTs LE64 | lowTs LE64 | recCount LE16 | numCols LE16 | numCols x (cnameLen LE16 | cname | blkOff LE64 | blkLen LE32)
type bsuRec struct {
	Start, End int
	NumCols    int   // offset of the numCols field
	ColLens    []int // offsets of the cnameLen fields
}

func scanBsu(b []byte) ([]bsuRec, bool) {
	var out []bsuRec
	off := 0
	for off < len(b) {
		if len(b)-off < 26 {
			return out, false
		}
		rec := bsuRec{Start: off, NumCols: off + 24}
		nc := int(binary.LittleEndian.Uint16(b[off+24:]))
		p := off + 26
		for i := 0; i < nc; i++ {
			if len(b)-p < 2 {
				return out, false
			}
			cl := int(binary.LittleEndian.Uint16(b[p:]))
			if p+2+cl+12 > len(b) {
				return out, false
			}
			rec.ColLens = append(rec.ColLens, p)
			p += 2 + cl + 12
		}
		rec.End = p
		out = append(out, rec)
		off = p
	}
	return out, true
}

type seqCase struct {
	Mut   e2eMut    `json:"mutation"`
	Seg   string    `json:"segment"`
	Steps []seqStep `json:"steps"`
	// position given by the content of the file (the writer's column order differs from store to store):
	// "ts_name_block0" = first letter of the timestamp column's name in the record of block 0
	Sym string `json:"sym,omitempty"`
	// reproducer of a repaired crash class: access number ExpectErr (1-based) must REPORT an error (no answer,
	// no panic); anything else is a failure of class ExpectClass
	ExpectErr   int    `json:"expect_error_at,omitempty"`
	ExpectClass string `json:"expect_class,omitempty"`
}

type seqResult struct {
	Case   seqCase
	Status string
	Msg    string
	Out    *seqOut
	Bytes  []byte // the damaged file as it was on disk for this run
}

func stepsString(st []seqStep) string {
	var l []string
	for _, s := range st {
		l = append(l, s.String())
	}
	return strings.Join(l, " ; ")
}

var seqFirstKinds = []string{"pqs", "q:all", "info", "ts", "ssm", "recs", "q:stats", "reload"}
var seqMetaKinds = []string{"pqs", "info", "ts", "recs", "ssm"}
var seqQueryKinds = []string{"q:all", "q:term", "q:stats", "q:count", "q:tb"}

func otherSeg(s string) string {
	if s == "A" {
		return "B"
	}
	return "A"
}

func segOfKind(kind, seg string) string {
	for _, k := range seqMetaKinds {
		if k == kind {
			return seg
		}
	}
	return ""
}

// first access of kind firstKinds[idx] on the damaged segment, then 4..6 further accesses of random kinds
// (at least one ordinary query and one direct metadata access on the damaged segment; the last one is a query)
func genSeqSteps(r *vhlib.Rng, dseg string, idx int) []seqStep {
	fk := seqFirstKinds[idx%len(seqFirstKinds)]
	steps := []seqStep{{Kind: fk, Seg: segOfKind(fk, dseg)}}
	n := 4 + r.Intn(3)
	haveQ, haveM := false, false
	for i := 0; i < n; i++ {
		x := r.Intn(100)
		switch {
		case x < 40:
			steps = append(steps, seqStep{Kind: seqQueryKinds[r.Intn(len(seqQueryKinds))]})
			haveQ = true
		case x < 70:
			steps = append(steps, seqStep{Kind: seqMetaKinds[r.Intn(len(seqMetaKinds))], Seg: dseg})
			haveM = true
		case x < 80:
			steps = append(steps, seqStep{Kind: seqMetaKinds[r.Intn(len(seqMetaKinds))], Seg: otherSeg(dseg)})
		case x < 90:
			steps = append(steps, seqStep{Kind: "evict"})
		default:
			steps = append(steps, seqStep{Kind: "reload"})
		}
	}
	if !haveM {
		steps = append(steps, seqStep{Kind: seqMetaKinds[r.Intn(len(seqMetaKinds))], Seg: dseg})
	}
	if !haveQ || !strings.HasPrefix(steps[len(steps)-1].Kind, "q:") {
		steps = append(steps, seqStep{Kind: seqQueryKinds[r.Intn(2)]}) // all | term
	}
	return steps
}

func runSeqWorker(data, dir string, steps []seqStep, timeout time.Duration) (*seqOut, string, string) {
	outPath := filepath.Join(dir, "seq_obs.json")
	stepsPath := filepath.Join(dir, "seq_steps.json")
	_ = os.Remove(outPath)
	sb, _ := json.Marshal(steps)
	_ = os.WriteFile(stepsPath, sb, 0o644)
	ctx, cancel := context.WithTimeout(context.Background(), timeout)
	defer cancel()
	cmd := exec.CommandContext(ctx, "/bin/sh", "-c", fmt.Sprintf("ulimit -v %d; exec %q worker seq %q %q %q 12", workerVmKB, os.Args[0], data, outPath, stepsPath))
	var stderr bytes.Buffer
	cmd.Stderr = &stderr
	err := cmd.Run()
	var so seqOut
	if b, rerr := os.ReadFile(outPath); rerr == nil {
		_ = json.Unmarshal(b, &so)
	}
	tail := stderr.String()
	msg := ""
	for _, ln := range strings.Split(tail, "\n") {
		if strings.HasPrefix(ln, "fatal error:") || strings.HasPrefix(ln, "panic:") || strings.Contains(ln, "out of memory") || strings.Contains(ln, "cannot allocate") {
			msg = ln
			break
		}
	}
	if i := strings.Index(tail, "[running]:"); i >= 0 {
		for _, ln := range strings.Split(tail[i:], "\n") {
			if strings.HasPrefix(ln, "github.com/siglens/siglens/") {
				site := ln
				if k := strings.LastIndex(site, "("); k > 0 {
					site = site[:k]
				}
				msg += " at " + strings.TrimPrefix(site, "github.com/siglens/siglens/")
				break
			}
		}
	}
	if ctx.Err() == context.DeadlineExceeded {
		return &so, "hang", msg
	}
	for _, o := range so.Obs {
		if o.Q != nil && o.Q.Err == "timeout" {
			return &so, "hang", "query " + o.Q.Name + " did not return within the per-query limit"
		}
		if o.Err == "timeout" {
			return &so, "hang", o.Step.String() + " (ReadAllTimestampsForBlock over all blocks of the segment, one worker) did not return within the limit"
		}
	}
	if err != nil || !so.Done {
		if msg == "" {
			msg = tail
			if len(msg) > 300 {
				msg = msg[len(msg)-300:]
			}
		}
		return &so, "crash", fmt.Sprintf("%v: %s", err, msg)
	}
	return &so, "ok", ""
}

func eqSums(a, b [][3]uint64) bool {
	if len(a) != len(b) {
		return false
	}
	for i := range a {
		if a[i] != b[i] {
			return false
		}
	}
	return true
}

// blocks (unit names) of segment seg that contributed to a query answer; for aggregates: the blocks every
// explanation of the answer contains
func unitsServed(q qres, seg string) []string {
	o := judgeQuery(q)
	var out []string
	switch q.Name {
	case "stats", "count":
		if o.Altered != "" {
			return nil
		}
		for _, u := range units() {
			if u.Seg != seg {
				continue
			}
			inAll := len(o.MissAlts) > 0
			for _, alt := range o.MissAlts {
				if alt[u.Name] {
					inAll = false
				}
			}
			if inAll {
				out = append(out, u.Name)
			}
		}
	default:
		for _, u := range units() {
			if u.Seg != seg {
				continue
			}
			for _, e := range u.Evs {
				if _, ok := q.Recs[fmt.Sprintf("%d", e.ID)]; ok {
					out = append(out, u.Name)
					break
				}
			}
		}
	}
	return out
}

func qAnswerKey(q qres) string {
	e := ""
	if q.Err != "" {
		e = "err"
	}
	return canon(map[string]interface{}{"recs": q.Recs, "noid": q.NoID, "groups": q.Groups, "err": e})
}

func coqSums(s [][3]uint64) string {
	var l []string
	for _, x := range s {
		l = append(l, fmt.Sprintf("(%d, %d, %d)", x[0], x[1], x[2]))
	}
	return vhlib.CoqList(l)
}

func runSeq(cfg vhlib.Config, sum *vhlib.Summary, r *vhlib.Rng, lanes []lane, files []storeFile, content map[string][]byte) {
	var cases []seqCase
	idx := 0
	add := func(f storeFile, kind string, pos, val, nseq int) {
		if pos < 0 || pos >= f.Size {
			return
		}
		if kind == "set" && int(content[f.Rel][pos]) == val {
			return
		}
		m := e2eMut{File: f.Rel, Kind: kind, Pos: pos, Val: val, Size: f.Size}
		for i := 0; i < nseq; i++ {
			cases = append(cases, seqCase{Mut: m, Seg: f.Seg, Steps: genSeqSteps(r, f.Seg, idx)})
			idx++
		}
	}
	for _, f := range files {
		if f.Kind != "bsu" {
			continue
		}
		b := content[f.Rel]
		recs, ok := scanBsu(b)
		if !ok || len(recs) < 2 {
			sum.HarnessError(fmt.Sprintf("seq: block summary file %s of the pristine store does not have the expected layout (%d records)", f.Rel, len(recs)))
			return
		}
		if cfg.Thorough() {
			for p := 0; p < f.Size; p++ {
				add(f, "trunc", p, 0, 2)
				add(f, "xor", p, 0xFF, 1)
				add(f, "xor", p, 0x01, 1)
			}
			continue
		}
		last := recs[len(recs)-1]
		for k, rec := range recs {
			if k+1 < len(recs) {
				add(f, "trunc", rec.End, 0, 1) // exactly at a record boundary: accepted, fewer blocks
			}
			if k == 0 {
				add(f, "trunc", rec.Start+30, 0, 1) // no complete block
				continue
			}
			// inside a later record: refused after at least one complete block
			add(f, "trunc", (rec.Start+rec.End)/2, 0, 2)
			if k == len(recs)-1 {
				add(f, "trunc", rec.End-1, 0, 2)
				add(f, "trunc", rec.End-20, 0, 2)
				add(f, "trunc", rec.Start+3, 0, 1)
			}
		}
		add(f, "xor", last.NumCols, 0xFF, 2)       // more columns announced than the file holds
		add(f, "xor", recs[1].ColLens[0], 0x40, 1) // a column name length
		// fields of the fixed record header (the column order behind it differs from store to store):
		// blkSumLen 0..3 | blkNum 4..5 | highTs 6..13 | lowTs 14..21 | recCount 22..23 | numCols 24..25
		add(f, "set", recs[r.Intn(len(recs))].Start+r.Intn(4), 0, 1)
		add(f, "xor", recs[r.Intn(len(recs))].Start+6+r.Intn(16), 0x01, 1)
		add(f, "xor", recs[1+r.Intn(len(recs)-1)].Start+22, 0x03, 1)
	}
	// a record count raised above what the (intact, checksummed) timestamp block holds, in a block that is not the
	// last one: the bulk timestamp reader must skip or refuse the block and come back
	for _, f := range files {
		if f.Kind == "bsu" {
			if recs, ok := scanBsu(content[f.Rel]); ok && len(recs) >= 2 {
				cases = append(cases, seqCase{Mut: e2eMut{File: f.Rel, Kind: "xor", Pos: recs[0].Start + 22, Val: 0x08, Size: f.Size}, Seg: f.Seg,
					Steps: []seqStep{{Kind: "q:all"}, {Kind: "ts", Seg: f.Seg}, {Kind: "q:term"}, {Kind: "q:term"}, {Kind: "ts", Seg: f.Seg}}})
			}
		}
	}
	// reproducers of the two repaired crash classes (known/C18.json: fixed; a regression is a VIOLATION of the class):
	// bsu_timestamp_column_index_panic: one bit of the timestamp column's NAME in the record of block 0; the bulk
	// timestamp reader must report an error, and the repeated query (persistent-query path) must not end the process
	// bsu_block_number_index_panic: low byte of the block number of block 0; ReadAllRecords must report an error
	for _, f := range files {
		if f.Kind == "bsu" && f.Seg == "A" {
			cases = append(cases, seqCase{Mut: e2eMut{File: f.Rel, Kind: "xor", Val: 0x01, Size: f.Size}, Seg: f.Seg, Sym: "ts_name_block0",
				Steps:     []seqStep{{Kind: "q:all"}, {Kind: "ts", Seg: "A"}, {Kind: "q:term"}, {Kind: "q:term"}, {Kind: "q:term"}, {Kind: "q:all"}},
				ExpectErr: 2, ExpectClass: "bsu_timestamp_column_index_panic"})
			cases = append(cases, seqCase{Mut: e2eMut{File: f.Rel, Kind: "xor", Pos: 4, Val: 0xFF, Size: f.Size}, Seg: f.Seg,
				Steps:     []seqStep{{Kind: "q:all"}, {Kind: "recs", Seg: "A"}, {Kind: "q:all"}},
				ExpectErr: 2, ExpectClass: "bsu_block_number_index_panic"})
		}
	}
	if flt := os.Getenv("C18_SEQ_LIMIT"); flt != "" {
		var n int
		fmt.Sscanf(flt, "%d", &n)
		if n < len(cases) {
			cases = cases[:n]
		}
	}
	results := make([]seqResult, len(cases))
	jobs := make(chan int)
	var wg sync.WaitGroup
	for li := range lanes {
		wg.Add(1)
		go func(l lane) {
			defer wg.Done()
			for i := range jobs {
				c := cases[i]
				_ = os.RemoveAll(l.data)
				if err := copyTree(l.pristine, l.data); err != nil {
					results[i] = seqResult{Case: c, Status: "harness", Msg: err.Error()}
					continue
				}
				p := filepath.Join(l.data, c.Mut.File)
				b, _ := os.ReadFile(p)
				if c.Sym == "ts_name_block0" {
					c.Mut.Pos = bytes.Index(b, []byte("timestamp"))
					if c.Mut.Pos < 0 {
						results[i] = seqResult{Case: c, Status: "harness", Msg: "no timestamp column in " + c.Mut.File}
						continue
					}
				}
				nb := c.Mut.apply(b)
				_ = os.WriteFile(p, nb, 0o644)
				so, st, msg := runSeqWorker(l.data, l.dir, c.Steps, time.Duration(12*len(c.Steps)+40)*time.Second)
				results[i] = seqResult{Case: c, Status: st, Msg: msg, Out: so, Bytes: nb}
			}
		}(lanes[li])
	}
	for i := range cases {
		jobs <- i
	}
	close(jobs)
	wg.Wait()

	logf, _ := os.Create(filepath.Join(cfg.Out, "seq_results.jsonl"))
	defer logf.Close()
	// answers of the same query on the same damaged store, across all steps of all sequences (processes)
	type qseen struct{ key, where string }
	across := map[string]qseen{}
	var coqCases []string
	origUnits := map[string][]string{}
	for _, u := range units() {
		origUnits[u.Seg] = append(origUnits[u.Seg], u.Name)
	}
	for ci, res := range results {
		c := res.Case
		m := c.Mut
		how := "build the store with `c18 worker build <dir> 1`, apply the mutation to <dir>/" + m.File + ", write the steps as JSON to steps.json, run `c18 worker seq <dir> out.json steps.json`"
		cs := map[string]interface{}{"stream": "seq", "mutation": m, "segment": c.Seg, "steps": c.Steps, "status": res.Status, "message": res.Msg, "how": how,
			"damaged_file_bytes": res.Bytes, "note": "the writer's column order inside the .bsu differs from store to store: damaged_file_bytes is the file of this run"}
		name := fmt.Sprintf("%s, then in one process: %s", m, stepsString(c.Steps))
		sum.Eval("seq/"+name, true)
		sum.Count("seq/first_access/" + c.Steps[0].Kind)
		sum.Count("seq/mutation/" + m.Kind)
		f := storeFile{Rel: m.File, Size: m.Size, Seg: c.Seg, Kind: "bsu"}
		switch res.Status {
		case "harness":
			sum.HarnessError("seq: " + res.Msg)
			continue
		case "crash":
			cls := crashClass(f, "", res.Msg)
			if strings.Contains(res.Msg, "index out of range") && strings.Contains(res.Msg, "segread.ReadAllTimestampsForBlock") {
				cls = "bsu_timestamp_column_index_panic" // the same site reached by a repeated ordinary query (persistent-query path)
			}
			if cls == "" {
				sum.Count("seq/outcome/alloc_le_4gib_refused_by_worker_vm_limit")
				continue
			}
			sum.Count("seq/outcome/crash")
			done := 0
			if res.Out != nil {
				done = len(res.Out.Obs)
			}
			sum.Fail(cls, fmt.Sprintf("%s: the process died (%s) after %d accesses", name, res.Msg, done), cs)
			continue
		case "hang":
			sum.Count("seq/outcome/hang")
			hcls := "query_hang_on_damaged_file"
			if strings.Contains(res.Msg, "ReadAllTimestampsForBlock") {
				hcls = "bulk_timestamp_reader_hang_on_damaged_block"
			}
			sum.Fail(hcls, fmt.Sprintf("%s: %s", name, res.Msg), cs)
			continue
		}
		so := res.Out
		if len(so.Obs) == 1 && so.Obs[0].Step.Kind == "init" {
			sum.Fail("cross_segment_effect", fmt.Sprintf("%s: node start-up failed: %s", m, so.Obs[0].Err), cs)
			continue
		}
		if len(so.SegKeys) != 2 || len(so.Obs) != len(c.Steps) {
			sum.HarnessError(fmt.Sprintf("seq: %s: %d segments known, %d of %d steps observed", name, len(so.SegKeys), len(so.Obs), len(c.Steps)))
			continue
		}
		dseg, oseg := c.Seg, otherSeg(c.Seg)
		file := so.File[dseg]
		refused := !file.Ans
		if strings.HasPrefix(file.Err, "panic:") {
			sum.Fail("bsu_truncated_block_summary_panic", fmt.Sprintf("%s: the reader of the block summary file panicked: %s", m, file.Err), cs)
			continue
		}
		if of := so.File[oseg]; !of.Ans || len(of.Sums) != len(origUnits[oseg]) {
			sum.Fail("cross_segment_effect", fmt.Sprintf("%s: the block summary file of the UNDAMAGED segment %s reads as %d blocks, err=%q", m, oseg, len(of.Sums), of.Err), cs)
			continue
		}
		if refused {
			sum.Count(fmt.Sprintf("seq/file/refused_after_%d_complete_blocks", len(file.Sums)))
		} else {
			sum.Count(fmt.Sprintf("seq/file/accepted_%d_blocks", len(file.Sums)))
		}
		for seg, st := range so.Init {
			if st.Loaded {
				sum.Count("seq/search_metadata_loaded_at_start/" + seg)
			}
		}
		problems := 0
		prefix := func(i int) string {
			return fmt.Sprintf("%s; the reader of the file itself says %s; access %d of [%s]", m, fileVerdict(file), i+1, stepsString(c.Steps))
		}
		errSeen := -1 // first access that reported an error for the damaged segment's metadata
		inproc := map[string]qseen{}
		var coqOps []string
		if c.ExpectErr > 0 && c.ExpectErr <= len(so.Obs) {
			o := so.Obs[c.ExpectErr-1]
			sum.Count("seq/repaired_class_reproducer/" + c.ExpectClass)
			if o.Ans || o.Err == "" {
				problems++
				sum.Fail(c.ExpectClass, fmt.Sprintf("%s: %s must report an error for this file, it answered: %s", prefix(c.ExpectErr-1), o.Step, ansString(o)), cs)
			}
		}
		for i, o := range so.Obs {
			st := o.Step
			if strings.HasPrefix(o.Err, "panic:") {
				problems++
				cls := "metadata_access_panic_on_damaged_file"
				if st.Kind == "ts" && strings.Contains(o.Err, "index out of range") && strings.Contains(o.Err, "segread.ReadAllTimestampsForBlock") {
					// block metadata without an entry for the timestamp column's index
					cls = "bsu_timestamp_column_index_panic"
				}
				if st.Kind == "recs" && strings.Contains(o.Err, "index out of range") && strings.Contains(o.Err, "segreader.(*SegmentFileReader).ReadDictEnc") {
					// a damaged block number used as index into the block summaries
					cls = "bsu_block_number_index_panic"
				}
				sum.Fail(cls, fmt.Sprintf("%s: %s panicked: %s", prefix(i), st, o.Err), cs)
			}
			// ---- the cache after the step ----
			ad, ao := o.After[dseg], o.After[oseg]
			if ad.Loaded && refused {
				problems++
				sum.Fail("partial_block_summaries_cached_after_failed_load",
					fmt.Sprintf("%s: after %s (answer: %s) the segment's shared search metadata is marked loaded with %d of %d blocks although its file is refused",
						prefix(i), st, ansString(o), len(ad.Sums), len(origUnits[dseg])), cs)
			} else if ad.Loaded && !eqSums(ad.Sums, file.Sums) {
				problems++
				sum.Fail("cached_block_summaries_differ_from_file", fmt.Sprintf("%s: after %s the cached block summaries are %v, the file holds %v", prefix(i), st, ad.Sums, file.Sums), cs)
			}
			if ao.Loaded && !eqSums(ao.Sums, so.File[oseg].Sums) {
				problems++
				sum.Fail("cross_segment_effect", fmt.Sprintf("%s: after %s the cached block summaries of the UNDAMAGED segment %s are %v", prefix(i), st, oseg, ao.Sums), cs)
			}
			// ---- the answer ----
			switch {
			case st.Seg == oseg:
				if !o.Ans || (st.Kind != "ts" && st.Kind != "recs" && !eqSums(o.Sums, so.File[oseg].Sums)) || (st.Kind == "recs" && o.NBlk != len(origUnits[oseg])) {
					problems++
					sum.Fail("cross_segment_effect", fmt.Sprintf("%s: %s on the UNDAMAGED segment answered %s", prefix(i), st, ansString(o)), cs)
				}
			case st.Seg == dseg:
				if o.Ans && refused {
					problems++
					after := ""
					if errSeen >= 0 {
						after = fmt.Sprintf(" (access %d, %s, had reported the damage: %s)", errSeen+1, c.Steps[errSeen], so.Obs[errSeen].Err)
					}
					sum.Fail("refused_block_summary_file_served", fmt.Sprintf("%s: %s answered without error from a partial parse: %s%s", prefix(i), st, ansString(o), after), cs)
				}
				if o.Ans && !refused && (st.Kind == "pqs" || st.Kind == "info" || st.Kind == "ssm") && !eqSums(o.Sums, file.Sums) {
					problems++
					sum.Fail("metadata_answer_differs_from_file", fmt.Sprintf("%s: %s answered %v, the file holds %v", prefix(i), st, o.Sums, file.Sums), cs)
				}
				if !o.Ans && !refused && (st.Kind == "pqs" || st.Kind == "info" || st.Kind == "ssm") {
					problems++
					sum.Fail("metadata_error_on_accepted_file", fmt.Sprintf("%s: %s reported %s although the reader accepts the file", prefix(i), st, o.Err), cs)
				}
				if !o.Ans && errSeen < 0 {
					errSeen = i
				}
				if st.Kind == "ts" && o.Ans && !refused && len(file.Sums) > 0 {
					// timestamps of block 0 of a checksummed column block: original or an error
					u := units()[0]
					if dseg == "B" {
						u = units()[3]
					}
					for k, v := range o.Vals {
						if k < len(u.Evs) && v != u.Evs[k].TS && m.Kind == "trunc" {
							problems++
							sum.Fail("altered_values_from_checksummed_block", fmt.Sprintf("%s: %s returned timestamp %d for record %d of block 0, ingested %d", prefix(i), st, v, k, u.Evs[k].TS), cs)
							break
						}
					}
				}
			case o.Q != nil:
				q := *o.Q
				if strings.HasPrefix(q.Err, "panic:") {
					break
				}
				jo := judgeQuery(q)
				if q.Err == "" && refused {
					if served := unitsServed(q, dseg); len(served) > 0 {
						problems++
						after := ""
						if errSeen >= 0 {
							after = fmt.Sprintf(" (access %d, %s, had reported the damage: %s)", errSeen+1, c.Steps[errSeen], so.Obs[errSeen].Err)
						}
						sum.Fail("refused_block_summary_file_served", fmt.Sprintf("%s: query %s (%s) reported no error and answered from blocks %v of the damaged segment, the blocks behind the damage silently left out%s",
							prefix(i), q.Name, seqQueryText[q.Name], served, after), cs)
					}
				}
				for u := range jo.Missing {
					// stats: prefer an explanation inside the damaged segment
					cross := unitSeg(u) != dseg
					if cross && len(jo.MissAlts) > 0 {
						for _, alt := range jo.MissAlts {
							in := true
							for au := range alt {
								if unitSeg(au) != dseg {
									in = false
								}
							}
							if in {
								cross = false
							}
						}
					}
					if cross {
						problems++
						sum.Fail("cross_segment_effect", fmt.Sprintf("%s: query %s lost events of block %s of the undamaged segment (err=%q)", prefix(i), q.Name, u, q.Err), cs)
						break
					}
				}
				for u := range jo.AltUnits {
					if unitSeg(u) != dseg {
						problems++
						sum.Fail("cross_segment_values_altered_after_damage", fmt.Sprintf("%s: query %s: %s", prefix(i), q.Name, jo.Altered), cs)
					}
				}
				if jo.Altered != "" {
					sum.Count("seq/altered_unchecksummed/bsu")
				}
				// the same query on the same, unchanged store: the same answer whatever happened before
				k := qAnswerKey(q)
				where := fmt.Sprintf("access %d of [%s]", i+1, stepsString(c.Steps))
				if !refused && m.Kind != "trunc" {
					// an accepted file with an altered field: the raw and the persistent-query search path may fail
					// differently on the same wrong offsets; counted, not judged
					if prev, ok := inproc[q.Name]; ok && prev.key != k {
						sum.Count("seq/altered_field_answers_differ_between_search_paths")
					}
					inproc[q.Name] = qseen{k, where}
					break
				}
				if prev, ok := inproc[q.Name]; ok && prev.key != k {
					problems++
					sum.Fail("damaged_segment_answer_depends_on_access_history", fmt.Sprintf("%s: query %s answered %s, the same query earlier in this process (%s) answered %s",
						prefix(i), q.Name, shorten(k), prev.where, shorten(prev.key)), cs)
				} else if !ok {
					inproc[q.Name] = qseen{k, where}
				}
				ak := m.String() + "|" + q.Name
				if prev, ok := across[ak]; ok && prev.key != k {
					problems++
					sum.Fail("damaged_segment_answer_depends_on_access_history", fmt.Sprintf("%s: query %s answered %s, the same query on the same damaged store in another process (%s) answered %s",
						prefix(i), q.Name, shorten(k), prev.where, shorten(prev.key)), cs)
				} else if !ok {
					across[ak] = qseen{k, where}
				}
			}
			// ---- the step as seen by the model (operations on the damaged segment's cache) ----
			op, ansCode, ansSums := -1, 9, "[]"
			switch {
			case st.Seg == dseg && st.Kind == "ssm":
				op = 0
			case st.Seg == dseg:
				op = 1
			case st.Kind == "evict":
				op = 2
			case st.Kind == "reload", o.Q != nil:
				op = 0 // GetLoadSsm / loadParallelSsm; the answer is not a list of summaries
			}
			if op >= 0 {
				if st.Seg == dseg && (st.Kind == "ssm" || st.Kind == "pqs" || st.Kind == "info") {
					if o.Ans {
						ansCode, ansSums = 2, coqSums(o.Sums)
					} else {
						ansCode = 1
					}
				} else if st.Seg == dseg { // ts, recs: error / answer, no summaries in the answer
					if o.Ans {
						ansCode = 8
					} else if refused {
						ansCode = 1
					} // an error on an accepted file may come from the column file: not compared
				}
				ld := 0
				if ad.Loaded {
					ld = 1
				}
				coqOps = append(coqOps, fmt.Sprintf("(%d, (%d, %s), (%d, %s))", op, ansCode, ansSums, ld, coqSums(ad.Sums)))
			}
		}
		mutated := res.Bytes
		if ini := so.Init[dseg]; ini.Loaded {
			// the start-up rebalance got there first: a load access before the first step
			coqOps = append([]string{fmt.Sprintf("(0, (9, []), (1, %s))", coqSums(ini.Sums))}, coqOps...)
			if refused {
				sum.Fail("partial_block_summaries_cached_after_failed_load", fmt.Sprintf("%s: after start-up the segment's search metadata is marked loaded with %d blocks although its file is refused", m, len(ini.Sums)), cs)
			}
		}
		if len(coqCases) < 400 || cfg.Thorough() {
			coqCases = append(coqCases, fmt.Sprintf("(%s, %s)", vhlib.CoqBytes(mutated), vhlib.CoqList(coqOps)))
		}
		outcome := "consistent"
		if problems > 0 {
			outcome = "problem"
		}
		sum.Count("seq/outcome/" + outcome)
		lb, _ := json.Marshal(map[string]interface{}{"m": m, "steps": stepsString(c.Steps), "file": fileVerdict(file), "outcome": outcome, "obs": so.Obs})
		fmt.Fprintln(logf, string(lb))
		if ci%9 == 0 {
			sum.Sample(map[string]interface{}{"stream": "seq", "mutation": m.String(), "steps": stepsString(c.Steps), "file": fileVerdict(file), "outcome": outcome})
		}
	}
	const per = 40
	for s := 0; s*per < len(coqCases); s++ {
		hi := (s + 1) * per
		if hi > len(coqCases) {
			hi = len(coqCases)
		}
		defs := "Definition cases : list (list N * list (N * (N * list (N * N * N)) * (N * list (N * N * N)))) := " + vhlib.CoqListNL(coqCases[s*per:hi]) + ".\n"
		sum.WriteCaseFile(cfg.Out, fmt.Sprintf("cases_seq_%d", s), "From SigM Require Import Base MetaDecoders MetaCache MetaCacheCheck.\n", defs, "check_seq cases", hi-s*per)
	}
}

func fileVerdict(f seqObs) string {
	if f.Ans {
		return fmt.Sprintf("accepted, %d blocks", len(f.Sums))
	}
	return fmt.Sprintf("REFUSED (%s) after %d complete blocks", f.Err, len(f.Sums))
}

func ansString(o seqObs) string {
	if !o.Ans {
		if o.Err == "" {
			return "nothing"
		}
		return o.Err
	}
	switch o.Step.Kind {
	case "ts":
		return fmt.Sprintf("timestamps of %d block(s): %v", o.NBlk, o.Vals)
	case "recs":
		return fmt.Sprintf("the records of %d block(s)", o.NBlk)
	case "evict", "reload":
		return "done"
	}
	if o.Q != nil {
		return fmt.Sprintf("%d records, %d groups", len(o.Q.Recs), len(o.Q.Groups))
	}
	return fmt.Sprintf("%d block summaries %v, %d blocks to search", len(o.Sums), o.Sums, o.NBlk)
}

func shorten(s string) string {
	if len(s) > 220 {
		return s[:220] + "…"
	}
	return s
}

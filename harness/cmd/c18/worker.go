// worker side of c18: builds the small store / runs the queries on a (possibly damaged) store.
package main

import (
	"bytes"
	"context"
	"encoding/binary"
	"encoding/json"
	"fmt"
	"math"
	"os"
	"runtime/debug"
	"sort"
	"strings"
	"time"

	"github.com/siglens/siglens/pkg/ast/pipesearch"
	"github.com/siglens/siglens/pkg/config"
	eswriter "github.com/siglens/siglens/pkg/es/writer"
	"github.com/siglens/siglens/pkg/integrations/prometheus/promql"
	"github.com/siglens/siglens/pkg/segment"
	"github.com/siglens/siglens/pkg/segment/memory/limit"
	"github.com/siglens/siglens/pkg/segment/metadata"
	"github.com/siglens/siglens/pkg/segment/reader/microreader"
	"github.com/siglens/siglens/pkg/segment/query"
	sutils "github.com/siglens/siglens/pkg/segment/utils"
	"github.com/siglens/siglens/pkg/segment/writer"
	"github.com/siglens/siglens/pkg/segment/writer/metrics"
	serverutils "github.com/siglens/siglens/pkg/server/utils"
	vtable "github.com/siglens/siglens/pkg/virtualtable"
	log "github.com/sirupsen/logrus"
)

const tsBase = uint64(1700000000000)
const indexName = "c18idx"

// the events of the store.  Segment A = three blocks (ids 1..6, 7..12, 13..18), segment B = two
// blocks (ids 101..104, 105..108); every block has its own, clearly different timestamp range
// (block k of the store: tsBase + k*1_000_000 + id), so that a timestamp served from another
// block of the same column file is visible in the answer.
type event struct {
	ID   int    `json:"id"`
	Seg  string `json:"seg"`
	Grp  string `json:"grp"`
	Word string `json:"w"`
	N    int    `json:"n"`
	Msg  string `json:"msg"`
	TS   uint64 `json:"ts"`
}

var wordsA = []string{"alpha", "beta", "gamma"}
var wordsB = []string{"alpha", "delta", "delta"}

type unit struct {
	Name string // A1 A2 A3 B1 B2
	Seg  string // A B
	Evs  []event
}

func storeBlocks() []unit {
	mk := func(id int, seg string, words []string, blk int) event {
		return event{ID: id, Seg: seg, Grp: fmt.Sprintf("%s%d", seg, id%2+1), Word: words[id%len(words)], N: id * 10,
			Msg: fmt.Sprintf("msg-%s-%d-%s", seg, id, strings.Repeat("x", id%5)), TS: tsBase + uint64(blk)*1000000 + uint64(id)}
	}
	rng := func(name, seg string, lo, hi, blk int, words []string) unit {
		u := unit{Name: name, Seg: seg}
		for id := lo; id <= hi; id++ {
			u.Evs = append(u.Evs, mk(id, strings.ToLower(seg), words, blk))
		}
		return u
	}
	return []unit{
		rng("A1", "A", 1, 6, 0, wordsA), rng("A2", "A", 7, 12, 1, wordsA), rng("A3", "A", 13, 18, 2, wordsA),
		rng("B1", "B", 101, 104, 5, wordsB), rng("B2", "B", 105, 108, 6, wordsB),
	}
}

func initNode(dir string) error {
	config.InitializeTestingConfig(dir + "/")
	config.SetNewQueryPipelineEnabled(true)
	limit.InitMemoryLimiter()
	metrics.InitTestingConfig()
	writer.InitWriterNode()
	if err := vtable.InitVTable(serverutils.GetMyIds); err != nil {
		return err
	}
	if err := query.InitQueryNode(serverutils.GetMyIds, serverutils.ExtractKibanaRequests); err != nil {
		return err
	}
	query.InitMaxRunningQueries()
	go query.PullQueriesToRun(context.Background())
	return nil
}

func ingest(evs []event, reqid uint64) error {
	var sb strings.Builder
	for _, e := range evs {
		fmt.Fprintf(&sb, "{\"index\":{\"_index\":%q}}\n", indexName)
		fmt.Fprintf(&sb, "{\"timestamp\":%d,\"id\":%d,\"seg\":%q,\"grp\":%q,\"w\":%q,\"n\":%d,\"msg\":%q}\n",
			e.TS, e.ID, e.Seg, e.Grp, e.Word, e.N, e.Msg)
	}
	_, _, err := eswriter.HandleBulkBody([]byte(sb.String()), nil, reqid, 0, false)
	return err
}

// worker build <dir> <withMetrics>
func workerBuild(dir string, withMetrics bool) {
	log.SetLevel(log.PanicLevel)
	if err := initNode(dir); err != nil {
		fmt.Fprintln(os.Stderr, "init:", err)
		os.Exit(4)
	}
	zero := time.Duration(0)
	fail := func(err error) {
		if err != nil {
			fmt.Fprintln(os.Stderr, "build:", err)
			os.Exit(5)
		}
	}
	// one flush = one block; rotation after the last block of a segment
	prev := ""
	for i, u := range storeBlocks() {
		if prev != "" && prev != u.Seg {
			writer.ForceRotateSegmentsForTest()
		}
		prev = u.Seg
		fail(ingest(u.Evs, uint64(i+1)))
		writer.FlushWipBufferToFile(&zero, &zero)
	}
	writer.ForceRotateSegmentsForTest()
	writer.WaitForSortedIndexToComplete()
	if withMetrics {
		for i := 0; i < 6; i++ {
			for _, host := range []string{"h1", "h2"} {
				raw := fmt.Sprintf(`{"metric":"cpu","tags":{"host":"%s"},"timestamp":%d,"value":%d}`, host, tsBase/1000+uint64(i*10), (i+1)*7+len(host))
				if host == "h2" {
					raw = fmt.Sprintf(`{"metric":"cpu","tags":{"host":"%s"},"timestamp":%d,"value":%d.5}`, host, tsBase/1000+uint64(i*10), i*3)
				}
				fail(writer.AddTimeSeriesEntryToInMemBuf([]byte(raw), sutils.SIGNAL_METRICS_OTSDB, 0))
			}
		}
		old := sutils.MAX_BYTES_METRICS_SEGMENT
		sutils.MAX_BYTES_METRICS_SEGMENT = 0
		for _, mSeg := range metrics.GetAllMetricsSegments() {
			fail(mSeg.CheckAndRotate(false))
		}
		sutils.MAX_BYTES_METRICS_SEGMENT = old
	}
	os.Exit(0)
}

// ---------- query worker ----------
type qres struct {
	Name   string            `json:"name"`
	Err    string            `json:"err,omitempty"`    // error returned / resp.Errors / panic text / timeout
	Recs   map[string]string `json:"recs,omitempty"`   // search: id -> canonical record
	NoID   []string          `json:"noid,omitempty"`   // records without a usable id
	Groups map[string]string `json:"groups,omitempty"` // stats: group -> canonical measures
	Dup    bool              `json:"dup,omitempty"`
}

type workerOut struct {
	Q    []qres `json:"q"`
	Done bool   `json:"done"`
}

var qid uint64 = 10

// the first siglens frame below a recovered panic (the server has no recover in its handlers:
// a panic in the request goroutine ends the process)
func panicSite() string {
	st := string(debug.Stack())
	seenPanic := false
	for _, ln := range strings.Split(st, "\n") {
		if strings.HasPrefix(ln, "panic(") {
			seenPanic = true
			continue
		}
		if seenPanic && strings.HasPrefix(ln, "github.com/siglens/siglens/") {
			if k := strings.LastIndex(ln, "("); k > 0 {
				ln = ln[:k]
			}
			return " at " + strings.TrimPrefix(ln, "github.com/siglens/siglens/")
		}
	}
	return ""
}

// per-query limit inside the worker (raised when a mutation is re-run alone)
var queryTimeout = 25 * time.Second

func canon(v interface{}) string {
	b, _ := json.Marshal(v) // map keys are sorted by encoding/json
	return string(b)
}

func runLogQuery(name, text string) qres {
	return runLogQueryRange(name, text, tsBase-1000, tsBase+100000000)
}

func runLogQueryRange(name, text string, startEpoch, endEpoch uint64) qres {
	qid++
	req := map[string]interface{}{
		"searchText": text, "indexName": indexName, "startEpoch": startEpoch, "endEpoch": endEpoch,
		"size": uint64(1000), "from": uint64(0), "queryLanguage": "Splunk QL", "state": "query",
	}
	out := qres{Name: name}
	ch := make(chan qres, 1)
	go func() {
		o := qres{Name: name}
		defer func() {
			if r := recover(); r != nil {
				o.Err = fmt.Sprintf("panic: %v%s", r, panicSite())
				ch <- o
			}
		}()
		resp, _, _, err := pipesearch.ParseAndExecutePipeRequest(req, qid, 0, time.Now(), "", nil)
		if err != nil {
			o.Err = "error: " + err.Error()
			ch <- o
			return
		}
		if resp == nil {
			o.Err = "nil response"
			ch <- o
			return
		}
		if len(resp.Errors) > 0 {
			o.Err = "resp.Errors: " + strings.Join(resp.Errors, "; ")
		}
		if len(resp.Hits.Hits) > 0 {
			o.Recs = map[string]string{}
		}
		for _, h := range resp.Hits.Hits {
			idv, ok := h["id"]
			c := canon(h)
			if !ok || idv == nil {
				o.NoID = append(o.NoID, c)
				continue
			}
			k := fmt.Sprintf("%v", idv)
			if _, dup := o.Recs[k]; dup {
				o.Dup = true
			}
			o.Recs[k] = c
		}
		if len(resp.MeasureResults) > 0 {
			o.Groups = map[string]string{}
		}
		for _, b := range resp.MeasureResults {
			k := strings.Join(b.GroupByValues, "|")
			if _, dup := o.Groups[k]; dup {
				o.Dup = true
			}
			o.Groups[k] = canon(b.MeasureVal)
		}
		ch <- o
	}()
	select {
	case r := <-ch:
		return r
	case <-time.After(queryTimeout):
		out.Err = "timeout"
		return out
	}
}

func runMetricsQuery(name, expr string) qres {
	o := qres{Name: name}
	func() {
		defer func() {
			if r := recover(); r != nil {
				o.Err = fmt.Sprintf("panic: %v%s", r, panicSite())
			}
		}()
		lo, hi := uint32(tsBase/1000-10), uint32(tsBase/1000+300)
		reqs, _, _, err := promql.ConvertPromQLToMetricsQuery(expr, lo, hi, 0)
		if err != nil {
			o.Err = "error: " + err.Error()
			return
		}
		qid++
		res := segment.ExecuteMetricsQuery(&reqs[0].MetricsQuery, &reqs[0].TimeRange, qid)
		if res == nil {
			o.Err = "nil result"
			return
		}
		if len(res.ErrList) > 0 {
			o.Err = fmt.Sprintf("errlist: %v", res.ErrList)
		}
		if len(res.Results) > 0 {
			o.Groups = map[string]string{}
		}
		for series, pts := range res.Results {
			// canonical series id: name + sorted tags
			s := series
			if k := strings.Index(series, "{"); k >= 0 {
				tags := strings.Split(strings.Trim(series[k:], "{}"), ",")
				sort.Strings(tags)
				s = series[:k] + "{" + strings.Join(tags, ",") + "}"
			}
			var ts []int
			for t := range pts {
				ts = append(ts, int(t))
			}
			sort.Ints(ts)
			var sb strings.Builder
			for _, t := range ts {
				fmt.Fprintf(&sb, "%d=%v;", t, pts[uint32(t)])
			}
			o.Groups[s] = sb.String()
		}
	}()
	return o
}

var logQueries = [][2]string{
	{"all", "*"},
	{"asc", "* | sort timestamp"}, // reads the blocks in ascending time order
	{"term", "w=alpha"},
	{"msg", "msg=msg-a-7-xx OR msg=msg-b-104-xxxx"},
	{"num", "n>50 AND n<1060"},
	{"stats", "* | stats count AS c, sum(n) AS s by grp"},
	{"count", "w=alpha | stats count AS c"},
}

// worker query <dir> <out> <withMetrics>
// number of times the query list is run in this process (buffer pools persist across queries)
var queryRounds = 1

func workerQuery(dir, outPath string, withMetrics bool) {
	log.SetLevel(log.PanicLevel)
	var out workerOut
	flush := func() {
		b, _ := json.Marshal(out)
		_ = os.WriteFile(outPath, b, 0o644)
	}
	flush()
	if err := initNode(dir); err != nil {
		out.Q = append(out.Q, qres{Name: "init", Err: "error: " + err.Error()})
		out.Done = true
		flush()
		os.Exit(0)
	}
	for round := 0; round < queryRounds; round++ {
		for _, q := range logQueries {
			res := runLogQuery(q[0], q[1])
			out.Q = append(out.Q, res)
			flush() // a later crash keeps the earlier answers
			if res.Err == "timeout" {
				// the stuck query keeps spinning in this process: stop here, the driver re-runs the mutation alone
				out.Done = true
				flush()
				os.Exit(0)
			}
		}
	}
	if withMetrics {
		out.Q = append(out.Q, runMetricsQuery("metrics", "cpu"))
	}
	out.Done = true
	flush()
	os.Exit(0)
}

// ---------- decoder worker: the real readers of the unchecksummed files on raw bytes ----------
type decCase struct {
	Dec  string `json:"dec"` // bsu | mbsu | mnm | cmi (payload incl. the type byte)
	Data []byte `json:"data"`
}

type decCol struct {
	Name []byte `json:"name"`
	Off  uint64 `json:"off"`
	Len  uint32 `json:"len"`
}
type decBlock struct {
	Num  uint16   `json:"num"`
	Cols []decCol `json:"cols"`
}
type decRange struct {
	Key []byte `json:"key"`
	Nil bool   `json:"nil,omitempty"`
	Ty  uint8  `json:"ty"`
	Mn  uint64 `json:"mn"`
	Mx  uint64 `json:"mx"`
}
type decOut struct {
	I      int         `json:"i"`
	Code   int         `json:"code"` // 0 result, 1 error, 2 panic
	Msg    string      `json:"msg,omitempty"`
	Names  [][]byte    `json:"names,omitempty"`
	Mbs    [][3]uint64 `json:"mbs,omitempty"`
	Sums   [][3]uint64 `json:"sums,omitempty"`
	Blocks []decBlock  `json:"blocks,omitempty"`
	Ranges []decRange  `json:"ranges,omitempty"`
	Bloom  *[3]uint64  `json:"bloom,omitempty"`
}

func decodeOne(c decCase, tmp string) (o decOut) {
	defer func() {
		if r := recover(); r != nil {
			o = decOut{Code: 2, Msg: fmt.Sprintf("panic: %v%s", r, panicSite())}
		}
	}()
	switch c.Dec {
	case "mnm":
		p := tmp + ".mnm"
		_ = os.WriteFile(p, c.Data, 0o644)
		names, err := metadata.ReadMetricNames(p)
		if err != nil {
			return decOut{Code: 1, Msg: err.Error()}
		}
		var ks []string
		for k := range names {
			ks = append(ks, k)
		}
		sort.Strings(ks)
		for _, k := range ks {
			o.Names = append(o.Names, []byte(k))
		}
	case "mbsu":
		p := tmp + ".mbsu"
		_ = os.WriteFile(p, c.Data, 0o644)
		l, err := microreader.ReadMetricsBlockSummaries(p)
		if err != nil {
			return decOut{Code: 1, Msg: err.Error()}
		}
		for _, m := range l {
			o.Mbs = append(o.Mbs, [3]uint64{uint64(m.Blknum), uint64(m.HighTs), uint64(m.LowTs)})
		}
	case "bsu":
		p := tmp + ".bsu"
		_ = os.WriteFile(p, c.Data, 0o644)
		sums, allBmi, err := microreader.ReadBlockSummaries(p, false)
		for _, s := range sums {
			o.Sums = append(o.Sums, [3]uint64{s.HighTs, s.LowTs, uint64(s.RecCount)})
		}
		if err != nil {
			// the summaries parsed before the damage come back together with the error (model: read_bsu_p)
			return decOut{Code: 1, Msg: err.Error(), Sums: o.Sums}
		}
		idxName := map[int]string{}
		for n, i := range allBmi.CnameDict {
			idxName[i] = n
		}
		var nums []int
		for n := range allBmi.AllBmh {
			nums = append(nums, int(n))
		}
		sort.Ints(nums)
		for _, n := range nums {
			b := decBlock{Num: uint16(n)}
			for i, col := range allBmi.AllBmh[uint16(n)].ColBlockOffAndLen {
				if col.Offset == 0 && col.Length == 0 {
					continue
				}
				b.Cols = append(b.Cols, decCol{Name: []byte(idxName[i]), Off: uint64(col.Offset), Len: col.Length})
			}
			o.Blocks = append(o.Blocks, b)
		}
	case "cmi":
		cmic, err := metadata.VerifGetCmi(c.Data)
		if err != nil {
			return decOut{Code: 1, Msg: err.Error()}
		}
		if cmic.Bf != nil {
			// a bloom that was accepted must be usable: Test computes h mod m
			_ = cmic.Bf.Test([]byte("alpha"))
			var wb bytes.Buffer
			_, _ = cmic.Bf.WriteTo(&wb)
			bitsetLen := uint64(0)
			if wb.Len() >= 24 {
				bitsetLen = binary.BigEndian.Uint64(wb.Bytes()[16:24])
			}
			o.Bloom = &[3]uint64{uint64(cmic.Bf.Cap()), uint64(cmic.Bf.K()), bitsetLen}
		}
		var ks []string
		for k := range cmic.Ranges {
			ks = append(ks, k)
		}
		sort.Strings(ks)
		for _, k := range ks {
			n := cmic.Ranges[k]
			if n == nil {
				o.Ranges = append(o.Ranges, decRange{Key: []byte(k), Nil: true})
				continue
			}
			r := decRange{Key: []byte(k), Ty: uint8(n.NumType)}
			switch n.NumType {
			case sutils.RNT_UNSIGNED_INT:
				r.Mn, r.Mx = n.Min_uint64, n.Max_uint64
			case sutils.RNT_SIGNED_INT:
				r.Mn, r.Mx = uint64(n.Min_int64), uint64(n.Max_int64)
			case sutils.RNT_FLOAT64:
				r.Mn, r.Mx = math.Float64bits(n.Min_float64), math.Float64bits(n.Max_float64)
			}
			o.Ranges = append(o.Ranges, r)
		}
	}
	return o
}

// worker decode <dir> <cases.json> <out.jsonl> <from>: one output line per case, appended as soon as
// the case is done (a case that kills the process is the first one without a line)
func workerDecode(dir, inPath, outPath string, from int) {
	log.SetLevel(log.PanicLevel)
	config.InitializeTestingConfig(dir + "/")
	b, err := os.ReadFile(inPath)
	if err != nil {
		os.Exit(3)
	}
	var cases []decCase
	if err := json.Unmarshal(b, &cases); err != nil {
		os.Exit(3)
	}
	f, err := os.OpenFile(outPath, os.O_WRONLY|os.O_CREATE|os.O_APPEND, 0o644)
	if err != nil {
		os.Exit(3)
	}
	for i := from; i < len(cases); i++ {
		o := decodeOne(cases[i], dir+"/dec")
		o.I = i
		lb, _ := json.Marshal(o)
		_, _ = f.Write(append(lb, '\n'))
	}
	f.Close()
	os.Exit(0)
}

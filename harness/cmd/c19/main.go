// c19: path confinement.
//
// The real siglens handlers / functions of every site where a client-controlled name
// becomes a file path are driven, in-process, with names from a metacharacter grammar
// ("..", "/", "\", absolute, URL-encoded, long, NUL, unicode) inside a private sentinel
// tree  /tmp/C19_root/<pid>/l1/.../l8/data  whose levels above the data directory hold
// sentinel files.  The whole tree is snapshotted (paths, sizes, hashes) before and after
// every operation.
//
//	(a) property oracle: nothing outside the data directory is created, modified,
//	    deleted, or returned as content.  class = <site>_escape for names that climb with
//	    "..", <site>_escape_without_climbing otherwise.
//	(b) Coq case files: Go's real filepath.Clean / filepath.Join vs the model's
//	    clean / gojoin on thousands of generated strings (byte-exact); and for every
//	    operation the location really touched vs the model's site function + its
//	    inside/outside verdict.
//
// Names climb at most maxUp levels and the data directory sits 8 levels below the
// private root, so "outside the data dir" is always inside the private root.
package main

import (
	"bytes"
	"context"
	"crypto/sha1"
	"encoding/json"
	"fmt"
	"mime/multipart"
	"os"
	"path/filepath"
	"sort"
	"strconv"
	"strings"
	"syscall"
	"time"
	"unsafe"

	"github.com/fasthttp/router"
	"github.com/siglens/siglens/pkg/ast/pipesearch"
	"github.com/siglens/siglens/pkg/config"
	"github.com/siglens/siglens/pkg/dashboards"
	esquery "github.com/siglens/siglens/pkg/es/query"
	eswriter "github.com/siglens/siglens/pkg/es/writer"
	"github.com/siglens/siglens/pkg/integrations/splunk"
	"github.com/siglens/siglens/pkg/lookups"
	"github.com/siglens/siglens/pkg/otlp"
	"github.com/siglens/siglens/pkg/scroll"
	"github.com/siglens/siglens/pkg/segment/aggregations"
	"github.com/siglens/siglens/pkg/segment/memory/limit"
	"github.com/siglens/siglens/pkg/segment/query"
	"github.com/siglens/siglens/pkg/segment/structs"
	sutils "github.com/siglens/siglens/pkg/segment/utils"
	"github.com/siglens/siglens/pkg/segment/writer"
	"github.com/siglens/siglens/pkg/segment/writer/metrics"
	serverutils "github.com/siglens/siglens/pkg/server/utils"
	usq "github.com/siglens/siglens/pkg/usersavedqueries"
	vtable "github.com/siglens/siglens/pkg/virtualtable"
	log "github.com/sirupsen/logrus"
	"github.com/valyala/fasthttp"
	collogpb "go.opentelemetry.io/proto/otlp/collector/logs/v1"
	commonpb "go.opentelemetry.io/proto/otlp/common/v1"
	logpb "go.opentelemetry.io/proto/otlp/logs/v1"
	resourcepb "go.opentelemetry.io/proto/otlp/resource/v1"
	"google.golang.org/protobuf/proto"

	"verifharness/vhlib"
)

const maxUp = 7
const nLevels = 8
const nSent = 3 // levels above the data directory that carry sentinels

type H struct {
	cfg      vhlib.Config
	sum      *vhlib.Summary
	root     string
	data     string // without trailing slash
	host     string
	chain    []string          // root, root/l1, ..., parent(data)
	sites    []string          // Coq terms (call, (path, outside))
	tokens   map[string]string // token -> absolute path of the file holding it
	rt       *router.Router
	param    string // last route parameter seen by a handler
	hit      bool
	qid      uint64
	curInput string            // full request text of the running operation, for the failure report
	last     map[string]string // snapshot after the previous operation, nil when the tree was touched since
	ino      int               // inotify descriptor watching the directories outside the data dir (-1: unavailable)
	inoWd    map[int32]string  // watch descriptor -> directory
}

// ---------- which files outside the data directory does an operation OPEN? ----------
// The sentinel directories (every ancestor of the data directory inside the scratch root) are watched with inotify:
// an open of a file there during an operation is an escape even when nothing of its content reaches the answer
// (a reader that opens, fails to decode and says "not found").
func (h *H) watchOutside() {
	h.ino = -1
	fd, err := syscall.InotifyInit1(syscall.IN_NONBLOCK | syscall.IN_CLOEXEC)
	if err != nil {
		h.sum.Count("inotify/unavailable")
		return
	}
	h.ino, h.inoWd = fd, map[int32]string{}
	for _, d := range h.chain {
		wd, err := syscall.InotifyAddWatch(fd, d, syscall.IN_OPEN)
		if err == nil {
			h.inoWd[int32(wd)] = d
		}
	}
}

// files opened in the watched directories since the last call
func (h *H) drainOpened() []string {
	if h.ino < 0 {
		return nil
	}
	seen := map[string]bool{}
	var out []string
	buf := make([]byte, 64*1024)
	for {
		n, err := syscall.Read(h.ino, buf)
		if n <= 0 || err != nil {
			break
		}
		for off := 0; off+syscall.SizeofInotifyEvent <= n; {
			ev := (*syscall.InotifyEvent)(unsafe.Pointer(&buf[off]))
			name := ""
			if ev.Len > 0 {
				nb := buf[off+syscall.SizeofInotifyEvent : off+syscall.SizeofInotifyEvent+int(ev.Len)]
				name = strings.TrimRight(string(nb), "\x00")
			}
			off += syscall.SizeofInotifyEvent + int(ev.Len)
			if ev.Mask&syscall.IN_ISDIR != 0 || name == "" {
				continue // directory listings (the harness's own snapshots) are not file reads
			}
			p := h.inoWd[ev.Wd] + "/" + name
			if !seen[p] {
				seen[p] = true
				out = append(out, p)
			}
		}
	}
	sort.Strings(out)
	return out
}

// ---------- sentinel tree ----------
func (h *H) sentDir(j int) string { return h.chain[len(h.chain)-1-j] } // j=0: parent of data

func (h *H) writeSentinels() {
	if h.tokens == nil {
		h.tokens = map[string]string{}
	}
	for j := 0; j < nSent; j++ {
		d := h.sentDir(j)
		tc, tj := fmt.Sprintf("TOKup%dcsv", j+1), fmt.Sprintf("TOKup%djson", j+1)
		_ = os.WriteFile(d+"/sent.csv", []byte(csvRows(tc, 8)), 0o644)
		_ = os.WriteFile(d+"/sent.json", []byte(`{"`+tj+`":true}`), 0o644)
		_ = os.MkdirAll(d+"/victim", 0o755)
		_ = os.WriteFile(d+"/victim/keep.txt", []byte("keep"), 0o644)
		h.tokens[tc] = d + "/sent.csv"
		h.tokens[tj] = d + "/sent.json"
	}
}

func (h *H) writeInside() {
	h.last = nil
	_ = os.MkdirAll(h.data+"/lookups/sub", 0o755)
	in := map[string]string{
		"/lookups/in.csv":       "TOKinlookups",
		"/lookups/sub/deep.csv": "TOKindeep",
		"/top.csv":              "TOKdatatop",
	}
	if _, err := os.Stat(h.data + "/lookups/big.csv"); err != nil {
		// more rows than one result batch (100): the processor re-opens the file per batch
		_ = os.WriteFile(h.data+"/lookups/big.csv", []byte(csvRows("TOKinbig", 350)), 0o644)
	}
	h.tokens["TOKinbig"] = h.data + "/lookups/big.csv"
	for p, t := range in {
		_ = os.WriteFile(h.data+p, []byte(csvRows(t, 8)), 0o644)
		h.tokens[t] = h.data + p
	}
}

// a CSV whose every data row carries the token, so that start=N / max=N still return it
func csvRows(tok string, n int) string {
	var sb strings.Builder
	sb.WriteString("sa,sb\n")
	for i := 1; i <= n; i++ {
		fmt.Fprintf(&sb, "%s,%d\n", tok, i)
	}
	return sb.String()
}

// remove everything outside the data directory that is not a pristine sentinel
func (h *H) restoreOutside() {
	h.last = nil
	for i, d := range h.chain {
		next := h.data
		if i+1 < len(h.chain) {
			next = h.chain[i+1]
		}
		ents, _ := os.ReadDir(d)
		for _, e := range ents {
			p := d + "/" + e.Name()
			if p != next {
				_ = os.RemoveAll(p)
			}
		}
	}
	h.writeSentinels()
}

func (h *H) inside(p string) bool { return p == h.data || strings.HasPrefix(p, h.data+"/") }

func (h *H) snap() map[string]string {
	m := map[string]string{}
	_ = filepath.Walk(h.root, func(p string, info os.FileInfo, err error) error {
		if err != nil {
			return nil
		}
		if info.IsDir() {
			m[p] = "d"
			return nil
		}
		if h.inside(p) {
			m[p] = "f" + strconv.FormatInt(info.Size(), 10) + "@" + strconv.FormatInt(info.ModTime().UnixNano(), 10)
			return nil
		}
		b, _ := os.ReadFile(p)
		m[p] = fmt.Sprintf("f%d:%x", len(b), sha1.Sum(b))
		return nil
	})
	return m
}

type diffT struct {
	created, modified, deleted []string
	createdIsDir               map[string]bool
}

func diff(a, b map[string]string) diffT {
	d := diffT{createdIsDir: map[string]bool{}}
	for k, v := range b {
		if av, ok := a[k]; !ok {
			d.created = append(d.created, k)
			if v == "d" {
				d.createdIsDir[k] = true
			}
		} else if av != v {
			d.modified = append(d.modified, k)
		}
	}
	for k := range a {
		if _, ok := b[k]; !ok {
			d.deleted = append(d.deleted, k)
		}
	}
	sort.Strings(d.created)
	sort.Strings(d.modified)
	sort.Strings(d.deleted)
	return d
}

// ---------- names ----------
// does walking the name element by element ever go above the start?  (oracle-side notion,
// independent of the model: used only to pick the finding class)
func climbs(name string) bool {
	d := 0
	for _, s := range strings.Split(name, "/") {
		switch s {
		case "", ".":
		case "..":
			d--
			if d < 0 {
				return true
			}
		default:
			d++
		}
	}
	return false
}

func hasMeta(name string) bool {
	for _, c := range []byte(name) {
		if !(c >= 'a' && c <= 'z' || c >= '0' && c <= '9' || c == '_' || c == '-') {
			return true
		}
	}
	return false
}

var failN = map[string]int{}

type nameCase struct {
	Name   string `json:"name"`
	Stream string `json:"stream"` // main | defect
	Kind   string `json:"kind"`
}

func ups(k int) string { return strings.Repeat("../", k) }

// main stream: metacharacter names that do not climb; defect stream: names that climb
func genNames(r *vhlib.Rng, n int) []nameCase {
	var out []nameCase
	add := func(s, stream, kind string) { out = append(out, nameCase{s, stream, kind}) }
	word := func() string {
		return vhlib.Pick(r, []string{"x", "ab", "q7", "sent", "victim", "in", "sub", "lookups", "data", "idx-1", "m_1"})
	}
	fixed := []nameCase{
		{"plain", "main", "plain"}, {"in.csv", "main", "plain"}, {"sub/deep.csv", "main", "slash"},
		{"sub/../in.csv", "main", "inner_dotdot"}, {"./in.csv", "main", "dot"}, {"a//b", "main", "empty_seg"},
		{"a/", "main", "trailing_slash"}, {".", "main", "dot"}, {"...", "main", "dots3"}, {"..x", "main", "dotsx"},
		{"x..", "main", "dotsx"}, {".. ", "main", "dotsx"}, {"..\\..\\..\\sent", "main", "backslash"},
		{"..\\sent.csv", "main", "backslash"}, {"%2e%2e%2f%2e%2e%2fsent", "main", "urlenc"}, {"..%2f..%2fsent.csv", "main", "urlenc"},
		{"%2e%2e/%2e%2e/sent.csv", "main", "urlenc"}, {strings.Repeat("..%2f", 5) + "sent", "main", "urlenc"},
		{strings.Repeat("%2e%2e%2f", 6) + "sent.csv", "main", "urlenc"}, {strings.Repeat("..%2F", 3) + "victim", "main", "urlenc"}, {"a\x00b", "main", "nul"}, {"../\x00", "main", "nul"},
		{"\xc3\xbcml\xc3\xa4ut", "main", "unicode"}, {"‥/‥/sent", "main", "unicode"}, {"．．/sent.csv", "main", "unicode"},
		{strings.Repeat("A", 300), "main", "long"}, {strings.Repeat("ab/", 100) + "x", "main", "long"},
		{"../top.csv", "main", "up_within_data"}, {"../top", "main", "up_within_data"},
		{"/sent.csv", "main", "absolute"}, {"/victim", "main", "absolute"}, {"//sent", "main", "absolute"},
	}
	out = append(out, fixed...)
	// defect stream: k levels up, then a tail
	for k := 1; k <= maxUp; k++ {
		add(ups(k)+"sent.csv", "defect", fmt.Sprintf("up%d", k))
		add(ups(k)+"sent", "defect", fmt.Sprintf("up%d", k))
		add(ups(k)+"victim", "defect", fmt.Sprintf("up%d", k))
	}
	add("..", "defect", "up1_bare")
	add("../../../escaped_by_lookup", "defect", "up3")
	add("sub/../../../sent.csv", "defect", "up2_after_down")
	add("a/b/../../../../sent", "defect", "up2_after_down")
	add("/../../sent.csv", "defect", "abs_up2")
	add("./.././../sent.csv", "defect", "up2_dotted")
	add("..//..//sent", "defect", "up2_dslash")
	tails := []string{"sent", "sent.csv", "sent.json", "victim", "x", "escaped_by_c19", "sub/x"}
	for len(out) < n {
		k := r.Range(1, maxUp-1)
		t := vhlib.Pick(r, tails)
		switch r.Intn(10) {
		case 0: // re-entry: spell the way back into the data dir
			add(ups(k)+"data/"+vhlib.Pick(r, []string{"lookups/in.csv", "top.csv", "lookups/x"}), "defect", fmt.Sprintf("up%d_reenter", k))
		case 1:
			add(word()+"/"+ups(k+1)+t, "defect", fmt.Sprintf("up%d_after_down", k))
		case 2, 3:
			add(ups(k)+t, "defect", fmt.Sprintf("up%d", k))
		case 4:
			add(word()+"/"+word(), "main", "slash")
		case 5:
			add(word()+"/../"+word()+vhlib.Pick(r, []string{"", ".csv", ".json"}), "main", "inner_dotdot")
		case 6:
			add("/"+word()+"/"+word(), "main", "absolute")
		case 7:
			add(word()+"\\..\\"+word(), "main", "backslash")
		case 8:
			add(word()+"/./"+word()+"//"+word(), "main", "dot")
		default:
			add(word()+vhlib.Pick(r, []string{".csv", ".json", ".csv.gz", ".CSV", ""}), "main", "plain")
		}
	}
	// the bound that keeps everything inside the private root
	var ok []nameCase
	seen := map[string]bool{}
	for _, c := range out {
		if strings.Count(c.Name, "..") <= maxUp && !seen[c.Name] {
			seen[c.Name] = true
			ok = append(ok, c)
		}
	}
	return ok
}

// ---------- one operation ----------
type opRes struct {
	Site   string   `json:"site"`
	Name   string   `json:"name"`
	Stream string   `json:"stream"`
	Status int      `json:"status"`
	Diff   diffT    `json:"-"`
	Body   string   `json:"-"`
	Read   []string `json:"read,omitempty"`   // files whose token came back in the response
	Opened []string `json:"opened,omitempty"` // files outside the data directory that were opened during the operation (inotify)
	Query  string   `json:"query,omitempty"`
}

// direct=true: handler called with a hand-made route parameter (a value no client can deliver
// through the router): observed for correspondence, not judged by the oracle.
func (h *H) op(site string, nc nameCase, direct bool, f func() (int, string)) *opRes {
	before := h.last
	if before == nil {
		before = h.snap()
	}
	res := &opRes{Site: site, Name: nc.Name, Stream: nc.Stream, Query: h.curInput}
	_ = h.drainOpened() // opens made by the harness itself (snapshots, restoring sentinels)
	func() {
		defer func() {
			if r := recover(); r != nil {
				res.Status = -1
				res.Body = fmt.Sprintf("panic: %v", r)
			}
		}()
		res.Status, res.Body = f()
	}()
	res.Opened = h.drainOpened()
	after := h.snap()
	h.last = after
	res.Diff = diff(before, after)
	for t, p := range h.tokens {
		if strings.Contains(res.Body, t) {
			res.Read = append(res.Read, p)
		}
	}
	sort.Strings(res.Read)
	h.sum.Eval(site+"|"+nc.Name, hasMeta(nc.Name))
	h.sum.Count("site/" + site)
	h.sum.Count("names/" + nc.Stream + "/" + nc.Kind)
	if res.Status == -1 {
		h.sum.Fail(site+"_panic", fmt.Sprintf("%s panicked on name %q: %s", site, nc.Name, res.Body), res)
	}
	// oracle
	var bad []string
	for _, p := range res.Diff.created {
		if !h.inside(p) {
			bad = append(bad, "created "+p)
		}
	}
	for _, p := range res.Diff.modified {
		if !h.inside(p) {
			bad = append(bad, "modified "+p)
		}
	}
	for _, p := range res.Diff.deleted {
		if !h.inside(p) {
			bad = append(bad, "deleted "+p)
		}
	}
	for _, p := range res.Read {
		if !h.inside(p) {
			bad = append(bad, "read "+p)
		}
	}
	for _, p := range res.Opened {
		if !h.inside(p) && len(bad) == 0 {
			bad = append(bad, "opened "+p)
		}
	}
	if len(bad) > 0 {
		if direct {
			h.sum.Count("handler_level_escape_not_reachable_through_router/" + site)
		} else {
			class := site + "_escape"
			if !climbs(nc.Name) {
				class += "_without_climbing"
			}
			h.sum.Count("oracle/" + class)
			failN[class]++
			if failN[class] > 3 { // the summary keeps 50 failures: leave room for every class
				h.restoreOutside()
				return res
			}
			in := ""
			if h.curInput != "" {
				in = fmt.Sprintf(" in %q", h.curInput)
			}
			h.sum.Fail(class, fmt.Sprintf("%s with name %q%s (status %d): %s [data dir %s]", site, nc.Name, in, res.Status, bad[0], h.data), res)
		}
		h.restoreOutside()
	}
	return res
}

func (h *H) obs(call string, path string) {
	out := !h.inside(path)
	h.sites = append(h.sites, fmt.Sprintf("(%s, (%s, %s))", call, vhlib.CoqStr(path), vhlib.CoqBool(out)))
	if out {
		h.sum.Count("site_obs/outside")
	} else {
		h.sum.Count("site_obs/inside")
	}
}

func pickSuffix(paths []string, sfx ...string) []string {
	var out []string
	for _, p := range paths {
		for _, s := range sfx {
			if strings.HasSuffix(p, s) {
				out = append(out, p)
				break
			}
		}
	}
	return out
}

func cat(a, b []string) []string { return append(append([]string{}, a...), b...) }

// ---------- requests ----------
func newCtx(method, uri string, body []byte) *fasthttp.RequestCtx {
	ctx := &fasthttp.RequestCtx{}
	ctx.Request.Header.SetMethod(method)
	if uri != "" {
		ctx.Request.SetRequestURI(uri)
	}
	if body != nil {
		ctx.Request.SetBody(body)
	}
	return ctx
}
func resp(ctx *fasthttp.RequestCtx) (int, string) {
	return ctx.Response.StatusCode(), string(ctx.Response.Body())
}

func (h *H) route(method, prefix, name, suffix string, body []byte) (int, string) {
	h.hit, h.param = false, ""
	ctx := newCtx(method, prefix+name+suffix, body)
	h.rt.Handler(ctx)
	if !h.hit {
		h.sum.Count("router/no_route_match")
	}
	return resp(ctx)
}

func (h *H) mkRouter() {
	r := router.New()
	w := func(key string, f func(ctx *fasthttp.RequestCtx)) fasthttp.RequestHandler {
		return func(ctx *fasthttp.RequestCtx) {
			h.hit = true
			h.param, _ = ctx.UserValue(key).(string)
			if strings.Contains(h.param, "/") {
				h.sum.Fail("router_param_contains_slash", fmt.Sprintf("route parameter %q contains '/'", h.param), h.param)
			}
			f(ctx)
		}
	}
	// same patterns as pkg/server/query/server.go and pkg/server/ingest/server.go
	r.GET("/api/lookup-files/{lookupFilename}", w("lookupFilename", lookups.GetLookupFile))
	r.DELETE("/api/lookup-files/{lookupFilename}", w("lookupFilename", lookups.DeleteLookupFile))
	r.GET("/api/dashboards/{dashboard-id}", w("dashboard-id", func(c *fasthttp.RequestCtx) { dashboards.ProcessGetDashboardRequest(c, 0) }))
	r.GET("/api/dashboards/delete/{dashboard-id}", w("dashboard-id", func(c *fasthttp.RequestCtx) { dashboards.ProcessDeleteDashboardRequest(c, 0) }))
	r.PUT("/api/dashboards/favorite/{dashboard-id}", w("dashboard-id", func(c *fasthttp.RequestCtx) { dashboards.ProcessFavoriteRequest(c, 0) }))
	r.GET("/api/usersavedqueries/deleteone/{qname}", w("qname", func(c *fasthttp.RequestCtx) { usq.DeleteUserSavedQuery(c, 0) }))
	r.GET("/api/usersavedqueries/{qname}", w("qname", func(c *fasthttp.RequestCtx) { usq.SearchUserSavedQuery(c, 0) }))
	r.PUT("/elastic/{indexName}", w("indexName", func(c *fasthttp.RequestCtx) { eswriter.ProcessPutIndex(c, 0) }))
	r.PUT("/elastic/{indexName}/_alias/{aliasName}", w("indexName", func(c *fasthttp.RequestCtx) { eswriter.ProcessPutAliasesRequest(c, 0) }))
	r.PUT("/elastic/{indexName}/_doc/{_id}", w("indexName", func(c *fasthttp.RequestCtx) { eswriter.ProcessPutPostSingleDocRequest(c, false, 0) }))
	r.DELETE("/elastic/{indexName}", w("indexName", func(c *fasthttp.RequestCtx) { eswriter.ProcessDeleteIndex(c, 0) }))
	r.POST("/api/deleteIndex/{indexName}", w("indexName", func(c *fasthttp.RequestCtx) { eswriter.ProcessDeleteIndex(c, 0) }))
	h.rt = r
}

func jsonStr(s string) string { b, _ := json.Marshal(s); return string(b) }

// what a JSON decoder hands to the server for the string we sent
func viaJSON(s string) string {
	var o string
	_ = json.Unmarshal([]byte(jsonStr(s)), &o)
	return o
}

// ---------- sites ----------
func (h *H) lookupSites(nc nameCase, i int) {
	name := nc.Name
	// upload (multipart form field)
	gz := i%3 == 0
	up := func() (int, string) {
		var body bytes.Buffer
		w := multipart.NewWriter(&body)
		_ = w.WriteField("name", name)
		_ = w.WriteField("overwrite", "true")
		fn := "x.csv"
		if gz {
			fn = "x.csv.gz"
		}
		fw, _ := w.CreateFormFile("file", fn)
		_, _ = fw.Write([]byte(fmt.Sprintf("a,b\nUPLOADED%d,2\n", i)))
		w.Close()
		ctx := newCtx("POST", "", body.Bytes())
		ctx.Request.Header.SetContentType(w.FormDataContentType())
		lookups.UploadLookupFile(ctx)
		return resp(ctx)
	}
	res := h.op("lookup_upload", nc, false, up)
	touched := pickSuffix(cat(res.Diff.created, res.Diff.modified), ".csv", ".csv.gz", ".CSV")
	if res.Status == 200 && len(touched) == 1 {
		h.obs(fmt.Sprintf("LookupUpload %s %s", vhlib.CoqStr(name), vhlib.CoqBool(gz)), touched[0])
	}
	if res.Status != -1 {
		safeObs(name, !(res.Status == 400 && (strings.Contains(res.Body, "Invalid file name") || strings.Contains(res.Body, "File name is required"))))
	}
	h.writeInside() // an upload may have overwritten one of the inside markers
	// get / delete through the router (raw path element) and at handler level
	for _, direct := range []bool{false, true} {
		site := "lookup_get"
		if direct {
			site = "lookup_get_handler"
		}
		var eff string
		res := h.op(site, nc, direct, func() (int, string) {
			if direct {
				ctx := newCtx("GET", "", nil)
				ctx.SetUserValue("lookupFilename", name)
				eff = name
				lookups.GetLookupFile(ctx)
				return resp(ctx)
			}
			st, b := h.route("GET", "/api/lookup-files/", name, "", nil)
			eff = h.param
			return st, b
		})
		if res.Status == 200 && len(res.Read) == 1 {
			h.obs("LookupFile "+vhlib.CoqStr(eff), res.Read[0])
		}
		site = "lookup_delete"
		if direct {
			site = "lookup_delete_handler"
		}
		res = h.op(site, nc, direct, func() (int, string) {
			if direct {
				ctx := newCtx("DELETE", "", nil)
				ctx.SetUserValue("lookupFilename", name)
				eff = name
				lookups.DeleteLookupFile(ctx)
				return resp(ctx)
			}
			st, b := h.route("DELETE", "/api/lookup-files/", name, "", nil)
			eff = h.param
			return st, b
		})
		if res.Status == 200 && len(res.Diff.deleted) == 1 {
			h.obs("LookupFile "+vhlib.CoqStr(eff), res.Diff.deleted[0])
		}
		h.writeInside()
	}
}

// lookup upload variants: extension of the uploaded file x overwrite x destination present or not
func (h *H) uploadVariantsSite() {
	names := []nameCase{
		{"../../sent.csv", "defect", "up2"}, {"../../sent", "defect", "up2"}, {"../../../victim/keep.txt", "defect", "up3"},
		{"..", "defect", "up1_bare"}, {"a/b", "main", "slash"}, {"variant_x", "main", "plain"}, {"in.csv", "main", "plain"}, {"IN2.CSV", "main", "plain"},
	}
	for _, nc := range names {
		for _, fn := range []string{"x.csv", "x.csv.gz", "X.CSV"} {
			for _, ow := range []string{"", "true", "false"} {
				gz := strings.HasSuffix(strings.ToLower(fn), ".csv.gz")
				var body bytes.Buffer
				w := multipart.NewWriter(&body)
				_ = w.WriteField("name", nc.Name)
				if ow != "" {
					_ = w.WriteField("overwrite", ow)
				}
				fw, _ := w.CreateFormFile("file", fn)
				_, _ = fw.Write([]byte("a,b\nVARIANT,2\n"))
				w.Close()
				res := h.op("lookup_upload", nc, false, func() (int, string) {
					ctx := newCtx("POST", "", body.Bytes())
					ctx.Request.Header.SetContentType(w.FormDataContentType())
					lookups.UploadLookupFile(ctx)
					return resp(ctx)
				})
				h.sum.Count("lookup_upload_variants/" + fn + "/overwrite=" + ow)
				touched := pickSuffix(cat(res.Diff.created, res.Diff.modified), ".csv", ".csv.gz", ".CSV")
				if res.Status == 200 && len(touched) == 1 {
					existed := len(res.Diff.modified) == 1
					h.obs(fmt.Sprintf("LookupUploadV %s %s %s %s", vhlib.CoqStr(nc.Name), vhlib.CoqBool(gz), vhlib.CoqBool(ow == "true"), vhlib.CoqBool(existed)), touched[0])
				}
				if res.Status != -1 {
					safeObs(nc.Name, !(res.Status == 400 && (strings.Contains(res.Body, "Invalid file name") || strings.Contains(res.Body, "File name is required"))))
				}
				h.writeInside()
			}
		}
	}
}

var inputGuard []string

// (name, accepted by the site's IsSafePathComponent check) for sites where a refusal is visible
var safeGuard []string

func safeObs(name string, accepted bool) {
	safeGuard = append(safeGuard, fmt.Sprintf("(%s, %s)", vhlib.CoqStr(name), vhlib.CoqBool(accepted)))
}

// what the REAL SPL parser makes of the query: file name and every option the processor gets
type ilParsed struct {
	ok                           bool
	Filename                     string
	Start, Max                   uint64
	Append, Strict, Where, First bool
	node                         *structs.QueryAggregators
}

func (q ilParsed) coq() string {
	return fmt.Sprintf("(mk_il %d %d %s %s %s %s)", q.Start, q.Max, vhlib.CoqBool(q.Append), vhlib.CoqBool(q.Strict), vhlib.CoqBool(q.Where), vhlib.CoqBool(q.First))
}

func parseIL(text string) (q ilParsed) {
	defer func() { _ = recover() }()
	_, aggs, _, err := pipesearch.ParseQuery(text, 1, "Splunk QL")
	if err != nil {
		return
	}
	for a := aggs; a != nil; a = a.Next {
		if a.GenerateEvent != nil && a.GenerateEvent.InputLookup != nil {
			il := a.GenerateEvent.InputLookup
			return ilParsed{true, il.Filename, il.Start, il.Max, il.Append, il.Strict, il.WhereExpr != nil, il.IsFirstCommand, a}
		}
	}
	return
}

// the whole query through the real request path (new pipeline: processor.inputlookupProcessor)
func (h *H) runQuery(text string) (int, string) {
	h.qid++
	req := map[string]interface{}{
		"searchText": text, "indexName": "*", "startEpoch": uint64(1), "endEpoch": uint64(1900000000000),
		"size": uint64(1000), "from": uint64(0), "queryLanguage": "Splunk QL", "state": "query",
	}
	type r struct {
		body string
		err  string
	}
	ch := make(chan r, 1)
	qid := h.qid
	go func() {
		defer func() {
			if p := recover(); p != nil {
				ch <- r{err: fmt.Sprintf("panic: %v", p)}
			}
		}()
		rp, _, _, err := pipesearch.ParseAndExecutePipeRequest(req, qid, 0, time.Now(), "", nil)
		if err != nil {
			ch <- r{err: err.Error()}
			return
		}
		b, _ := json.Marshal(rp)
		ch <- r{body: string(b)}
	}()
	select {
	case x := <-ch:
		if x.err != "" {
			return 400, x.err
		}
		return 200, x.body
	case <-time.After(20 * time.Second):
		return -2, "timeout"
	}
}

// old pipeline: aggregations.PerformInputLookup on the node the real parser produced
func runOldInputLookup(text string) (int, string) {
	q := parseIL(text)
	if !q.ok {
		return 404, "not an inputlookup query"
	}
	if err := aggregations.PerformInputLookup(q.node); err != nil {
		return 400, err.Error()
	}
	b, _ := json.Marshal(q.node.GenerateEvent.GeneratedRecords)
	return 200, string(b)
}

// one inputlookup query: oracle (through op), then the model comparison with the parsed options
func (h *H) inputlookupQuery(site string, nc nameCase, text string, old bool) {
	q := parseIL(text)
	h.curInput = text
	res := h.op(site, nameCase{nc.Name, nc.Stream, nc.Kind}, false, func() (int, string) {
		if old {
			return runOldInputLookup(text)
		}
		return h.runQuery(text)
	})
	h.curInput = ""
	if res.Status == -2 {
		h.sum.Fail("inputlookup_hang", "inputlookup did not return for "+text, res)
	}
	if !q.ok {
		h.sum.Count("inputlookup/query_not_parsed_as_inputlookup")
		return
	}
	h.sum.Count(fmt.Sprintf("inputlookup_opts/start=%d", q.Start))
	if res.Status == 200 && len(res.Read) == 1 {
		h.obs(fmt.Sprintf("InputLookup %s %s", q.coq(), vhlib.CoqStr(q.Filename)), res.Read[0])
	}
	refused := strings.Contains(res.Body, "Only .csv and .csv.gz") || strings.Contains(res.Body, "invalid lookup file name")
	opened := strings.Contains(res.Body, "Error while opening file") || strings.Contains(res.Body, "Error reading column names") ||
		strings.Contains(res.Body, "Error skipping rows") || (res.Status == 200 && len(res.Read) == 1)
	if res.Status == 400 && refused {
		inputGuard = append(inputGuard, fmt.Sprintf("(%s, (%s, false))", q.coq(), vhlib.CoqStr(q.Filename)))
	} else if opened {
		inputGuard = append(inputGuard, fmt.Sprintf("(%s, (%s, true))", q.coq(), vhlib.CoqStr(q.Filename)))
	}
}

func (h *H) inputlookupSite(nc nameCase) {
	name := nc.Name
	if strings.ContainsAny(name, "|\"\n\r\x00 \t") || name == "" || len(name) > 200 {
		return // would change the query's syntax, not the file name
	}
	for _, ext := range []string{"", ".csv"} {
		fname := name + ext
		if ext != "" && strings.HasSuffix(name, ".csv") {
			continue
		}
		h.inputlookupQuery("inputlookup_read", nameCase{fname, nc.Stream, nc.Kind}, "| inputlookup "+fname, false)
	}
}

// Every client-controlled option of the command x the escape-name corpus, through the real
// parser and BOTH implementations.  The sentinels outside the data dir must never be read,
// whatever the options say.
func (h *H) inputlookupOptionsSite(r *vhlib.Rng, thorough bool) {
	type nm struct{ n, stream, kind string }
	corpus := []nm{
		{"../../sent.csv", "defect", "up2"}, {"../../../sent.csv", "defect", "up3"}, {"../../../../sent.csv", "defect", "up4"},
		{"sub/../../../sent.csv", "defect", "up2_after_down"}, {"/../../sent.csv", "defect", "abs_up2"},
		{"../../victim/keep.txt", "defect", "up2"}, {"../../sent", "defect", "up2"}, {"../../sent.json", "defect", "up2"},
		{"..\\..\\sent.csv", "main", "backslash"}, {"../top.csv", "main", "up_within_data"},
		{"in.csv", "main", "plain"}, {"big.csv", "main", "plain"}, {"sub/deep.csv", "main", "slash"},
		{"nonexistent.csv", "main", "plain"}, {"in", "main", "plain"},
	}
	starts := []string{"", "start=0", "start=1", "start=2", "start=7", "start=120"}
	maxs := []string{"", "max=1", "max=1000"}
	apps := []string{"", "append=false", "append=true"}
	stricts := []string{"", "strict=true"}
	wheres := []string{"", " where sb>0"}
	mk := func(first bool, st, mx, ap, sr, wh, name, tail string) string {
		var opts []string
		for _, o := range []string{ap, sr, st, mx} {
			if o != "" {
				opts = append(opts, o)
			}
		}
		pre := "| inputlookup "
		if !first {
			pre = "index=normal | inputlookup "
		}
		if len(opts) > 0 {
			pre += strings.Join(opts, " ") + " "
		}
		return pre + name + wh + tail
	}
	run := func(c nm, first bool, st, mx, ap, sr, wh, tail string) {
		if !first {
			ap = "append=true" // the grammar requires it for a non-first inputlookup
		}
		text := mk(first, st, mx, ap, sr, wh, c.n, tail)
		nc := nameCase{c.n, c.stream, c.kind}
		h.inputlookupQuery("inputlookup_read", nc, text, false)
		if first && tail == "" {
			h.inputlookupQuery("inputlookup_read_oldpipeline", nc, text, true)
		}
	}
	for ci, c := range corpus {
		full := thorough || ci == 0 || c.n == "in.csv"
		for _, st := range starts {
			if full {
				for _, mx := range maxs {
					for _, ap := range apps {
						for _, sr := range stricts {
							for _, wh := range wheres {
								if !thorough && (sr != "" || wh != "") && (mx != "" || ap != "") {
									continue
								}
								run(c, true, st, mx, ap, sr, wh, "")
							}
						}
					}
				}
			} else {
				run(c, true, st, "", "", "", "", "")
				run(c, true, st, vhlib.Pick(r, maxs), vhlib.Pick(r, apps), vhlib.Pick(r, stricts), vhlib.Pick(r, wheres), "")
			}
			// not the first command, and followed by another command
			run(c, false, st, vhlib.Pick(r, maxs), "append=true", "", "", "")
			run(c, true, st, "", "", "", "", " | head 3")
		}
	}
}

func (h *H) dashboardSites(nc nameCase) {
	name := nc.Name
	for _, direct := range []bool{false, true} {
		sfx := ""
		if direct {
			sfx = "_handler"
		}
		var eff string
		res := h.op("dashboard_get"+sfx, nc, direct, func() (int, string) {
			if direct {
				ctx := newCtx("GET", "", nil)
				ctx.SetUserValue("dashboard-id", name)
				eff = name
				dashboards.ProcessGetDashboardRequest(ctx, 0)
				return resp(ctx)
			}
			st, b := h.route("GET", "/api/dashboards/", name, "", nil)
			eff = h.param
			return st, b
		})
		if res.Status == 200 && len(res.Read) == 1 {
			h.obs("Dashboard "+vhlib.CoqStr(eff), res.Read[0])
		}
		res = h.op("dashboard_favorite"+sfx, nc, direct, func() (int, string) {
			if direct {
				ctx := newCtx("PUT", "", nil)
				ctx.SetUserValue("dashboard-id", name)
				eff = name
				dashboards.ProcessFavoriteRequest(ctx, 0)
				return resp(ctx)
			}
			st, b := h.route("PUT", "/api/dashboards/favorite/", name, "", nil)
			eff = h.param
			return st, b
		})
		if res.Status == 200 && len(res.Diff.modified) == 1 && strings.HasSuffix(res.Diff.modified[0], ".json") {
			h.obs("Dashboard "+vhlib.CoqStr(eff), res.Diff.modified[0])
		}
		h.op("dashboard_delete"+sfx, nc, direct, func() (int, string) {
			if direct {
				ctx := newCtx("GET", "", nil)
				ctx.SetUserValue("dashboard-id", name)
				dashboards.ProcessDeleteDashboardRequest(ctx, 0)
				return resp(ctx)
			}
			return h.route("GET", "/api/dashboards/delete/", name, "", nil)
		})
	}
	// id in the request body
	h.op("dashboard_update", nc, false, func() (int, string) {
		body := `{"id":` + jsonStr(name) + `,"details":{"name":"n","description":"d"}}`
		ctx := newCtx("POST", "", []byte(body))
		dashboards.ProcessUpdateDashboardRequest(ctx, 0)
		return resp(ctx)
	})
	// dashboard NAME is free text; the file is named by a server uuid
	var created string
	res := h.op("dashboard_create", nc, false, func() (int, string) {
		body := `{"name":` + jsonStr(name) + `,"description":"d"}`
		ctx := newCtx("POST", "", []byte(body))
		dashboards.ProcessCreateDashboardRequest(ctx, 0)
		st, b := resp(ctx)
		var m map[string]string
		if json.Unmarshal([]byte(b), &m) == nil {
			for id := range m {
				created = id
			}
		}
		return st, b
	})
	cj := pickSuffix(res.Diff.created, ".json")
	if res.Status == 200 && created != "" && len(cj) == 1 {
		h.obs("Dashboard "+vhlib.CoqStr(created), cj[0])
		// a server-made id goes through delete
		r2 := h.op("dashboard_delete", nameCase{created, "main", "server_uuid"}, false, func() (int, string) {
			return h.route("GET", "/api/dashboards/delete/", created, "", nil)
		})
		dj := pickSuffix(r2.Diff.deleted, ".json")
		if r2.Status == 200 && len(dj) == 1 {
			h.obs("Dashboard "+vhlib.CoqStr(created), dj[0])
		}
	}
}

func (h *H) usqSites(nc nameCase, i int) {
	name := nc.Name
	res := h.op("savedquery_save", nc, false, func() (int, string) {
		body := `{"queryName":` + jsonStr(name) + `,"searchText":"*","indexName":"*","queryLanguage":"Splunk QL"}`
		ctx := newCtx("POST", "", []byte(body))
		usq.SaveUserQueries(ctx, int64(i%2)*5)
		return resp(ctx)
	})
	org := ""
	if i%2 == 1 {
		org = "5"
	}
	for _, p := range pickSuffix(cat(res.Diff.created, res.Diff.modified), ".bin") {
		h.obs("Usq "+vhlib.CoqStr(org), p)
	}
	h.op("savedquery_get", nc, false, func() (int, string) { return h.route("GET", "/api/usersavedqueries/", name, "", nil) })
	h.op("savedquery_delete", nc, false, func() (int, string) {
		return h.route("GET", "/api/usersavedqueries/deleteone/", name, "", nil)
	})
	h.op("savedquery_delete_handler", nc, true, func() (int, string) {
		ctx := newCtx("GET", "", nil)
		ctx.SetUserValue("qname", name)
		usq.DeleteUserSavedQuery(ctx, 0)
		return resp(ctx)
	})
}

func (h *H) scrollSite(nc nameCase) {
	name := nc.Name
	// request level: an id that is not in the server's table is refused (IsScrollIdValid)
	res := h.op("scroll_request", nc, false, func() (int, string) {
		h.qid++
		body := `{"scroll_id":` + jsonStr(name) + `,"scroll":"1m"}`
		_, _, _, rec, err := esquery.ParseRequest([]byte(body), h.qid, false, "1m")
		if err != nil {
			return 400, err.Error()
		}
		if rec == nil {
			return 404, "no record"
		}
		_ = rec.WriteScrollResultToFile()
		return 200, rec.Scroll_id
	})
	if res.Status == 200 && res.Body == viaJSON(name) {
		h.sum.Fail("scroll_client_id_used_as_file_name", fmt.Sprintf("client scroll id %q was accepted", name), res)
	}
	// record level: GetScrollRecord replaces an unknown id by a fresh uuid, which names the files
	var id string
	res = h.op("scroll_record", nc, false, func() (int, string) {
		rec := scroll.GetScrollRecord(name, "1m", 10)
		if rec == nil {
			return 404, "no record"
		}
		id = rec.Scroll_id
		if e := rec.WriteScrollResultToFile(); e != nil {
			return 500, e.Error()
		}
		if e := rec.FlushScrollContextToFile(); e != nil {
			return 500, e.Error()
		}
		return 200, id
	})
	if res.Status == 200 {
		for _, p := range res.Diff.created {
			if strings.HasSuffix(p, "/"+id+".csv") {
				h.obs("Scroll "+vhlib.CoqStr(id), p)
			}
		}
		if id == name {
			h.sum.Fail("scroll_client_id_used_as_file_name", fmt.Sprintf("client scroll id %q was used as the file name", name), res)
		}
		// the server-made id is accepted by the request path and maps to the same file
		r2 := h.op("scroll_request", nameCase{id, "main", "server_uuid"}, false, func() (int, string) {
			h.qid++
			_, _, _, rec, err := esquery.ParseRequest([]byte(`{"scroll_id":`+jsonStr(id)+`,"scroll":"1m"}`), h.qid, false, "1m")
			if err != nil || rec == nil {
				return 400, fmt.Sprint(err)
			}
			_ = rec.WriteScrollResultToFile()
			return 200, rec.Scroll_id
		})
		if r2.Status == 200 {
			for _, p := range r2.Diff.modified {
				if strings.HasSuffix(p, "/"+id+".csv") {
					h.obs("Scroll "+vhlib.CoqStr(id), p)
				}
			}
		}
	}
}

// index name as the bulk action line delivers it (jsonparser returns the raw, still escaped text)
func rawJSONContent(s string) string { j := jsonStr(s); return j[1 : len(j)-1] }

func (h *H) indexSites(nc nameCase, i int) {
	name := nc.Name
	if name == "" || strings.ContainsAny(name, "*,:") || len(name) > 200 {
		return // wildcard / list / cluster syntax and oversize names are other properties' business
	}
	eff := rawJSONContent(name)
	var sid string
	res := h.op("bulk_index", nc, false, func() (int, string) {
		body := `{"index":{"_index":` + jsonStr(name) + `}}` + "\n" + fmt.Sprintf(`{"a":%d,"timestamp":1700000000000}`, i) + "\n"
		n, _, err := eswriter.HandleBulkBody([]byte(body), nil, uint64(i+1), 0, false)
		z := time.Duration(0)
		writer.FlushWipBufferToFile(&z, &z)
		if err != nil {
			return 400, err.Error()
		}
		return 200, strconv.Itoa(n)
	})
	if res.Status != -1 {
		safeObs(eff, res.Status == 200)
	}
	h.checkRegistered("bulk_index", nc, res)
	for _, p := range pickSuffix(res.Diff.created, ".suffix") {
		sid = strings.TrimSuffix(filepath.Base(p), ".suffix")
		h.obs(fmt.Sprintf("SuffixFile %s %s", vhlib.CoqStr(eff), vhlib.CoqStr(sid)), p)
	}
	if sid != "" {
		for _, p := range res.Diff.created {
			if strings.HasSuffix(p, "/"+sid+"/0") {
				h.obs(fmt.Sprintf("SegDir %s %s %s", vhlib.CoqStr(eff), vhlib.CoqStr(sid), vhlib.CoqStr("0")), p)
			}
		}
	}
	// delete the index by its exact name (the name is matched against the table that the
	// bulk request above filled, then expanded as a pattern)
	res = h.op("delete_index", nc, false, func() (int, string) {
		ctx := newCtx("DELETE", "", nil)
		ctx.SetUserValue("indexName", eff)
		eswriter.ProcessDeleteIndex(ctx, 0)
		return resp(ctx)
	})
	if sid != "" {
		for _, p := range res.Diff.deleted {
			if strings.HasSuffix(p, "/"+sid) {
				h.obs("ActiveDir "+vhlib.CoqStr(eff), filepath.Dir(p))
			}
		}
	}
	// PUT /{indexName}: mapping file; route parameter
	for _, direct := range []bool{false, true} {
		site := "put_index"
		if direct {
			site = "put_index_handler"
		}
		var e2 string
		res = h.op(site, nc, direct, func() (int, string) {
			if direct {
				ctx := newCtx("PUT", "", []byte(`{"mappings":{}}`))
				ctx.SetUserValue("indexName", name)
				e2 = name
				eswriter.ProcessPutIndex(ctx, 0)
				return resp(ctx)
			}
			st, b := h.route("PUT", "/elastic/", name, "", []byte(`{"mappings":{}}`))
			e2 = h.param
			return st, b
		})
		for _, p := range pickSuffix(cat(res.Diff.created, res.Diff.modified), ".json") {
			if strings.HasSuffix(filepath.Dir(p), "/mappings") || !h.inside(p) {
				h.obs(fmt.Sprintf("Mapping [] %s", vhlib.CoqStr(e2)), p)
			}
		}
		if direct {
			h.dropUnsafeRegistered()
		} else {
			h.checkRegistered(site, nc, res)
		}
	}
	// aliases: request body (no router in front of the names) and route
	ja := viaJSON(name)
	res = h.op("alias_add", nc, false, func() (int, string) {
		ctx := newCtx("POST", "", []byte(`{"actions":[{"add":{"index":`+jsonStr(name)+`,"alias":"TOKup1json"}}]}`))
		eswriter.ProcessPostAliasesRequest(ctx, 0)
		return resp(ctx)
	})
	if res.Status != -1 {
		// the handler answers 200 "acknowledged" even when AddAliases refused (its 400 is
		// overwritten); acceptance = the alias file was written
		safeObs(ja, len(pickSuffix(cat(res.Diff.created, res.Diff.modified), ".json")) > 0)
	}
	for _, p := range pickSuffix(cat(res.Diff.created, res.Diff.modified), ".json") {
		h.obs(fmt.Sprintf("Alias [] %s", vhlib.CoqStr(ja)), p)
	}
	res = h.op("alias_remove", nc, false, func() (int, string) {
		// removing the last alias of an "index" removes its alias file; try the tokens the sentinels hold
		b := `{"actions":[`
		for j := 1; j <= nSent; j++ {
			b += fmt.Sprintf(`{"remove":{"index":%s,"alias":"TOKup%djson"}},`, jsonStr(name), j)
		}
		b = strings.TrimSuffix(b, ",") + `]}`
		ctx := newCtx("POST", "", []byte(b))
		eswriter.ProcessPostAliasesRequest(ctx, 0)
		return resp(ctx)
	})
	for _, p := range pickSuffix(res.Diff.deleted, ".json") {
		h.obs(fmt.Sprintf("Alias [] %s", vhlib.CoqStr(ja)), p)
	}
	var e3 string
	res = h.op("alias_put_route", nc, false, func() (int, string) {
		st, b := h.route("PUT", "/elastic/", name, "/_alias/al1", nil)
		e3 = h.param
		return st, b
	})
	for _, p := range pickSuffix(cat(res.Diff.created, res.Diff.modified), ".json") {
		h.obs(fmt.Sprintf("Alias [] %s", vhlib.CoqStr(e3)), p)
	}
}

// ---------- index-name registration by every protocol entry point ----------
// oracle-side notion of a name that must never be used as one path element
func unsafeName(n string) bool {
	return n == "" || n == "." || n == ".." || strings.ContainsAny(n, "/\\\x00")
}

// after an operation that may register an index: no unsafe name may be in the virtual-table
// list (it would be a latent escape for every later operation that builds a path from the list)
func (h *H) checkRegistered(site string, nc nameCase, res *opRes) {
	names, err := vtable.GetVirtualTableNames(0)
	if err != nil {
		return
	}
	for n := range names {
		if unsafeName(n) {
			h.sum.Count("oracle/" + site + "_registers_unsafe_index_name")
			failN[site+"_registers"]++
			if failN[site+"_registers"] <= 3 {
				h.sum.Fail(site+"_registers_unsafe_index_name", fmt.Sprintf("%s with index name %q (status %d) left %q in the virtual-table list", site, nc.Name, res.Status, n), res)
			}
			nn := n
			_ = vtable.DeleteVirtualTable(&nn, 0)
			h.last = nil
		}
	}
}

// handler-level calls are not judged, but what they register must not pollute later operations
func (h *H) dropUnsafeRegistered() {
	if names, err := vtable.GetVirtualTableNames(0); err == nil {
		for n := range names {
			if unsafeName(n) {
				nn := n
				_ = vtable.DeleteVirtualTable(&nn, 0)
				h.last = nil
			}
		}
	}
}

func (h *H) protocolSites(nc nameCase, i int) {
	name := nc.Name
	if name == "" || strings.ContainsAny(name, "*,:") || len(name) > 200 {
		return
	}
	ja := viaJSON(name)
	mapObs := func(res *opRes, eff string) {
		for _, p := range pickSuffix(cat(res.Diff.created, res.Diff.modified), ".json") {
			if strings.HasSuffix(filepath.Dir(p), "/mappings") || !h.inside(p) {
				h.obs(fmt.Sprintf("Mapping [] %s", vhlib.CoqStr(eff)), p)
			}
		}
	}
	// Splunk HEC: "index" field of the event
	res := h.op("hec_index", nc, false, func() (int, string) {
		body := fmt.Sprintf(`{"index":%s,"event":"e%d","time":1700000000}`, jsonStr(name), i)
		ctx := newCtx("POST", "", []byte(body))
		splunk.ProcessSplunkHecIngestRequest(ctx, 0)
		z := time.Duration(0)
		writer.FlushWipBufferToFile(&z, &z)
		return resp(ctx)
	})
	mapObs(res, ja)
	if res.Status != -1 {
		safeObs(ja, res.Status == 200)
	}
	h.checkRegistered("hec_index", nc, res)
	// OTLP logs: resource attribute siglensIndexName
	res = h.op("otlp_index", nc, false, func() (int, string) {
		req := &collogpb.ExportLogsServiceRequest{ResourceLogs: []*logpb.ResourceLogs{{
			Resource:  &resourcepb.Resource{Attributes: []*commonpb.KeyValue{{Key: "siglensIndexName", Value: &commonpb.AnyValue{Value: &commonpb.AnyValue_StringValue{StringValue: name}}}}},
			ScopeLogs: []*logpb.ScopeLogs{{LogRecords: []*logpb.LogRecord{{TimeUnixNano: 1700000000000000000, Body: &commonpb.AnyValue{Value: &commonpb.AnyValue_StringValue{StringValue: "b"}}}}}},
		}}}
		data, err := proto.Marshal(req)
		if err != nil {
			return 599, err.Error()
		}
		ctx := newCtx("POST", "", data)
		ctx.Request.Header.SetContentType("application/x-protobuf")
		otlp.ProcessLogIngest(ctx, 0)
		z := time.Duration(0)
		writer.FlushWipBufferToFile(&z, &z)
		return resp(ctx)
	})
	h.checkRegistered("otlp_index", nc, res)
	// ES single document: PUT /{indexName}/_doc/{id} (route parameter) and at handler level
	for _, direct := range []bool{false, true} {
		site := "esdoc_index"
		if direct {
			site = "esdoc_index_handler"
		}
		var eff string
		res = h.op(site, nc, direct, func() (int, string) {
			body := []byte(fmt.Sprintf(`{"a":%d,"timestamp":1700000000000}`, i))
			if direct {
				ctx := newCtx("PUT", "", body)
				ctx.SetUserValue("indexName", name)
				ctx.SetUserValue("_id", "1")
				eff = name
				eswriter.ProcessPutPostSingleDocRequest(ctx, false, 0)
				return resp(ctx)
			}
			st, b := h.route("PUT", "/elastic/", name, "/_doc/1", body)
			eff = h.param
			return st, b
		})
		mapObs(res, eff)
		if !direct {
			h.checkRegistered(site, nc, res)
		} else {
			h.dropUnsafeRegistered()
		}
	}
}

// ---------- delete-index by pattern over an ARBITRARY virtual-table list ----------
// The names file is what it is on a node that ran older code or synced from others: unsafe
// names are planted directly.  A pattern that is itself a harmless single element expands to
// them; their directories (outside the data dir, or the host directory itself for "..") must
// survive, the directories of the safe names that match must go.
var deleteCases []string

func (h *H) deletePatternSite(r *vhlib.Rng, thorough bool) {
	namesFile := ""
	for p := range h.snap() {
		if strings.HasSuffix(p, "/vtabledata/virtualtablenames.txt") {
			namesFile = p
		}
	}
	if namesFile == "" {
		h.sum.HarnessError("virtual table names file not found")
		return
	}
	final := h.data + "/" + h.host + "/final/"
	planted := []string{"c19del_a_vd", "c19del_b", "c19del_c_victim", "../../../victim", "../../../../victim", "../../../c19_vd", "..", "../../..", "sub/../../../../c19_vd"}
	patterns := []string{"*_vd", "*victim", "*", "c19del_b", "*..", "*nomatch"}
	if thorough {
		patterns = append(patterns, "*c19_vd", "*ictim", "*_b", "*d", "*m")
	}
	for pi, pat := range patterns {
		for _, viaPost := range []bool{false, true} {
			if viaPost && !thorough && pi%2 == 1 {
				continue
			}
			h.restoreOutside()
			_ = os.MkdirAll(h.sentDir(0)+"/c19_vd", 0o755)
			_ = os.WriteFile(h.sentDir(0)+"/c19_vd/keep.txt", []byte("keep"), 0o644)
			_ = os.MkdirAll(final+"normal2", 0o755) // keeps <host>/final alive
			fd, err := os.OpenFile(namesFile, os.O_APPEND|os.O_WRONLY|os.O_CREATE, 0o644)
			if err != nil {
				h.sum.HarnessError("names file: " + err.Error())
				return
			}
			for _, n := range planted {
				_, _ = fd.WriteString(n + "\n")
			}
			fd.Close()
			existed := map[string]bool{}
			for _, n := range planted {
				raw := final + n + "/" // the very concatenation the code performs; the kernel resolves it
				if !unsafeName(n) {
					_ = os.MkdirAll(raw, 0o755)
					_ = os.WriteFile(raw+"marker.txt", []byte("m"), 0o644)
				}
				if st, err := os.Stat(raw); err == nil && st.IsDir() {
					existed[n] = true
				}
			}
			h.last = nil
			all, _ := vtable.GetVirtualTableNames(0)
			var L []string
			for n := range all {
				L = append(L, n)
			}
			sort.Strings(L)
			nc := nameCase{pat, "main", "pattern"}
			h.curInput = fmt.Sprintf("delete-index %s with %v in the virtual-table list", pat, planted)
			res := h.op("delete_index_pattern", nc, false, func() (int, string) {
				if viaPost {
					return h.route("POST", "/api/deleteIndex/", pat, "", nil)
				}
				return h.route("DELETE", "/elastic/", pat, "", nil)
			})
			h.curInput = ""
			if !h.hit {
				continue
			}
			var obs, cl []string
			for _, n := range planted {
				if !existed[n] {
					continue
				}
				_, err := os.Stat(final + n + "/")
				removed := err != nil
				obs = append(obs, fmt.Sprintf("(%s, %s)", vhlib.CoqStr(n), vhlib.CoqBool(removed)))
				if removed && unsafeName(n) && res.Status != -1 {
					h.sum.Count("oracle/delete_index_pattern_removed_dir_of_unsafe_name")
					h.sum.Fail("delete_index_pattern_removed_dir_of_unsafe_name", fmt.Sprintf("delete-index %q removed the directory that the listed name %q resolves to (%s)", pat, n, filepath.Clean(final+n)), res)
				}
			}
			for _, n := range L {
				cl = append(cl, vhlib.CoqStr(n))
			}
			deleteCases = append(deleteCases, fmt.Sprintf("(%s, (%s, %s))", vhlib.CoqList(cl), vhlib.CoqStr(pat), vhlib.CoqList(obs)))
			h.sum.Count("delete_index_pattern/" + pat)
			// drop what is left of the planted names
			if left, err := vtable.GetVirtualTableNames(0); err == nil {
				for n := range left {
					if unsafeName(n) || strings.HasPrefix(n, "c19del_") {
						nn := n
						_ = vtable.DeleteVirtualTable(&nn, 0)
					}
				}
			}
			h.last = nil
		}
	}
	h.restoreOutside()
}

// Metrics.  No test-only reset is used (it races with the writer's background goroutines), so
// the in-memory tag trees accumulate and every flush writes all earlier tag keys again.
// Order therefore matters for attribution: all metric-NAME operations first, then the tag-KEY
// operations of the non-climbing names, then those of the climbing names; a file is attributed
// to the current key only if no earlier key operation touched the same path.
func (h *H) metricsNameSite(nc nameCase, i int) {
	name := nc.Name
	// metric name and tag VALUE: never reach a path (the shard number does)
	res := h.op("metrics_name", nc, false, func() (int, string) {
		raw := fmt.Sprintf(`{"metric":%s,"tags":{"host":"h1","k":%s},"timestamp":%d,"value":%d}`, jsonStr(name), jsonStr(name), 1700000000+i, i)
		if err := writer.AddTimeSeriesEntryToInMemBuf([]byte(raw), sutils.SIGNAL_METRICS_OTSDB, 0); err != nil {
			return 400, err.Error()
		}
		metrics.ForceFlushMetricsBlock()
		return 200, ""
	})
	pre := h.data + "/" + h.host + "/final/ts/"
	seen := map[string]bool{}
	for _, p := range res.Diff.created {
		if strings.HasPrefix(p, pre) {
			parts := strings.Split(strings.TrimPrefix(p, pre), "/")
			if len(parts) >= 2 && !seen[parts[0]+"/"+parts[1]] {
				seen[parts[0]+"/"+parts[1]] = true
				h.obs(fmt.Sprintf("Metrics %s %s", vhlib.CoqStr(parts[0]), vhlib.CoqStr(parts[1])), pre+parts[0]+"/"+parts[1])
			}
		}
	}
}

// alias NAMES are file names too: FlushAliasMapToFile (shutdown) writes <aliases dir>/<alias>.json.
// Like the tag keys, earlier aliases are flushed again, so the non-climbing names go first.
func (h *H) aliasNameSite(nc nameCase) {
	name := nc.Name
	if name == "" || len(name) > 200 {
		return
	}
	ja := viaJSON(name)
	if !aliasPhase {
		// everything added so far is flushed once, so that it is not attributed to a later name
		aliasPhase = true
		_ = vtable.FlushAliasMapToFile()
		for p := range h.snap() {
			aliasSeen[p] = true
		}
		h.last = nil
	}
	was, _ := vtable.IsAlias(ja, 0)
	res := h.op("alias_name_flush", nc, false, func() (int, string) {
		ctx := newCtx("POST", "", []byte(`{"actions":[{"add":{"index":"normal","alias":`+jsonStr(name)+`}}]}`))
		eswriter.ProcessPostAliasesRequest(ctx, 0)
		_ = vtable.FlushAliasMapToFile()
		return resp(ctx)
	})
	if now, _ := vtable.IsAlias(ja, 0); res.Status != -1 && !was {
		safeObs(ja, now) // accepted = the alias is now known to the server
	}
	for _, p := range pickSuffix(cat(res.Diff.created, res.Diff.modified), ".json") {
		if !aliasSeen[p] && filepath.Base(p) != "normal.json" {
			h.obs(fmt.Sprintf("Alias [] %s", vhlib.CoqStr(ja)), p)
		}
		aliasSeen[p] = true
	}
}

var aliasSeen = map[string]bool{}
var aliasPhase bool

var tagMid, tagSuf string
var tagSeen = map[string]bool{}

func (h *H) metricsTagKeySite(nc nameCase, i int) {
	name := nc.Name
	res := h.op("metrics_tagkey", nc, false, func() (int, string) {
		raw := fmt.Sprintf(`{"metric":"m_c19","tags":{%s:"v%d"},"timestamp":%d,"value":%d}`, jsonStr(name), i, 1700001000+i, i)
		if err := writer.AddTimeSeriesEntryToInMemBuf([]byte(raw), sutils.SIGNAL_METRICS_OTSDB, 0); err != nil {
			return 400, err.Error()
		}
		metrics.ForceFlushMetricsBlock()
		return 200, ""
	})
	tpre := h.data + "/" + h.host + "/final/tth/"
	var fresh []string
	for _, p := range cat(res.Diff.created, res.Diff.modified) {
		if res.Diff.createdIsDir[p] || !(strings.HasPrefix(p, tpre) || !h.inside(p)) {
			continue
		}
		if !tagSeen[p] {
			fresh = append(fresh, p)
		}
		tagSeen[p] = true
	}
	key := viaJSON(name)
	if len(fresh) != 1 {
		return
	}
	safeObs(key, true) // a file was written for this key: the flush's validator accepted it
	if tagMid == "" && strings.HasPrefix(fresh[0], tpre) && !strings.Contains(key, "/") && key != ".." {
		parts := strings.Split(strings.TrimPrefix(fresh[0], tpre), "/")
		if len(parts) == 3 {
			tagMid, tagSuf = parts[0], parts[1]
		}
	}
	if tagMid != "" {
		h.obs(fmt.Sprintf("TagsTree %s %s %s", vhlib.CoqStr(tagMid), vhlib.CoqStr(tagSuf), vhlib.CoqStr(key)), fresh[0])
	}
}

// ---------- Go's filepath.Clean / Join vs the model ----------
func genPath(r *vhlib.Rng) string {
	atoms := []string{"/", "/", "/", ".", "..", "..", "a", "b", "ab", ".a", "a.", "...", "\\", "\x00", "\xc3\xbc", "%2e", " ", "..a", "//", "/./", "/../"}
	n := r.Intn(9)
	var sb strings.Builder
	for i := 0; i < n; i++ {
		sb.WriteString(vhlib.Pick(r, atoms))
		if r.Chance(45) {
			sb.WriteByte('/')
		}
	}
	return sb.String()
}

func (h *H) cleanJoinCases(r *vhlib.Rng, nClean, nJoin int) {
	seen := map[string]bool{}
	var items []string
	shard := 0
	flush := func(kind string, typ string, fn string) {
		if len(items) == 0 {
			return
		}
		defs := "Definition cases : list (" + typ + ") := " + vhlib.CoqListNL(items) + ".\n"
		h.sum.WriteCaseFile(h.cfg.Out, fmt.Sprintf("cases_%s_%d", kind, shard), "From SigM Require Import Base Paths PathsCheck.\n", defs, fn+" cases", len(items))
		shard++
		items = nil
	}
	fixed := []string{"", "/", "//", ".", "..", "/..", "/../..", "../..", "a/..", "a/../..", "/a/..", "a/b/../../..", "./", "/.", "a/.", "./a", ".//a", "a//", "///a///b///", "/../a", "../a/../../b", "a/./b/../c/", "..a/..", "a/..b/../c", "/a/b/c/../../../../d"}
	all := append([]string{}, fixed...)
	for len(all) < nClean {
		all = append(all, genPath(r))
	}
	for _, p := range all {
		if seen[p] {
			h.sum.Count("clean/duplicate_skipped")
			continue
		}
		seen[p] = true
		out := filepath.Clean(p)
		h.sum.Eval("clean|"+p, p != out)
		if out == p {
			h.sum.Count("clean/already_clean")
		} else {
			h.sum.Count("clean/changed")
		}
		// property of Clean on the implementation itself
		if filepath.Clean(out) != out {
			h.sum.Fail("go_clean_not_idempotent", fmt.Sprintf("Clean(Clean(%q)) != Clean(%q)", p, p), p)
		}
		items = append(items, "("+vhlib.CoqStr(p)+", "+vhlib.CoqStr(out)+")")
		if len(items) == 450 {
			flush("clean", "list N * list N", "check_clean")
		}
	}
	flush("clean", "list N * list N", "check_clean")
	shard = 0
	for i := 0; i < nJoin; i++ {
		ne := r.Range(1, 4)
		var el, ce []string
		for j := 0; j < ne; j++ {
			e := genPath(r)
			if r.Chance(15) {
				e = ""
			}
			if j == 0 && r.Chance(50) {
				e = "/base/dir/"
			}
			el = append(el, e)
			ce = append(ce, vhlib.CoqStr(e))
		}
		out := filepath.Join(el...)
		h.sum.Eval("join|"+strings.Join(el, "\x01"), true)
		h.sum.Count("join/cases")
		items = append(items, "("+vhlib.CoqList(ce)+", "+vhlib.CoqStr(out)+")")
		if len(items) == 450 {
			flush("join", "list (list N) * list N", "check_join")
		}
	}
	flush("join", "list (list N) * list N", "check_join")
}

func (h *H) writeSiteCases() {
	D := h.data + "/"
	for s, i := 0, 0; s < len(h.sites); s, i = s+400, i+1 {
		e := s + 400
		if e > len(h.sites) {
			e = len(h.sites)
		}
		defs := "Definition D : list N := " + vhlib.CoqStr(D) + ".\nDefinition H : list N := " + vhlib.CoqStr(h.host) + ".\n" +
			"Definition cases : list (call * (list N * bool)) := " + vhlib.CoqListNL(h.sites[s:e]) + ".\n"
		h.sum.WriteCaseFile(h.cfg.Out, fmt.Sprintf("cases_sites_%d", i), "From SigM Require Import Base Paths PathsCheck.\n", defs, "check_sites D H cases", e-s)
	}
	if len(deleteCases) > 0 {
		defs := "Definition cases : list (list (list N) * (list N * list (list N * bool))) := " + vhlib.CoqListNL(deleteCases) + ".\n"
		h.sum.WriteCaseFile(h.cfg.Out, "cases_delete_index", "From SigM Require Import Base Paths PathsCheck.\n", defs, "check_delete cases", len(deleteCases))
	}
	if len(safeGuard) > 0 {
		defs := "Definition cases : list (list N * bool) := " + vhlib.CoqListNL(safeGuard) + ".\n"
		h.sum.WriteCaseFile(h.cfg.Out, "cases_safe_component", "From SigM Require Import Base Paths PathsCheck.\n", defs, "check_safe cases", len(safeGuard))
	}
	if len(inputGuard) > 0 {
		defs := "Definition cases : list (il_opts * (list N * bool)) := " + vhlib.CoqListNL(inputGuard) + ".\n"
		h.sum.WriteCaseFile(h.cfg.Out, "cases_inputlookup_guard", "From SigM Require Import Base Paths PathsCheck.\n", defs, "check_inputlookup_guard cases", len(inputGuard))
	}
}

func main() {
	cfg := vhlib.ParseFlags()
	log.SetLevel(log.PanicLevel)
	sum := vhlib.NewSummary("distinct (site, name) pairs whose name contains a character outside [a-z0-9_-], plus distinct Clean inputs that Clean changes and distinct Join argument lists")
	h := &H{cfg: cfg, sum: sum}
	r := vhlib.NewRng(cfg.Seed)

	// roots left behind by a run that was killed: remove those whose process is gone
	if ents, err := os.ReadDir("/tmp/C19_root"); err == nil {
		for _, e := range ents {
			if _, err := os.Stat("/proc/" + e.Name()); err != nil {
				_ = os.RemoveAll("/tmp/C19_root/" + e.Name())
			}
		}
	}
	h.root = fmt.Sprintf("/tmp/C19_root/%d", os.Getpid())
	_ = os.RemoveAll(h.root)
	defer os.RemoveAll(h.root)
	p := h.root
	h.chain = []string{p}
	for i := 1; i <= nLevels; i++ {
		p += fmt.Sprintf("/l%d", i)
		h.chain = append(h.chain, p)
	}
	h.data = p + "/data"
	if err := os.MkdirAll(h.data, 0o755); err != nil {
		sum.HarnessError("mkdir: " + err.Error())
		sum.Write(cfg.Out)
		return
	}
	h.writeSentinels()
	h.watchOutside()

	// the real node, rooted at the private data directory
	config.InitializeTestingConfig(h.data + "/")
	config.SetNewQueryPipelineEnabled(true)
	limit.InitMemoryLimiter()
	writer.InitWriterNode()
	if err := vtable.InitVTable(serverutils.GetMyIds); err != nil {
		sum.HarnessError("InitVTable: " + err.Error())
	}
	if err := query.InitQueryNode(serverutils.GetMyIds, serverutils.ExtractKibanaRequests); err != nil {
		sum.HarnessError("InitQueryNode: " + err.Error())
	}
	query.InitMaxRunningQueries()
	go query.PullQueriesToRun(context.Background())
	if err := dashboards.InitDashboards(0); err != nil {
		sum.HarnessError("InitDashboards: " + err.Error())
	}
	if err := usq.InitUsq(); err != nil {
		sum.HarnessError("InitUsq: " + err.Error())
	}
	h.host = config.GetHostID()
	if config.GetDataPath() != h.data+"/" {
		sum.HarnessError("data path is " + config.GetDataPath())
	}
	h.mkRouter()
	h.writeInside()
	// a normal index first, so that <data>/<host>/final and /suffix exist like on any used node
	{
		body := `{"index":{"_index":"normal"}}` + "\n" + `{"a":1,"timestamp":1700000000000}` + "\n"
		_, _, _ = eswriter.HandleBulkBody([]byte(body), nil, 1, 0, false)
		z := time.Duration(0)
		writer.FlushWipBufferToFile(&z, &z)
	}

	nNames := 70
	nClean, nJoin := 2600, 1300
	if cfg.Thorough() {
		nNames, nClean, nJoin = 400, 20000, 8000
	}
	names := genNames(r.Fork(), nNames)
	t0 := time.Now()
	tm := map[string]time.Duration{}
	timed := func(k string, f func()) { t := time.Now(); f(); tm[k] += time.Since(t) }
	for i, nc := range names {
		timed("lookup", func() { h.lookupSites(nc, i) })
		timed("inputlookup", func() { h.inputlookupSite(nc) })
		timed("dashboard", func() { h.dashboardSites(nc) })
		timed("usq", func() { h.usqSites(nc, i) })
		timed("scroll", func() { h.scrollSite(nc) })
		timed("index", func() { h.indexSites(nc, i) })
		timed("protocols", func() { h.protocolSites(nc, i) })
		if i%20 == 0 {
			sum.Sample(map[string]interface{}{"name": nc.Name, "stream": nc.Stream, "kind": nc.Kind})
		}
	}
	timed("inputlookup_options", func() { h.inputlookupOptionsSite(r.Fork(), cfg.Thorough()) })
	timed("upload_variants", func() { h.uploadVariantsSite() })
	for i, nc := range names {
		timed("metrics", func() { h.metricsNameSite(nc, i) })
	}
	for _, stream := range []string{"main", "defect"} {
		for i, nc := range names {
			if nc.Stream == stream {
				timed("metrics", func() { h.metricsTagKeySite(nc, i) })
			}
		}
	}
	for _, stream := range []string{"main", "defect"} {
		for _, nc := range names {
			if nc.Stream == stream {
				timed("aliasname", func() { h.aliasNameSite(nc) })
			}
		}
	}
	timed("delete_pattern", func() { h.deletePatternSite(r.Fork(), cfg.Thorough()) })
	sum.Notes = append(sum.Notes, fmt.Sprintf("%d names x sites in %.1fs; %d site observations compared with the model", len(names), time.Since(t0).Seconds(), len(h.sites)))
	sum.Notes = append(sum.Notes, fmt.Sprintf("seconds per site group: %v; files in the tree at the end: %d", tm, len(h.snap())))
	sum.Notes = append(sum.Notes, "router: fasthttp/router hands the handler one raw path element (PathOriginal, not percent-decoded, never containing '/'); handler-level calls with hand-made parameters are counted under handler_level_escape_not_reachable_through_router and not judged")
	h.cleanJoinCases(r.Fork(), nClean, nJoin)
	h.writeSiteCases()
	sum.Write(cfg.Out)
}

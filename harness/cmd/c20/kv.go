// kv.go: keyed stores.  Scenario = operations with restarts at some positions; every segment
// between two restarts runs in a fresh worker process on the same data directory (the in-memory
// maps of the packages are process-wide, so only a new process is a real restart).
package main

import (
	"bytes"
	"encoding/json"
	"fmt"
	"mime/multipart"
	"os"
	"os/exec"
	"path/filepath"
	"sort"
	"strconv"
	"strings"
	"sync"
	"time"

	"github.com/siglens/siglens/pkg/alerts/alertsHandler"
	"github.com/siglens/siglens/pkg/config"
	"github.com/siglens/siglens/pkg/dashboards"
	eswriter "github.com/siglens/siglens/pkg/es/writer"
	"github.com/siglens/siglens/pkg/lookups"
	usq "github.com/siglens/siglens/pkg/usersavedqueries"
	vtable "github.com/siglens/siglens/pkg/virtualtable"
	"github.com/valyala/fasthttp"

	"verifharness/vhlib"
)

type kOp struct {
	Op        string            `json:"op"`
	Org       int64             `json:"org"`
	Name      string            `json:"name,omitempty"`
	Fields    map[string]string `json:"fields,omitempty"`
	Ref       int               `json:"ref,omitempty"`     // logical id of the object operated on
	NewRef    int               `json:"new_ref,omitempty"` // logical id given to a created object
	Parent    int               `json:"parent,omitempty"`  // logical id of a folder; 0 = not given, -1 = root
	Desc      string            `json:"desc,omitempty"`
	Note      string            `json:"note,omitempty"`
	Alias     string            `json:"alias,omitempty"`
	Content   string            `json:"content,omitempty"`
	Overwrite bool              `json:"overwrite,omitempty"`
	Pat       string            `json:"pat,omitempty"`
}

type kRes struct {
	Status int    `json:"status"`
	Body   string `json:"body"`
	// alias store: every read function of pkg/virtualtable, taken after the operation, per tenant
	Snap map[string]*aliasSnap `json:"snap,omitempty"`
}

// aliasSnap: what the alias read functions of pkg/virtualtable answer for one tenant
type aliasSnap struct {
	Rev       map[string][]string `json:"rev"`        // GetAllAliasesAsMapArray: alias -> indexes (non-empty only)
	Fwd       map[string][]string `json:"fwd"`        // GetAliasesAsArray(name): index -> aliases (non-empty only)
	IsAlias   map[string]string   `json:"is_alias"`   // IsAlias(name): index or "" per name
	FromAlias map[string]string   `json:"from_alias"` // GetIndexNameFromAlias(name): index or ""
	Expand    map[string][]string `json:"expand"`     // ExpandAndReturnIndexNames(name)
}

func takeAliasSnap(orgs []int64, names []string) map[string]*aliasSnap {
	res := map[string]*aliasSnap{}
	for _, org := range orgs {
		sn := &aliasSnap{Rev: map[string][]string{}, Fwd: map[string][]string{}, IsAlias: map[string]string{}, FromAlias: map[string]string{}, Expand: map[string][]string{}}
		all, _ := vtable.GetAllAliasesAsMapArray(org)
		for a, ixs := range all {
			if len(ixs) > 0 {
				sort.Strings(ixs)
				sn.Rev[a] = ixs
			}
		}
		for _, n := range names {
			if as, err := vtable.GetAliasesAsArray(n, org); err == nil && len(as) > 0 {
				sort.Strings(as)
				sn.Fwd[n] = as
			}
			if ok, ix := vtable.IsAlias(n, org); ok {
				sn.IsAlias[n] = ix
			}
			if ix, err := vtable.GetIndexNameFromAlias(n, org); err == nil {
				sn.FromAlias[n] = ix
			}
			sn.Expand[n] = vtable.ExpandAndReturnIndexNames(n, org, false, nil)
		}
		res[fmt.Sprint(org)] = sn
	}
	return res
}

type segIn struct {
	Store         string         `json:"store"`
	Dir           string         `json:"dir"`
	Ops           []kOp          `json:"ops"`
	IDs           map[int]string `json:"ids"`
	Orgs          []int64        `json:"orgs"`
	Names         []string       `json:"names,omitempty"` // alias store: the names every snapshot asks about
	CleanShutdown bool           `json:"clean_shutdown"`
	// alias store: tenants (<> 0) whose alias directory aliases/<org>/ the deployment provides
	// (siglens itself never creates it; tenant 0's files lie in aliases/)
	AliasDirs []int64 `json:"alias_dirs,omitempty"`
}

type segOut struct {
	Res []kRes         `json:"res"`
	IDs map[int]string `json:"ids"`
	Err string         `json:"err,omitempty"`
}

// ------------------------------------------------------------------ worker side

func jb(v interface{}) []byte { b, _ := json.Marshal(v); return b }

func workerMain(args []string) {
	var in segIn
	b, err := os.ReadFile(args[0])
	if err == nil {
		err = json.Unmarshal(b, &in)
	}
	out := segOut{IDs: map[int]string{}}
	defer func() {
		if r := recover(); r != nil {
			out.Err = fmt.Sprintf("panic: %v", r)
		}
		_ = os.WriteFile(args[1], jb(out), 0o644)
	}()
	if err != nil {
		out.Err = err.Error()
		return
	}
	for k, v := range in.IDs {
		out.IDs[k] = v
	}
	config.InitializeTestingConfig(in.Dir + "/")
	switch in.Store {
	case "usq":
		if err := usq.InitUsq(); err != nil {
			out.Err = err.Error()
			return
		}
	case "dash":
		for _, o := range in.Orgs {
			if err := dashboards.InitDashboards(o); err != nil {
				out.Err = err.Error()
				return
			}
		}
	case "alias":
		orgs := in.Orgs
		if err := vtable.InitVTable(func() []int64 { return orgs }); err != nil {
			out.Err = err.Error()
			return
		}
		for _, o := range in.AliasDirs {
			// empty in the first segment, so creating it after the start is the same as before it
			if err := os.MkdirAll(vtable.VTableAliasesDir+strconv.FormatInt(o, 10), 0o764); err != nil {
				out.Err = err.Error()
				return
			}
		}
	case "adb":
		alertsHandler.VerifQuietScheduler()
		if err := alertsHandler.ConnectSiglensDB(); err != nil {
			out.Err = err.Error()
			return
		}
		defer alertsHandler.Disconnect()
	}
	known := func(id string) bool {
		for _, v := range out.IDs {
			if v == id {
				return true
			}
		}
		return false
	}
	uid := func(ref int) string {
		if ref == -1 {
			return "root-folder"
		}
		if s, ok := out.IDs[ref]; ok {
			return s
		}
		return fmt.Sprintf("00000000-0000-0000-0000-%012d", ref)
	}
	for _, op := range in.Ops {
		org := op.Org
		var st int
		var body []byte
		switch in.Store + "/" + op.Op {
		case "usq/save":
			m := map[string]string{"queryName": op.Name}
			for k, v := range op.Fields {
				m[k] = v
			}
			st, body = callCtx(func(c *fasthttp.RequestCtx) { usq.SaveUserQueries(c, org) }, jb(m), nil, "")
		case "usq/del":
			st, body = callCtx(func(c *fasthttp.RequestCtx) { usq.DeleteUserSavedQuery(c, org) }, nil, map[string]string{"qname": op.Name}, "")
		case "usq/delall":
			st = 200
			if err := usq.DeleteAllUserSavedQueries(org); err != nil {
				st, body = 500, []byte(err.Error())
			}
		case "usq/getall":
			st, body = callCtx(func(c *fasthttp.RequestCtx) { usq.GetUserSavedQueriesAll(c, org) }, nil, nil, "")
		case "usq/search":
			st, body = callCtx(func(c *fasthttp.RequestCtx) { usq.SearchUserSavedQuery(c, org) }, nil, map[string]string{"qname": op.Pat}, "")

		case "dash/dcreate":
			m := map[string]string{"name": op.Name, "description": op.Desc}
			if op.Parent != 0 {
				m["parentId"] = uid(op.Parent)
			}
			st, body = callCtx(func(c *fasthttp.RequestCtx) { dashboards.ProcessCreateDashboardRequest(c, org) }, jb(m), nil, "")
			if st == 200 {
				var r map[string]string
				_ = json.Unmarshal(body, &r)
				for id := range r {
					out.IDs[op.NewRef] = id
				}
			}
		case "dash/fcreate":
			m := map[string]string{"name": op.Name}
			if op.Parent != 0 {
				m["parentId"] = uid(op.Parent)
			}
			st, body = callCtx(func(c *fasthttp.RequestCtx) { dashboards.ProcessCreateFolderRequest(c, org) }, jb(m), nil, "")
			if st == 200 {
				var r map[string]string
				_ = json.Unmarshal(body, &r)
				out.IDs[op.NewRef] = r["id"]
			}
		case "dash/dupdate":
			det := map[string]interface{}{"name": op.Name, "description": op.Desc, "note": op.Note, "panels": []interface{}{}}
			if op.Parent != 0 {
				det["folder"] = map[string]interface{}{"id": uid(op.Parent)}
			}
			st, body = callCtx(func(c *fasthttp.RequestCtx) { dashboards.ProcessUpdateDashboardRequest(c, org) },
				jb(map[string]interface{}{"id": uid(op.Ref), "details": det}), nil, "")
		case "dash/ddelete":
			st, body = callCtx(func(c *fasthttp.RequestCtx) { dashboards.ProcessDeleteDashboardRequest(c, org) }, nil, map[string]string{"dashboard-id": uid(op.Ref)}, "")
		case "dash/dget":
			st, body = callCtx(func(c *fasthttp.RequestCtx) { dashboards.ProcessGetDashboardRequest(c, org) }, nil, map[string]string{"dashboard-id": uid(op.Ref)}, "")
		case "dash/dfav":
			st, body = callCtx(func(c *fasthttp.RequestCtx) { dashboards.ProcessFavoriteRequest(c, org) }, nil, map[string]string{"dashboard-id": uid(op.Ref)}, "")
		case "dash/fupdate":
			m := map[string]string{}
			if op.Name != "" {
				m["name"] = op.Name
			}
			if op.Parent != 0 {
				m["parentId"] = uid(op.Parent)
			}
			st, body = callCtx(func(c *fasthttp.RequestCtx) { dashboards.ProcessUpdateFolderRequest(c, org) }, jb(m), map[string]string{"folder-id": uid(op.Ref)}, "")
		case "dash/fdelete":
			st, body = callCtx(func(c *fasthttp.RequestCtx) { dashboards.ProcessDeleteFolderRequest(c, org) }, nil, map[string]string{"folder-id": uid(op.Ref)}, "")
		case "dash/list":
			st, body = callCtx(func(c *fasthttp.RequestCtx) { dashboards.ProcessListAllItemsRequest(c, org) }, nil, nil, "")
		case "dash/contents":
			st, body = callCtx(func(c *fasthttp.RequestCtx) { dashboards.ProcessGetFolderContentsRequest(c, org) }, nil, map[string]string{"folder-id": uid(op.Ref)}, "")

		case "alias/aadd":
			st, body = callCtx(func(c *fasthttp.RequestCtx) { eswriter.ProcessPutAliasesRequest(c, org) }, nil, map[string]string{"indexName": op.Name, "aliasName": op.Alias}, "")
		case "alias/aaddpost":
			st, body = callCtx(func(c *fasthttp.RequestCtx) { eswriter.ProcessPostAliasesRequest(c, org) },
				jb(map[string]interface{}{"actions": []interface{}{map[string]interface{}{"add": map[string]string{"index": op.Name, "alias": op.Alias}}}}), nil, "")
		case "alias/aremove":
			st = 200
			if err := vtable.RemoveAliases(op.Name, []string{op.Alias}, org); err != nil {
				st, body = 400, []byte(err.Error())
			}
		case "alias/agetidx":
			st, body = callCtx(func(c *fasthttp.RequestCtx) { eswriter.ProcessGetIndexAlias(c, org) }, nil, map[string]string{"indexName": op.Name}, "")
		case "alias/aisalias":
			st, body = callCtx(func(c *fasthttp.RequestCtx) { eswriter.ProcessGetAlias(c, org) }, nil, map[string]string{"aliasName": op.Alias}, "")

		case "adb/ccreate":
			st, body = callCtx(func(c *fasthttp.RequestCtx) { alertsHandler.ProcessCreateContactRequest(c, org) },
				jb(map[string]interface{}{"contact_name": op.Name, "pager_duty": op.Desc, "webhook": []map[string]interface{}{{"webhook": "http://127.0.0.1:1/" + op.Note}}}), nil, "")
			if st == 200 {
				cs, _ := alertsHandler.VerifGetDatabase().GetAllContactPoints(org)
				for _, c := range cs {
					if c.ContactName == op.Name && !known(c.ContactId) {
						out.IDs[op.NewRef] = c.ContactId
					}
				}
			}
		case "adb/cupdate":
			st, body = callCtx(alertsHandler.ProcessUpdateContactRequest,
				jb(map[string]interface{}{"contact_id": uid(op.Ref), "contact_name": op.Name, "pager_duty": op.Desc, "org_id": org,
					"webhook": []map[string]interface{}{{"webhook": "http://127.0.0.1:1/" + op.Note}}}), nil, "")
		case "adb/cdelete":
			st, body = callCtx(alertsHandler.ProcessDeleteContactRequest, jb(map[string]string{"contact_id": uid(op.Ref)}), nil, "")
		case "adb/clist":
			st, body = callCtx(func(c *fasthttp.RequestCtx) { alertsHandler.ProcessGetAllContactsRequest(c, org) }, nil, nil, "")
		case "adb/acreate", "adb/aupdate":
			m := map[string]interface{}{"alert_name": op.Name, "alert_type": 1, "contact_id": uid(op.Parent), "queryParams": qp,
				"condition": len(op.Desc) % 5, "value": float64(len(op.Note)), "eval_for": 2, "eval_interval": 1, "message": op.Desc}
			if op.Op == "acreate" {
				st, body = callCtx(func(c *fasthttp.RequestCtx) { alertsHandler.ProcessCreateAlertRequest(c, org) }, jb(m), nil, "")
				if st == 200 {
					as, _ := alertsHandler.VerifGetDatabase().GetAllAlerts(org)
					for _, a := range as {
						if a.AlertName == op.Name && !known(a.AlertId) {
							out.IDs[op.NewRef] = a.AlertId
						}
					}
				}
			} else {
				m["alert_id"] = uid(op.Ref)
				st, body = callCtx(alertsHandler.ProcessUpdateAlertRequest, jb(m), nil, "")
			}
		case "adb/adelete":
			st, body = callCtx(alertsHandler.ProcessDeleteAlertRequest, jb(map[string]string{"alert_id": uid(op.Ref)}), nil, "")
		case "adb/alist":
			st, body = callCtx(func(c *fasthttp.RequestCtx) { alertsHandler.ProcessGetAllAlertsRequest(c, org) }, nil, nil, "")
		case "adb/aget":
			st, body = callCtx(alertsHandler.ProcessGetAlertRequest, nil, map[string]string{"alertID": uid(op.Ref)}, "")

		case "lookup/lupload":
			var buf bytes.Buffer
			mw := multipart.NewWriter(&buf)
			_ = mw.WriteField("name", op.Name)
			if op.Overwrite {
				_ = mw.WriteField("overwrite", "true")
			}
			fw, _ := mw.CreateFormFile("file", "upload.csv")
			_, _ = fw.Write([]byte(op.Content))
			_ = mw.Close()
			var ctx fasthttp.RequestCtx
			ctx.Init(&fasthttp.Request{}, nil, nil)
			ctx.Request.Header.SetMethod("POST")
			ctx.Request.Header.SetContentType(mw.FormDataContentType())
			ctx.Request.SetBody(buf.Bytes())
			lookups.UploadLookupFile(&ctx)
			st, body = ctx.Response.StatusCode(), append([]byte{}, ctx.Response.Body()...)
		case "lookup/lget":
			st, body = callCtx(lookups.GetLookupFile, nil, map[string]string{"lookupFilename": op.Name}, "")
		case "lookup/ldelete":
			st, body = callCtx(lookups.DeleteLookupFile, nil, map[string]string{"lookupFilename": op.Name}, "")
		case "lookup/llist":
			st, body = callCtx(lookups.GetAllLookupFiles, nil, nil, "")
			if st == 200 {
				var names []string
				_ = json.Unmarshal(body, &names)
				m := map[string]string{}
				for _, n := range names {
					s2, b2 := callCtx(lookups.GetLookupFile, nil, map[string]string{"lookupFilename": n}, "")
					if s2 == 200 {
						m[n] = string(b2)
					} else {
						m[n] = fmt.Sprintf("<status %d>", s2)
					}
				}
				body = jb(m)
			}
		default:
			st, body = -1, []byte("unknown op")
		}
		kr := kRes{Status: st, Body: string(body)}
		if in.Store == "alias" {
			kr.Snap = takeAliasSnap(in.Orgs, in.Names)
		}
		out.Res = append(out.Res, kr)
	}
	if in.CleanShutdown && in.Store == "alias" {
		// what ShutdownSiglensServer does for this store
		_ = vtable.FlushAliasMapToFile()
	}
}

// ------------------------------------------------------------------ parent side

type scenario struct {
	Store string  `json:"store"`
	Class string  `json:"stream"`
	Orgs  []int64 `json:"orgs"`
	// segments separated by restarts; Clean[i] = segment i ends with a clean shutdown
	Segs  [][]kOp `json:"segments"`
	Clean []bool  `json:"clean_shutdown,omitempty"`
	Names []string `json:"names,omitempty"`
	// alias store: tenants (<> 0) that have an alias directory
	AliasDirs []int64 `json:"alias_dirs,omitempty"`
	// known-class stream whose defect is a request that never returns: class reported on a time-out
	HangClass string `json:"hang_class,omitempty"`

	res  []kRes
	ids  map[int]string
	err  string
	hung int
}

func (sc *scenario) run(self, work string, idx int) {
	dir := filepath.Join(work, fmt.Sprintf("%s_%d", sc.Store, idx))
	_ = os.RemoveAll(dir)
	_ = os.MkdirAll(dir+"/data", 0o755)
	ids := map[int]string{}
	sc.hung = -1
	for i, seg := range sc.Segs {
		in := segIn{Store: sc.Store, Dir: dir + "/data", Ops: seg, IDs: ids, Orgs: sc.Orgs, Names: sc.Names, AliasDirs: sc.AliasDirs}
		if i < len(sc.Clean) {
			in.CleanShutdown = sc.Clean[i]
		}
		inF, outF := filepath.Join(dir, fmt.Sprintf("in%d.json", i)), filepath.Join(dir, fmt.Sprintf("out%d.json", i))
		_ = os.WriteFile(inF, jb(in), 0o644)
		cmd := exec.Command(self, "worker", inF, outF)
		cmd.Dir = dir
		done := make(chan error, 1)
		if err := cmd.Start(); err != nil {
			sc.err = err.Error()
			return
		}
		go func() { done <- cmd.Wait() }()
		select {
		case <-done:
		case <-time.After(map[bool]time.Duration{true: 3 * time.Second, false: 20 * time.Second}[sc.HangClass != ""]):
			_ = cmd.Process.Kill()
			sc.err = fmt.Sprintf("worker timed out in segment %d", i)
			sc.hung = i
			return
		}
		var out segOut
		b, err := os.ReadFile(outF)
		if err == nil {
			err = json.Unmarshal(b, &out)
		}
		if err != nil {
			sc.err = "worker output: " + err.Error()
			return
		}
		if out.Err != "" {
			sc.err = "worker: " + out.Err
			return
		}
		if len(out.Res) != len(seg) {
			sc.err = "worker returned a different number of results"
			return
		}
		sc.res = append(sc.res, out.Res...)
		ids = out.IDs
	}
	sc.ids = ids
	_ = os.RemoveAll(dir)
}

// flattened view: operations with restart markers
type flatOp struct {
	kOp
	Restart bool // a restart happens BEFORE this op
	Clean   bool // ... after a clean shutdown
}

func (sc *scenario) flat() []flatOp {
	var r []flatOp
	for i, seg := range sc.Segs {
		for j, op := range seg {
			f := flatOp{kOp: op}
			if i > 0 && j == 0 {
				f.Restart = true
				f.Clean = i-1 < len(sc.Clean) && sc.Clean[i-1]
			}
			r = append(r, f)
		}
	}
	return r
}

func splitSegs(ops []kOp, cuts map[int]bool) [][]kOp {
	var segs [][]kOp
	var cur []kOp
	for i, op := range ops {
		if cuts[i] && len(cur) > 0 {
			segs = append(segs, cur)
			cur = nil
		}
		cur = append(cur, op)
	}
	if len(cur) > 0 {
		segs = append(segs, cur)
	}
	return segs
}

func coqKV(k, v string) string { return "(" + vhlib.CoqStr(k) + ", " + vhlib.CoqStr(v) + ")" }

func coqKVList(m map[string]string) string {
	keys := make([]string, 0, len(m))
	for k := range m {
		keys = append(keys, k)
	}
	sort.Strings(keys)
	items := make([]string, len(keys))
	for i, k := range keys {
		items[i] = coqKV(k, m[k])
	}
	return vhlib.CoqList(items)
}

func canon(m map[string]string) string { return string(jb(m)) }

type verdict struct {
	ops, obs []string // Coq terms
	fails    int
	// dashboards/folders as a tree (DashTree.v): per tenant, the accepted operations and the answers
	tops, tobs map[int64][]string
}

func opSig(fl []flatOp) string {
	var sb strings.Builder
	for _, f := range fl {
		if f.Restart {
			if f.Clean {
				sb.WriteString("|S|")
			} else {
				sb.WriteString("|R|")
			}
		}
		sb.WriteString(f.Op)
		sb.WriteString(fmt.Sprintf("@%d,", f.Org))
	}
	return sb.String()
}

// ---------------------------------------------------------------- saved queries

var usqFieldMap = map[string]string{"queryDescription": "description", "searchText": "searchText", "indexName": "indexName", "filterTab": "filterTab",
	"queryLanguage": "queryLanguage", "dataSource": "dataSource", "startTime": "startTime", "endTime": "endTime", "metricsQueryParams": "metricsQueryParams"}

var oddStrings = []string{"x=1", "city=\"Boston\" | stats count", "é ✓ 漢", "a\\b \"q\" \t tab", "", "{\"k\":1}", "line1\nline2", "<&>", "%41%00"}

func genUsq(r *vhlib.Rng, n int) []*scenario {
	names := []string{"q", "q1", "q 1", "a/b", "ü✓", "x\"y", "q.1", "Q", "", "qq"}
	orgs := []int64{0, 3, 11}
	var scs []*scenario
	for i := 0; i < n; i++ {
		var ops []kOp
		cuts := map[int]bool{}
		l := r.Range(6, 24)
		for k := 0; k < l; k++ {
			org := vhlib.Pick(r, orgs)
			switch x := r.Intn(100); {
			case x < 40:
				f := map[string]string{}
				keys := []string{"queryDescription", "searchText", "indexName", "filterTab", "queryLanguage", "dataSource", "startTime", "endTime", "metricsQueryParams"}
				for _, kk := range keys {
					if r.Chance(35) {
						f[kk] = vhlib.Pick(r, oddStrings)
					}
				}
				ops = append(ops, kOp{Op: "save", Org: org, Name: vhlib.Pick(r, names), Fields: f})
			case x < 55:
				ops = append(ops, kOp{Op: "del", Org: org, Name: vhlib.Pick(r, names)})
			case x < 59:
				ops = append(ops, kOp{Op: "delall", Org: org})
			case x < 85:
				ops = append(ops, kOp{Op: "getall", Org: org})
			default:
				ops = append(ops, kOp{Op: "search", Org: org, Pat: vhlib.Pick(r, []string{"q", "1", "a/", "Q", "zz", "ü", ""})})
			}
			if r.Chance(12) {
				cuts[len(ops)] = true
			}
		}
		// final reads of every tenant after a last restart
		cuts[len(ops)] = r.Chance(70)
		for _, o := range orgs {
			ops = append(ops, kOp{Op: "getall", Org: o})
		}
		scs = append(scs, &scenario{Store: "usq", Class: "main", Orgs: orgs, Segs: splitSegs(ops, cuts)})
	}
	return scs
}

func parseUsq(body string) (map[string]string, bool) {
	var m map[string]map[string]interface{}
	if err := json.Unmarshal([]byte(body), &m); err != nil {
		return nil, false
	}
	res := map[string]string{}
	for k, v := range m {
		sv := map[string]string{}
		for kk, vv := range v {
			s, ok := vv.(string)
			if !ok {
				return nil, false
			}
			sv[kk] = s
		}
		res[k] = canon(sv)
	}
	return res, true
}

func sameMap(a, b map[string]string) bool {
	if len(a) != len(b) {
		return false
	}
	for k, v := range a {
		if w, ok := b[k]; !ok || w != v {
			return false
		}
	}
	return true
}

func checkUsq(sc *scenario, sum *vhlib.Summary) *verdict {
	v := &verdict{}
	ref := map[int64]map[string]string{}
	restarted := map[int64]bool{} // a restart happened since the last write of the tenant
	fail := func(class, detail string, k int) {
		v.fails++
		sum.Fail(class, detail, map[string]interface{}{"scenario": sc, "failing_op_index": k})
	}
	for k, f := range sc.flat() {
		if f.Restart {
			v.ops, v.obs = append(v.ops, "Restart"), append(v.obs, "OAck true")
			for o := range ref {
				restarted[o] = true
			}
		}
		res := sc.res[k]
		if ref[f.Org] == nil {
			ref[f.Org] = map[string]string{}
		}
		cls := func(base string) string {
			if restarted[f.Org] {
				return base + "_after_restart"
			}
			return base
		}
		switch f.Op {
		case "save":
			if res.Status == 200 {
				m := map[string]string{}
				for kk, vv := range f.Fields {
					m[usqFieldMap[kk]] = vv
				}
				ref[f.Org][f.Name] = canon(m)
				restarted[f.Org] = false
				v.ops = append(v.ops, fmt.Sprintf("Put %d %s %s", f.Org, vhlib.CoqStr(f.Name), vhlib.CoqStr(canon(m))))
				v.obs = append(v.obs, "OAck true")
			} else if f.Name != "" {
				fail("savedquery_write_rejected", fmt.Sprintf("save %q org %d -> %d %s", f.Name, f.Org, res.Status, res.Body), k)
				return v
			}
		case "del":
			_, had := ref[f.Org][f.Name]
			if (res.Status == 200) != had {
				fail(cls("savedquery_delete_ack_wrong"), fmt.Sprintf("delete %q org %d: status %d, stored before: %v", f.Name, f.Org, res.Status, had), k)
				return v
			}
			delete(ref[f.Org], f.Name)
			restarted[f.Org] = false
			v.ops = append(v.ops, fmt.Sprintf("Del %d %s", f.Org, vhlib.CoqStr(f.Name)))
			v.obs = append(v.obs, "OAck "+vhlib.CoqBool(res.Status == 200))
		case "delall":
			if res.Status != 200 {
				fail("savedquery_delete_all_failed", fmt.Sprintf("org %d: %d %s", f.Org, res.Status, res.Body), k)
				return v
			}
			ref[f.Org] = map[string]string{}
			restarted[f.Org] = false
			v.ops, v.obs = append(v.ops, fmt.Sprintf("DelAll %d", f.Org)), append(v.obs, "OAck true")
		case "getall", "search":
			got := map[string]string{}
			ok := true
			if res.Status == 200 {
				if res.Body == "" { // GetUserSavedQueriesAll writes nothing when not found
					ok = true
				} else {
					got, ok = parseUsq(res.Body)
				}
			} else if !(f.Op == "search" && res.Status == 404) {
				ok = false
			}
			want := map[string]string{}
			for n, val := range ref[f.Org] {
				if f.Op == "getall" || strings.Contains(n, f.Pat) {
					want[n] = val
				}
			}
			if !ok || !sameMap(got, want) {
				fail(cls("savedquery_read_differs_from_last_write"), fmt.Sprintf("%s org %d pat %q: status %d body %s, last written state %v", f.Op, f.Org, f.Pat, res.Status, res.Body, want), k)
				return v
			}
			if f.Op == "getall" {
				v.ops = append(v.ops, fmt.Sprintf("ListAll %d", f.Org))
			} else {
				v.ops = append(v.ops, fmt.Sprintf("Search %d %s", f.Org, vhlib.CoqStr(f.Pat)))
			}
			v.obs = append(v.obs, "OList "+coqKVList(got))
		}
	}
	return v
}

// ---------------------------------------------------------------- dashboards and folders

type dItem struct {
	Typ, Name  string
	Parent     int // 0 = root
	Desc, Note string
	Fav        bool
	Org        int64
}

func (d *dItem) val() string {
	if d.Typ == "folder" {
		return fmt.Sprintf("folder|%s|%d||false", d.Name, d.Parent)
	}
	return fmt.Sprintf("dashboard|%s|%d|%s|%v", d.Name, d.Parent, d.Desc, d.Fav)
}

func genDash(r *vhlib.Rng, n int, xtenant bool) []*scenario {
	names := []string{"d", "d", "dash 1", "ü/✓", "x\"y", "Root", "d.2", "A", "a"}
	orgs := []int64{0, 3}
	var scs []*scenario
	for i := 0; i < n; i++ {
		var ops []kOp
		cuts := map[int]bool{}
		next := 1
		var drefs, frefs []int
		// type-correct references: dashboard operations get dashboard ids, folder operations folder ids
		// (99 = an id that was never created).  Using one API with the other kind's id is accepted by
		// the implementation (no type check) and is kept out of the generated scenarios, see notes/C20.md.
		pick := func(l []int) int {
			if len(l) == 0 || r.Chance(5) {
				return 99
			}
			return vhlib.Pick(r, l)
		}
		pickD := func() int { return pick(drefs) }
		pickF := func() int { return pick(frefs) }
		owner := map[int]int64{}
		l := r.Range(8, 26)
		for k := 0; k < l; k++ {
			org := vhlib.Pick(r, orgs)
			par := 0
			if r.Chance(40) {
				par = pickF()
			}
			switch x := r.Intn(100); {
			case x < 18:
				ops = append(ops, kOp{Op: "dcreate", Org: org, Name: vhlib.Pick(r, names), Desc: vhlib.Pick(r, oddStrings), Parent: par, NewRef: next})
				drefs, owner[next] = append(drefs, next), org
				next++
			case x < 30:
				ops = append(ops, kOp{Op: "fcreate", Org: org, Name: vhlib.Pick(r, names), Parent: par, NewRef: next})
				frefs, owner[next] = append(frefs, next), org
				next++
			case x < 42:
				p := 0
				if r.Chance(35) {
					p = pickF()
					if r.Chance(20) {
						p = -1
					}
				}
				ops = append(ops, kOp{Op: "dupdate", Org: org, Ref: pickD(), Name: vhlib.Pick(r, names), Desc: vhlib.Pick(r, oddStrings), Note: vhlib.Pick(r, oddStrings), Parent: p})
			case x < 48:
				ops = append(ops, kOp{Op: "ddelete", Org: org, Ref: pickD()})
			case x < 55:
				ops = append(ops, kOp{Op: "dfav", Org: org, Ref: pickD()})
			case x < 63:
				p, nm := 0, ""
				if r.Chance(50) {
					nm = vhlib.Pick(r, names)
				}
				if nm == "" || r.Chance(40) {
					p = pickF()
					if r.Chance(20) {
						p = -1
					}
				}
				ops = append(ops, kOp{Op: "fupdate", Org: org, Ref: pickF(), Name: nm, Parent: p})
			case x < 68:
				ops = append(ops, kOp{Op: "fdelete", Org: org, Ref: pickF()})
			case x < 80:
				ops = append(ops, kOp{Op: "dget", Org: org, Ref: pickD()})
			case x < 94:
				ops = append(ops, kOp{Op: "list", Org: org})
			default:
				rf := -1
				if r.Chance(60) {
					rf = pickF()
				}
				ops = append(ops, kOp{Op: "contents", Org: org, Ref: rf})
			}
			// operations use the tenant that owns the object unless this is the cross-tenant stream
			last := &ops[len(ops)-1]
			if last.Ref > 0 && last.Ref != 99 {
				if !xtenant || !r.Chance(50) {
					last.Org = owner[last.Ref]
				}
			}
			if !xtenant && last.Parent > 0 && last.Parent != 99 && last.Ref == 0 {
				last.Org = owner[last.Parent]
			}
			if r.Chance(10) {
				cuts[len(ops)] = true
			}
		}
		cuts[len(ops)] = r.Chance(70)
		for _, o := range orgs {
			ops = append(ops, kOp{Op: "list", Org: o})
		}
		cl := "main"
		if xtenant {
			cl = "cross_tenant_by_id"
		}
		scs = append(scs, &scenario{Store: "dash", Class: cl, Orgs: orgs, Segs: splitSegs(ops, cuts)})
	}
	return scs
}

// genDashTree: dashboards and folders as a TREE.  Nested folders (depth 2..5), dashboards at any depth,
// then renames and moves of folders at every level (ancestors of dashboards preferred), moves and
// saves of dashboards, deletes, restarts — and a read of a dashboard after (almost) every write, so
// that a read meets every kind of change ABOVE the dashboard's own folder without a save in between.
//   stream "tree":            every folder name is introduced once per scenario and has no '/';
//   stream "tree_path_reuse": names are reused / contain '/', so that a changed chain of folders can
//                             have the path STRING the dashboard already stores (class repaired).
// In both, all of folder id / name / path / breadcrumbs of every read must be what the tree gives
// (C20_dash_tree_read_current).
func genDashTree(r *vhlib.Rng, n int, stream string) []*scenario {
	orgs := []int64{0, 3}
	bases := []string{"f", "Ordner ü", "x\"y", "d.", "A b", "Root", "漢", "q?&", "-"}
	pool := []string{"a", "b", "a/b", "c", "b/c"}
	dnames := []string{"d", "dash 1", "ü/✓", "D"}
	type node struct {
		folder bool
		parent int
		org    int64
	}
	var scs []*scenario
	for i := 0; i < n; i++ {
		var ops []kOp
		cuts := map[int]bool{}
		next, cnt := 1, 0
		nodes := map[int]*node{}
		fresh := func() string {
			if stream == "tree_path_reuse" {
				return vhlib.Pick(r, pool)
			}
			cnt++
			return fmt.Sprintf("%s%d", vhlib.Pick(r, bases), cnt)
		}
		dname := func() string {
			if r.Chance(12) {
				return vhlib.Pick(r, dnames)
			}
			cnt++
			return fmt.Sprintf("%s %d", vhlib.Pick(r, dnames), cnt)
		}
		sel := func(org int64, folder bool) []int {
			var l []int
			for rf, x := range nodes {
				if x.org == org && x.folder == folder {
					l = append(l, rf)
				}
			}
			sort.Ints(l)
			return l
		}
		depth := func(rf int) int {
			d := 0
			for cur := rf; cur != 0 && d < 50; d++ {
				cur = nodes[cur].parent
			}
			return d
		}
		below := func(q, f int) bool { // q is f or a descendant of f
			for cur, k := q, 0; cur != 0 && k < 50; k++ {
				if cur == f {
					return true
				}
				cur = nodes[cur].parent
			}
			return false
		}
		par := func(p int) int { // kOp.Parent encoding
			if p == 0 {
				return -1
			}
			return p
		}
		mkFolder := func(org int64, p int) int {
			pp := p
			if p == 0 && r.Bool() {
				pp = 0 // parentId omitted = root
			} else {
				pp = par(p)
			}
			ops = append(ops, kOp{Op: "fcreate", Org: org, Name: fresh(), Parent: pp, NewRef: next})
			nodes[next] = &node{folder: true, parent: p, org: org}
			next++
			return next - 1
		}
		mkDash := func(org int64, p int) int {
			pp := par(p)
			if p == 0 && r.Bool() {
				pp = 0
			}
			ops = append(ops, kOp{Op: "dcreate", Org: org, Name: dname(), Desc: vhlib.Pick(r, oddStrings), Parent: pp, NewRef: next})
			nodes[next] = &node{parent: p, org: org}
			next++
			return next - 1
		}
		// a dashboard, deep ones preferred
		pickDash := func(org int64) int {
			ds := sel(org, false)
			if len(ds) == 0 {
				return 99
			}
			best := vhlib.Pick(r, ds)
			for t := 0; t < 2; t++ {
				if c := vhlib.Pick(r, ds); depth(c) > depth(best) {
					best = c
				}
			}
			return best
		}
		// a folder; 70%: an ancestor-or-self of the parent of some dashboard
		pickFolder := func(org int64) int {
			fs := sel(org, true)
			if len(fs) == 0 {
				return 99
			}
			if r.Chance(70) {
				if d := pickDash(org); d != 99 {
					var anc []int
					for cur, k := nodes[d].parent, 0; cur != 0 && k < 50; k++ {
						anc = append(anc, cur)
						cur = nodes[cur].parent
					}
					if len(anc) > 0 {
						return vhlib.Pick(r, anc)
					}
				}
			}
			return vhlib.Pick(r, fs)
		}
		kill := func(f int) {
			for changed := true; changed; {
				changed = false
				for rf, x := range nodes {
					if rf != f && (x.parent == f || nodes[x.parent] == nil && x.parent != 0) {
						delete(nodes, rf)
						changed = true
					}
				}
			}
			delete(nodes, f)
		}
		// ---- build: per tenant a chain of folders, side folders, dashboards at several depths
		for _, org := range orgs {
			p := 0
			var chain []int
			for d, dd := 0, r.Range(2, 4); d < dd; d++ {
				p = mkFolder(org, p)
				chain = append(chain, p)
			}
			for e, ee := 0, r.Range(1, 3); e < ee; e++ {
				q := 0
				if r.Chance(70) {
					q = vhlib.Pick(r, sel(org, true))
				}
				mkFolder(org, q)
			}
			mkDash(org, chain[len(chain)-1])
			for e, ee := 0, r.Range(1, 2); e < ee; e++ {
				q := 0
				if r.Chance(85) {
					q = vhlib.Pick(r, sel(org, true))
				}
				mkDash(org, q)
			}
			if r.Chance(50) {
				ops = append(ops, kOp{Op: "dget", Org: org, Ref: pickDash(org)})
			}
		}
		// ---- change the tree, read after the writes
		for k, l := 0, r.Range(14, 30); k < l; k++ {
			org := vhlib.Pick(r, orgs)
			write := true
			switch x := r.Intn(100); {
			case x < 22: // rename a folder
				ops = append(ops, kOp{Op: "fupdate", Org: org, Ref: pickFolder(org), Name: fresh()})
			case x < 44: // move a folder (10%: below itself, must be rejected)
				f, q := pickFolder(org), 0
				if fs := sel(org, true); len(fs) > 0 && r.Chance(80) {
					q = vhlib.Pick(r, fs)
				}
				nm := ""
				if r.Chance(18) {
					nm = fresh()
				}
				ops = append(ops, kOp{Op: "fupdate", Org: org, Ref: f, Name: nm, Parent: par(q)})
				if f != 99 && !below(q, f) {
					nodes[f].parent = q
				}
			case x < 52: // save a dashboard, possibly into another folder
				d, q := pickDash(org), 0
				pp := 0
				if r.Chance(60) {
					if fs := sel(org, true); len(fs) > 0 && r.Chance(80) {
						q = vhlib.Pick(r, fs)
					}
					pp = par(q)
					if d != 99 {
						nodes[d].parent = q
					}
				}
				ops = append(ops, kOp{Op: "dupdate", Org: org, Ref: d, Name: dname(), Desc: vhlib.Pick(r, oddStrings), Note: vhlib.Pick(r, oddStrings), Parent: pp})
			case x < 55:
				ops = append(ops, kOp{Op: "dfav", Org: org, Ref: pickDash(org)})
			case x < 58:
				f := pickFolder(org)
				ops = append(ops, kOp{Op: "fdelete", Org: org, Ref: f})
				if f != 99 {
					kill(f)
				}
			case x < 60:
				d := pickDash(org)
				ops = append(ops, kOp{Op: "ddelete", Org: org, Ref: d})
				delete(nodes, d)
			case x < 66:
				q := 0
				if fs := sel(org, true); len(fs) > 0 && r.Chance(85) {
					q = vhlib.Pick(r, fs)
				}
				mkFolder(org, q)
			case x < 72:
				q := 0
				if fs := sel(org, true); len(fs) > 0 && r.Chance(90) {
					q = vhlib.Pick(r, fs)
				}
				mkDash(org, q)
			case x < 76:
				ops, write = append(ops, kOp{Op: "list", Org: org}), false
			case x < 82:
				rf := -1
				if r.Chance(75) {
					rf = pickFolder(org)
				}
				ops, write = append(ops, kOp{Op: "contents", Org: org, Ref: rf}), false
			default:
				ops, write = append(ops, kOp{Op: "dget", Org: org, Ref: pickDash(org)}), false
			}
			if r.Chance(8) {
				cuts[len(ops)] = true
			}
			if write && r.Chance(60) {
				ops = append(ops, kOp{Op: "dget", Org: org, Ref: pickDash(org)})
			}
		}
		// ---- every dashboard read at the end, before and after a listing and after a restart
		readAll := func() {
			for _, org := range orgs {
				for _, d := range sel(org, false) {
					ops = append(ops, kOp{Op: "dget", Org: org, Ref: d})
				}
			}
		}
		readAll()
		for _, o := range orgs {
			ops = append(ops, kOp{Op: "list", Org: o})
		}
		cuts[len(ops)] = r.Chance(70)
		readAll()
		scs = append(scs, &scenario{Store: "dash", Class: stream, Orgs: orgs, Segs: splitSegs(ops, cuts)})
	}
	return scs
}

// genDashPathReuse: directed scenarios of the repaired class "stored path string still matches although
// the chain of folders changed" (refreshFolderMetadata compared path strings only), each below a
// random prefix of folders and with a restart at a random position.
func genDashPathReuse(r *vhlib.Rng, n int) []*scenario {
	var scs []*scenario
	for i := 0; i < n; i++ {
		org := vhlib.Pick(r, []int64{0, 3})
		var ops []kOp
		next := 1
		mkF := func(name string, p int) int {
			ops = append(ops, kOp{Op: "fcreate", Org: org, Name: name, Parent: p, NewRef: next})
			next++
			return next - 1
		}
		mkD := func(p int) int {
			ops = append(ops, kOp{Op: "dcreate", Org: org, Name: "D", Desc: "d", Parent: p, NewRef: next})
			next++
			return next - 1
		}
		top := -1
		for d, dd := 0, r.Intn(3); d < dd; d++ {
			top = mkF(fmt.Sprintf("pre%d", d), top)
		}
		var d int
		switch i % 3 {
		case 0: // same names, other folder: x/p -> (x renamed y; new x) -> p moved into the new x
			x := mkF("x", top)
			p := mkF("p", x)
			d = mkD(p)
			ops = append(ops, kOp{Op: "dget", Org: org, Ref: d})
			ops = append(ops, kOp{Op: "fupdate", Org: org, Ref: x, Name: "y"})
			x2 := mkF("x", top)
			ops = append(ops, kOp{Op: "fupdate", Org: org, Ref: p, Parent: x2})
		case 1: // '/' in names: X > "a/b"  ->  "X/a" > "b"
			a := mkF("X", top)
			b := mkF("a/b", a)
			d = mkD(b)
			ops = append(ops, kOp{Op: "fupdate", Org: org, Ref: a, Name: "X/a"})
			ops = append(ops, kOp{Op: "fupdate", Org: org, Ref: b, Name: "b"})
		default: // '/' in names: "u/v" > q  ->  u > v > q
			s := mkF("u/v", top)
			u := mkF("u", top)
			vv := mkF("v", u)
			q := mkF("q", s)
			d = mkD(q)
			ops = append(ops, kOp{Op: "fupdate", Org: org, Ref: q, Parent: vv})
		}
		cuts := map[int]bool{}
		if r.Chance(60) {
			cuts[r.Range(1, len(ops))] = true
		}
		ops = append(ops, kOp{Op: "dget", Org: org, Ref: d}, kOp{Op: "list", Org: org}, kOp{Op: "dget", Org: org, Ref: d})
		scs = append(scs, &scenario{Store: "dash", Class: "tree_path_reuse", Orgs: []int64{0, 3}, Segs: splitSegs(ops, cuts)})
	}
	return scs
}

type crumb struct {
	Ref  int
	Name string
}

func sameCrumbs(a, b []crumb) bool {
	if len(a) != len(b) {
		return false
	}
	for i := range a {
		if a[i] != b[i] {
			return false
		}
	}
	return true
}

func crumbStr(c []crumb) string {
	p := make([]string, len(c))
	for i, x := range c {
		p[i] = fmt.Sprintf("%d:%q", x.Ref, x.Name)
	}
	return "[" + strings.Join(p, " > ") + "]"
}

func coqCrumbs(c []crumb) string {
	p := make([]string, len(c))
	for i, x := range c {
		p[i] = fmt.Sprintf("(%d, %s)", x.Ref, vhlib.CoqStr(x.Name))
	}
	return vhlib.CoqList(p)
}

func maxInt(a, b int) int {
	if a > b {
		return a
	}
	return b
}

// treeHistory: the accepted tree operations of one tenant up to (and without) operation k, readable
func treeHistory(sc *scenario, k int, org int64) string {
	var sb strings.Builder
	par := func(p int) string {
		switch p {
		case 0:
			return ""
		case -1:
			return " parent=root"
		}
		return fmt.Sprintf(" parent=%d", p)
	}
	for j, f := range sc.flat() {
		if j >= k {
			break
		}
		if f.Restart {
			sb.WriteString("RESTART; ")
		}
		if f.Org != org || j >= len(sc.res) || sc.res[j].Status != 200 {
			continue
		}
		switch f.Op {
		case "fcreate":
			fmt.Fprintf(&sb, "folder %d=%q%s; ", f.NewRef, f.Name, par(f.Parent))
		case "dcreate":
			fmt.Fprintf(&sb, "dashboard %d=%q%s; ", f.NewRef, f.Name, par(f.Parent))
		case "fupdate":
			fmt.Fprintf(&sb, "update folder %d name=%q%s; ", f.Ref, f.Name, par(f.Parent))
		case "dupdate":
			fmt.Fprintf(&sb, "save dashboard %d name=%q%s; ", f.Ref, f.Name, par(f.Parent))
		case "ddelete", "fdelete":
			fmt.Fprintf(&sb, "%s %d; ", f.Op, f.Ref)
		case "dget":
			fmt.Fprintf(&sb, "get %d; ", f.Ref)
		case "list":
			sb.WriteString("list; ")
		}
	}
	return sb.String()
}

func checkDash(sc *scenario, sum *vhlib.Summary) *verdict {
	v := &verdict{tops: map[int64][]string{}, tobs: map[int64][]string{}}
	items := map[int]*dItem{}
	rev := map[string]int{"root-folder": 0}
	for ref, id := range sc.ids {
		rev[id] = ref
	}
	restarted := false
	fail := func(class, detail string, k int) {
		v.fails++
		sum.Fail(class, detail, map[string]interface{}{"scenario": sc, "failing_op_index": k})
	}
	// ---- the tree: what the last accepted writes determine for a folder (name, path, breadcrumbs)
	treeStream := strings.HasPrefix(sc.Class, "tree")
	tput := func(org int64, op, ob string) {
		if treeStream {
			v.tops[org], v.tobs[org] = append(v.tops[org], op), append(v.tobs[org], ob)
		}
	}
	refOf := func(id string) int {
		if r, ok := rev[id]; ok {
			return r
		}
		return 999999
	}
	// chain of folders from the root (exclusive) down to p
	chainOf := func(p int) []crumb {
		var c []crumb
		for cur, n := p, 0; cur != 0 && n < 100; n++ {
			it := items[cur]
			if it == nil {
				break
			}
			c = append([]crumb{{cur, it.Name}}, c...)
			cur = it.Parent
		}
		return c
	}
	pathOf := func(c []crumb) string {
		ns := make([]string, len(c))
		for i, x := range c {
			ns[i] = x.Name
		}
		return strings.Join(ns, "/")
	}
	crumbsOf := func(p int) []crumb { return append([]crumb{{0, "Root"}}, chainOf(p)...) }
	folderName := func(p int) string {
		if p == 0 {
			return "Root"
		}
		if it := items[p]; it != nil {
			return it.Name
		}
		return ""
	}
	optName := func(s string) string {
		if s == "" {
			return "None"
		}
		return "(Some " + vhlib.CoqStr(s) + ")"
	}
	optPar := func(p int) string {
		if p == 0 {
			return "None"
		}
		if p == -1 {
			return "(Some 0)"
		}
		return fmt.Sprintf("(Some %d)", p)
	}
	cls := func(base string) string {
		if restarted {
			return base + "_after_restart"
		}
		return base
	}
	put := func(ref int) {
		v.ops = append(v.ops, fmt.Sprintf("Put %d %s %s", items[ref].Org, vhlib.CoqStr(fmt.Sprint(ref)), vhlib.CoqStr(items[ref].val())))
		v.obs = append(v.obs, "OAck true")
	}
	del := func(ref int, org int64) {
		v.ops = append(v.ops, fmt.Sprintf("Del %d %s", org, vhlib.CoqStr(fmt.Sprint(ref))))
		v.obs = append(v.obs, "OAck true")
	}
	parentOf := func(p int) int {
		if p == -1 {
			return 0
		}
		return p
	}
	for k, f := range sc.flat() {
		if f.Restart {
			v.ops, v.obs = append(v.ops, "Restart"), append(v.obs, "OAck true")
			for _, o := range sc.Orgs {
				tput(o, "DRestart", "DAck")
			}
			restarted = true
		}
		res := sc.res[k]
		ok := res.Status == 200
		it := items[f.Ref]
		foreign := it != nil && it.Org != f.Org
		switch f.Op {
		case "dcreate", "fcreate":
			if ok {
				typ := "dashboard"
				if f.Op == "fcreate" {
					typ = "folder"
				}
				if _, have := sc.ids[f.NewRef]; !have {
					fail("dashboard_create_returned_no_id", res.Body, k)
					return v
				}
				items[f.NewRef] = &dItem{Typ: typ, Name: f.Name, Parent: parentOf(f.Parent), Desc: f.Desc, Org: f.Org}
				if typ == "folder" {
					items[f.NewRef].Desc = ""
					tput(f.Org, fmt.Sprintf("MkFolder %d %s %d", f.NewRef, vhlib.CoqStr(f.Name), parentOf(f.Parent)), "DAck")
				} else {
					tput(f.Org, fmt.Sprintf("MkDash %d %s %d", f.NewRef, vhlib.CoqStr(f.Name), parentOf(f.Parent)), "DAck")
				}
				put(f.NewRef)
				restarted = false
			}
		case "dupdate":
			if ok && foreign {
				fail("dashboard_cross_tenant_update_by_id", fmt.Sprintf("tenant %d updated dashboard %d of tenant %d", f.Org, f.Ref, it.Org), k)
				return v
			}
			if ok && (it == nil || it.Typ != "dashboard") {
				// the implementation accepted an update of something that is not a stored dashboard
				fail(cls("dashboard_update_of_missing_object_acknowledged"), fmt.Sprintf("ref %d: %s", f.Ref, res.Body), k)
				return v
			}
			if ok {
				it.Name, it.Desc, it.Note, it.Fav = f.Name, f.Desc, f.Note, false
				if f.Parent != 0 {
					it.Parent = parentOf(f.Parent)
				}
				tput(f.Org, fmt.Sprintf("UpdDash %d %s %s", f.Ref, vhlib.CoqStr(f.Name), optPar(f.Parent)), "DAck")
				put(f.Ref)
				restarted = false
			}
		case "ddelete":
			if ok && foreign {
				fail("dashboard_cross_tenant_delete_by_id", fmt.Sprintf("tenant %d deleted dashboard %d of tenant %d", f.Org, f.Ref, it.Org), k)
				return v
			}
			if ok && it == nil {
				fail(cls("dashboard_delete_of_missing_object_acknowledged"), fmt.Sprintf("ref %d", f.Ref), k)
				return v
			}
			if ok {
				delete(items, f.Ref)
				del(f.Ref, f.Org)
				tput(f.Org, fmt.Sprintf("DelDash %d", f.Ref), "DAck")
				restarted = false
			}
		case "dfav":
			if ok && foreign {
				fail("dashboard_cross_tenant_favorite_by_id", fmt.Sprintf("tenant %d toggled the favourite flag of dashboard %d (id %s) of tenant %d: %s", f.Org, f.Ref, sc.ids[f.Ref], it.Org, res.Body), k)
				return v
			}
			if ok && it == nil {
				fail(cls("dashboard_favorite_of_missing_object_acknowledged"), fmt.Sprintf("ref %d", f.Ref), k)
				return v
			}
			if ok {
				it.Fav = !it.Fav
				var r map[string]bool
				_ = json.Unmarshal([]byte(res.Body), &r)
				if r["isFavorite"] != it.Fav {
					fail(cls("dashboard_favorite_differs"), fmt.Sprintf("ref %d: answer %s, expected %v", f.Ref, res.Body, it.Fav), k)
					return v
				}
				put(f.Ref)
				restarted = false
			}
		case "fupdate":
			if ok && (it == nil || it.Typ != "folder" || foreign) {
				fail(cls("folder_update_of_missing_object_acknowledged"), fmt.Sprintf("ref %d", f.Ref), k)
				return v
			}
			if ok {
				if f.Name != "" {
					it.Name = f.Name
				}
				if f.Parent != 0 {
					it.Parent = parentOf(f.Parent)
				}
				tput(f.Org, fmt.Sprintf("UpdFolder %d %s %s", f.Ref, optName(f.Name), optPar(f.Parent)), "DAck")
				put(f.Ref)
				restarted = false
			}
		case "fdelete":
			if ok && (it == nil || it.Typ != "folder" || foreign) {
				fail(cls("folder_delete_of_missing_object_acknowledged"), fmt.Sprintf("ref %d", f.Ref), k)
				return v
			}
			if ok {
				// the folder and everything below it
				dead := map[int]bool{f.Ref: true}
				for changed := true; changed; {
					changed = false
					for r2, x := range items {
						if !dead[r2] && dead[x.Parent] && x.Org == f.Org {
							dead[r2], changed = true, true
						}
					}
				}
				var ds []int
				for r2 := range dead {
					ds = append(ds, r2)
				}
				sort.Ints(ds)
				for _, r2 := range ds {
					delete(items, r2)
					del(r2, f.Org)
				}
				tput(f.Org, fmt.Sprintf("DelFolder %d", f.Ref), "DAck")
				restarted = false
			}
		case "dget":
			if foreign {
				if ok {
					fail("dashboard_cross_tenant_read_by_id", fmt.Sprintf("tenant %d read dashboard %d (id %s) of tenant %d", f.Org, f.Ref, sc.ids[f.Ref], it.Org), k)
					return v
				}
				continue
			}
			if it == nil || it.Typ != "dashboard" {
				if ok {
					fail(cls("dashboard_read_of_deleted_object"), fmt.Sprintf("ref %d: %s", f.Ref, res.Body), k)
					return v
				}
				v.ops = append(v.ops, fmt.Sprintf("Get %d %s", f.Org, vhlib.CoqStr(fmt.Sprint(f.Ref))))
				v.obs = append(v.obs, "OVal None")
				tput(f.Org, fmt.Sprintf("GetDash %d", f.Ref), "DInfo None")
				continue
			}
			var d map[string]interface{}
			_ = json.Unmarshal([]byte(res.Body), &d)
			got := dItem{Typ: "dashboard", Org: f.Org}
			got.Name, _ = d["name"].(string)
			got.Desc, _ = d["description"].(string)
			got.Note, _ = d["note"].(string)
			got.Fav, _ = d["isFavorite"].(bool)
			got.Parent = -7
			var gotFName, gotPath string
			var gotCrumbs []crumb
			if fo, _ := d["folder"].(map[string]interface{}); fo != nil {
				if id, _ := fo["id"].(string); id != "" {
					if p, okp := rev[id]; okp {
						got.Parent = p
					}
				}
				gotFName, _ = fo["name"].(string)
				gotPath, _ = fo["path"].(string)
				if bc, _ := fo["breadcrumbs"].([]interface{}); bc != nil {
					for _, b := range bc {
						if bm, _ := b.(map[string]interface{}); bm != nil {
							bid, _ := bm["id"].(string)
							bn, _ := bm["name"].(string)
							gotCrumbs = append(gotCrumbs, crumb{refOf(bid), bn})
						}
					}
				}
			}
			if !ok || got.val() != it.val() || got.Note != it.Note {
				fail(cls("dashboard_read_differs_from_last_write"), fmt.Sprintf("get ref %d tenant %d: status %d, read %q note %q; last written %q note %q", f.Ref, f.Org, res.Status, got.val(), got.Note, it.val(), it.Note), k)
				return v
			}
			// the place of the dashboard in the tree: parent folder's name, path and breadcrumbs are
			// determined by the last writes to the dashboard's folder AND to every ancestor of it
			wantCrumbs := crumbsOf(it.Parent)
			wantPath, wantFName := pathOf(chainOf(it.Parent)), folderName(it.Parent)
			hist := func() string { return treeHistory(sc, k, f.Org) }
			if gotPath != wantPath {
				fail(cls("dashboard_folder_path_differs_from_tree"), fmt.Sprintf("get dashboard %d (tenant %d, folder %d, depth %d): folder.path %q breadcrumbs %s; the folder tree last written gives path %q breadcrumbs %s; history: %s",
					f.Ref, f.Org, it.Parent, len(wantCrumbs)-1, gotPath, crumbStr(gotCrumbs), wantPath, crumbStr(wantCrumbs), hist()), k)
				return v
			}
			if gotFName != wantFName || !sameCrumbs(gotCrumbs, wantCrumbs) {
				// same path STRING, other folder name or other chain of folders
				detail := fmt.Sprintf("get dashboard %d (tenant %d, folder %d): folder.name %q breadcrumbs %s with path %q; the folder tree last written gives name %q breadcrumbs %s (same path string); history: %s",
					f.Ref, f.Org, it.Parent, gotFName, crumbStr(gotCrumbs), gotPath, wantFName, crumbStr(wantCrumbs), hist())
				if sc.Class == "tree" {
					// folder names are never reused in this stream: equal path strings mean equal chains
					fail(cls("dashboard_folder_breadcrumbs_differ_from_tree"), detail, k)
				} else {
					// names are reused / contain '/': another chain of folders spells the stored path string
					// (repaired: refreshFolderMetadata compares the whole stored folder info; a regression
					// is a VIOLATION of this class)
					fail("dashboard_folder_info_stale_while_path_string_unchanged", detail, k)
				}
				return v
			}
			tput(f.Org, fmt.Sprintf("GetDash %d", f.Ref), fmt.Sprintf("DInfo (Some (mkInfo %d %s %s %s))", maxInt(got.Parent, 0), vhlib.CoqStr(gotFName), vhlib.CoqStr(gotPath), coqCrumbs(gotCrumbs)))
			v.ops = append(v.ops, fmt.Sprintf("Get %d %s", f.Org, vhlib.CoqStr(fmt.Sprint(f.Ref))))
			v.obs = append(v.obs, "OVal (Some "+vhlib.CoqStr(got.val())+")")
		case "list":
			var lr struct {
				Items []struct {
					ID, Name, Type, ParentId, Description string
					ParentName, FullPath                  string
					IsStarred                             bool
				} `json:"items"`
			}
			_ = json.Unmarshal([]byte(res.Body), &lr)
			got := map[string]string{}
			gotPlace, rows := map[int][2]string{}, map[int]string{}
			for _, x := range lr.Items {
				rf, okr := rev[x.ID]
				p, okp := rev[x.ParentId]
				if !okr || !okp {
					got["unknown:"+x.ID] = x.Name
					continue
				}
				g := dItem{Typ: x.Type, Name: x.Name, Parent: p, Desc: x.Description, Fav: x.IsStarred}
				got[fmt.Sprint(rf)] = g.val()
				gotPlace[rf] = [2]string{x.ParentName, x.FullPath}
				rows[rf] = fmt.Sprintf("(%d, (%s, %v, %d, %s, %s))", rf, vhlib.CoqStr(x.Name), x.Type == "folder", p, vhlib.CoqStr(x.ParentName), vhlib.CoqStr(x.FullPath))
			}
			want := map[string]string{}
			for rf, x := range items {
				if x.Org == f.Org {
					want[fmt.Sprint(rf)] = x.val()
				}
			}
			if !ok || !sameMap(got, want) {
				fail(cls("dashboard_list_differs_from_last_write"), fmt.Sprintf("list tenant %d: status %d, listed %v; last written %v", f.Org, res.Status, got, want), k)
				return v
			}
			// parent name and full path of every listed item against the tree last written
			var lrefs []int
			for rf := range gotPlace {
				lrefs = append(lrefs, rf)
			}
			sort.Ints(lrefs)
			for _, rf := range lrefs {
				x := items[rf]
				wantPN := ""
				if x.Parent != 0 {
					wantPN = folderName(x.Parent)
				}
				wantFP := pathOf(append(chainOf(x.Parent), crumb{rf, x.Name}))
				if gotPlace[rf] != [2]string{wantPN, wantFP} {
					fail(cls("dashboard_list_path_differs_from_tree"), fmt.Sprintf("list tenant %d: item %d (%s) listed with parent name %q full path %q; the folder tree last written gives %q %q; history: %s",
						f.Org, rf, x.Typ, gotPlace[rf][0], gotPlace[rf][1], wantPN, wantFP, treeHistory(sc, k, f.Org)), k)
					return v
				}
			}
			lrows := make([]string, 0, len(lrefs))
			for _, rf := range lrefs {
				lrows = append(lrows, rows[rf])
			}
			tput(f.Org, "ListAll", "DList "+vhlib.CoqList(lrows))
			v.ops = append(v.ops, fmt.Sprintf("ListAll %d", f.Org))
			v.obs = append(v.obs, "OList "+coqKVList(got))
		case "contents":
			folder := parentOf(f.Ref)
			if f.Ref != -1 && (it == nil || it.Typ != "folder" || foreign) {
				if ok && (it == nil || foreign) {
					fail(cls("folder_read_of_missing_object"), fmt.Sprintf("ref %d", f.Ref), k)
					return v
				}
				continue
			}
			var cr struct {
				Items       []struct{ ID, Name, Type string } `json:"items"`
				Breadcrumbs []struct{ ID, Name string }       `json:"breadcrumbs"`
			}
			_ = json.Unmarshal([]byte(res.Body), &cr)
			got, want := map[string]string{}, map[string]string{}
			var children []string
			for _, x := range cr.Items {
				got[fmt.Sprint(rev[x.ID])] = x.Type + "|" + x.Name
				children = append(children, fmt.Sprintf("(%d, (%v, %s))", refOf(x.ID), x.Type == "folder", vhlib.CoqStr(x.Name)))
			}
			for rf, x := range items {
				if x.Org == f.Org && x.Parent == folder {
					want[fmt.Sprint(rf)] = x.Typ + "|" + x.Name
				}
			}
			if !ok || !sameMap(got, want) {
				fail(cls("folder_contents_differ_from_last_write"), fmt.Sprintf("contents of %d tenant %d: status %d, %v; expected %v", f.Ref, f.Org, res.Status, got, want), k)
				return v
			}
			var gotCrumbs []crumb
			for _, b := range cr.Breadcrumbs {
				gotCrumbs = append(gotCrumbs, crumb{refOf(b.ID), b.Name})
			}
			if wantCrumbs := crumbsOf(folder); !sameCrumbs(gotCrumbs, wantCrumbs) {
				fail(cls("folder_breadcrumbs_differ_from_tree"), fmt.Sprintf("contents of folder %d tenant %d: breadcrumbs %s; the folder tree last written gives %s; history: %s",
					folder, f.Org, crumbStr(gotCrumbs), crumbStr(wantCrumbs), treeHistory(sc, k, f.Org)), k)
				return v
			}
			tput(f.Org, fmt.Sprintf("Contents %d", folder), fmt.Sprintf("DCont %s %s", vhlib.CoqList(children), coqCrumbs(gotCrumbs)))
		}
	}
	return v
}

// ---------------------------------------------------------------- index aliases

var aliasIdxs = []string{"i1", "idx-2", "a.b", "weird name", "üx"}
var aliasAls = []string{"al1", "al-2", "i1", "ü2", "al 3"}

func genAlias(r *vhlib.Rng, n int, stream string) []*scenario {
	idxs, als := aliasIdxs, aliasAls
	names := append(append([]string{}, idxs...), als...)
	orgs := []int64{0, 5}
	var scs []*scenario
	mk := func(ops []kOp, cuts map[int]bool, clean []bool) {
		scs = append(scs, &scenario{Store: "alias", Class: stream, Orgs: orgs, Names: names, Segs: splitSegs(ops, cuts), Clean: clean})
	}
	if stream == "alias_restart" {
		mk([]kOp{{Op: "aadd", Name: "i1", Alias: "al1"}, {Op: "aisalias", Alias: "al1"}, {Op: "aisalias", Alias: "al1"}, {Op: "agetidx", Name: "i1"}}, map[int]bool{2: true}, nil)
	}
	if stream == "alias_shutdown" {
		mk([]kOp{{Op: "aadd", Name: "i1", Alias: "al1"}, {Op: "agetidx", Name: "al1"}, {Op: "agetidx", Name: "al1"}, {Op: "agetidx", Name: "i1"}}, map[int]bool{2: true}, []bool{true})
	}
	for i := 0; i < n; i++ {
		var ops []kOp
		cuts := map[int]bool{}
		if stream == "shared" {
			// DIRECTED: one alias shared by 2-3 indexes, removed from one of them, then from the
			// others down to an index's LAST alias; every step is followed by the full snapshot of
			// all read functions (taken by the worker after each operation), and a restart is put
			// at a random step so that the reads happen before and after it
			al := vhlib.Pick(r, als)
			k := r.Range(2, 3)
			perm := append([]string{}, idxs...)
			for a := len(perm) - 1; a > 0; a-- {
				b := r.Intn(a + 1)
				perm[a], perm[b] = perm[b], perm[a]
			}
			sh := perm[:k]
			for _, ix := range sh {
				ops = append(ops, kOp{Op: "aadd", Name: ix, Alias: al})
			}
			if r.Chance(60) { // one of the indexes also has a second alias, so that one removal is not a last-alias removal
				other := vhlib.Pick(r, als)
				ops = append(ops, kOp{Op: "aadd", Name: sh[r.Intn(k)], Alias: other})
			}
			cutAt := -1
			if r.Chance(60) {
				cutAt = r.Intn(k + 1)
			}
			for a, ix := range sh {
				if a == cutAt {
					cuts[len(ops)] = true
					// after a restart the reverse map of tenant 0 is empty (known finding): re-establish
					// the pairs that are still stored by a further add on each index, so that the
					// removals below are again observable through the reverse lookups
					for _, jx := range sh[a:] {
						ops = append(ops, kOp{Op: "aadd", Name: jx, Alias: "re-" + al})
					}
				}
				ops = append(ops, kOp{Op: "aremove", Name: ix, Alias: al})
				ops = append(ops, kOp{Op: "aisalias", Alias: al})
			}
			if cutAt == k {
				cuts[len(ops)] = true
			}
			ops = append(ops, kOp{Op: "agetidx", Name: sh[0]})
		}
		l := r.Range(6, 20)
		if stream == "shared" {
			l = r.Range(0, 8)
		}
		for k := 0; k < l; k++ {
			org := int64(0)
			if r.Chance(20) {
				org = 5
			}
			// a small alias pool makes shared aliases frequent
			ap := als
			if stream == "shared" || r.Chance(50) {
				ap = als[:2]
			}
			switch x := r.Intn(100); {
			case x < 35:
				op := "aadd"
				if r.Chance(25) {
					op = "aaddpost"
				}
				ops = append(ops, kOp{Op: op, Org: org, Name: vhlib.Pick(r, idxs), Alias: vhlib.Pick(r, ap)})
			case x < 55:
				ops = append(ops, kOp{Op: "aremove", Org: org, Name: vhlib.Pick(r, idxs), Alias: vhlib.Pick(r, ap)})
			case x < 78:
				ops = append(ops, kOp{Op: "agetidx", Org: org, Name: vhlib.Pick(r, append(idxs, als...))})
			default:
				ops = append(ops, kOp{Op: "aisalias", Org: org, Alias: vhlib.Pick(r, ap)})
			}
			if r.Chance(12) {
				cuts[len(ops)] = true
			}
		}
		cuts[len(ops)] = true
		for _, ix := range idxs {
			ops = append(ops, kOp{Op: "agetidx", Org: 0, Name: ix})
		}
		segs := splitSegs(ops, cuts)
		var clean []bool
		if stream == "alias_shutdown" {
			clean = make([]bool, len(segs))
			for j := range clean {
				clean[j] = true
			}
		}
		nm := names
		if stream == "shared" {
			nm = append(append([]string{}, names...), "re-al1", "re-al-2", "re-i1", "re-ü2", "re-al 3")
		}
		scs = append(scs, &scenario{Store: "alias", Class: stream, Orgs: orgs, Names: nm, Segs: segs, Clean: clean})
	}
	return scs
}

// genAliasOrgs: SEVERAL tenants that own aliases.  The alias directory aliases/<org>/ of a tenant
// other than 0 is a fact of the deployment (siglens never creates it): the scenario says which
// tenants have one (AliasDirs) and the worker provides it.  Tenants share index names and alias
// names on purpose (per-tenant files of the same name must stay apart), every segment ends either
// with a kill or with the clean shutdown (FlushAliasMapToFile: the write-back of the in-memory map),
// and after the last restart every tenant reads everything back.
//   stream "orgs":          random interleaving of 3 tenants, kill / clean shutdown at random
//   stream "orgs_shutdown": directed - every tenant writes a few aliases, clean shutdown + start,
//                           full read-back, a second round of writes by some tenants, again
func genAliasOrgs(r *vhlib.Rng, n int, stream string) []*scenario {
	idxs, als := aliasIdxs[:4], aliasAls[:4]
	names := append(append([]string{}, idxs...), als...)
	orgs := []int64{0, 5, 7}
	var scs []*scenario
	readAll := func(ops []kOp, who []int64) []kOp {
		for _, o := range who {
			for _, ix := range idxs {
				ops = append(ops, kOp{Op: "agetidx", Org: o, Name: ix})
			}
			for _, al := range als {
				ops = append(ops, kOp{Op: "aisalias", Org: o, Alias: al})
			}
		}
		return ops
	}
	for i := 0; i < n; i++ {
		// which tenants have a directory: mostly both, sometimes one (the other's adds are refused)
		dirs := []int64{5, 7}
		switch x := r.Intn(10); {
		case x < 2:
			dirs = []int64{5}
		case x < 3:
			dirs = []int64{7}
		}
		var ops []kOp
		cuts := map[int]bool{}
		cleanAt := map[int]bool{} // cut position -> the segment ending there shuts down cleanly
		if stream == "orgs_shutdown" {
			rounds := r.Range(1, 2)
			for rd := 0; rd < rounds; rd++ {
				for _, o := range orgs {
					if rd > 0 && r.Chance(40) {
						continue // this tenant does nothing in the second round
					}
					k := r.Range(1, 3)
					for j := 0; j < k; j++ {
						ops = append(ops, kOp{Op: "aadd", Org: o, Name: vhlib.Pick(r, idxs[:3]), Alias: vhlib.Pick(r, als[:3])})
					}
					if r.Chance(30) {
						ops = append(ops, kOp{Op: "aremove", Org: o, Name: vhlib.Pick(r, idxs[:3]), Alias: vhlib.Pick(r, als[:3])})
					}
				}
				cuts[len(ops)], cleanAt[len(ops)] = true, true
				ops = readAll(ops, orgs)
			}
		} else {
			l := r.Range(8, 22)
			for k := 0; k < l; k++ {
				org := orgs[r.Intn(3)]
				ap := als
				if r.Chance(50) {
					ap = als[:2]
				}
				switch x := r.Intn(100); {
				case x < 45:
					op := "aadd"
					if r.Chance(20) {
						op = "aaddpost"
					}
					ops = append(ops, kOp{Op: op, Org: org, Name: vhlib.Pick(r, idxs), Alias: vhlib.Pick(r, ap)})
				case x < 62:
					ops = append(ops, kOp{Op: "aremove", Org: org, Name: vhlib.Pick(r, idxs), Alias: vhlib.Pick(r, ap)})
				case x < 82:
					ops = append(ops, kOp{Op: "agetidx", Org: org, Name: vhlib.Pick(r, names)})
				default:
					ops = append(ops, kOp{Op: "aisalias", Org: org, Alias: vhlib.Pick(r, ap)})
				}
				if r.Chance(14) {
					cuts[len(ops)], cleanAt[len(ops)] = true, r.Chance(60)
				}
			}
			cuts[len(ops)], cleanAt[len(ops)] = true, r.Chance(70)
			ops = readAll(ops, orgs)
		}
		segs := splitSegs(ops, cuts)
		// Clean[j]: segment j ends with a clean shutdown; the cut positions in increasing order
		// are the ends of the segments 0, 1, ...
		var pos []int
		for c, on := range cuts {
			if on && c > 0 && c < len(ops) {
				pos = append(pos, c)
			}
		}
		sort.Ints(pos)
		clean := make([]bool, len(segs))
		for j := range clean {
			if j < len(pos) {
				clean[j] = cleanAt[pos[j]]
			}
		}
		scs = append(scs, &scenario{Store: "alias", Class: stream, Orgs: orgs, AliasDirs: dirs, Names: names, Segs: segs, Clean: clean})
	}
	return scs
}

func coqSet(xs []string) string {
	sort.Strings(xs)
	items := make([]string, len(xs))
	for i, x := range xs {
		items[i] = vhlib.CoqStr(x)
	}
	return vhlib.CoqList(items)
}

func sortedKeys(m map[string]bool) []string {
	var r []string
	for k, v := range m {
		if v {
			r = append(r, k)
		}
	}
	sort.Strings(r)
	return r
}

// checkAlias: the property evaluated straight on the observations.  The harness keeps the spec
// map (tenant, index) -> alias set from the acknowledged writes; after EVERY operation all read
// functions (snapshot taken by the worker) must agree with it: index -> aliases and, derived,
// alias -> indexes.
func checkAlias(sc *scenario, sum *vhlib.Summary) *verdict {
	v := &verdict{}
	fwd := map[int64]map[string]map[string]bool{}
	type pair struct {
		org    int64
		al, ix string
	}
	epochOf := map[pair]int{}    // restart count when the pair was last written
	everHeld := map[pair]bool{}  // the pair was stored at some time
	epoch := 0
	shut := false
	stop := false // a failure that is not a known class was reported: the spec map is no longer trusted
	knownReported := map[string]bool{}
	fail := func(class, detail string, k int) {
		v.fails++
		sum.Fail(class, detail, map[string]interface{}{"scenario": sc, "failing_op_index": k})
	}
	hasDir := func(org int64) bool {
		if org == 0 {
			return true
		}
		for _, d := range sc.AliasDirs {
			if d == org {
				return true
			}
		}
		return false
	}
	// how far the process is from the writes: nothing / a restart / a clean shutdown + restart
	when := func() string {
		if shut {
			return "_after_shutdown_restart"
		}
		if epoch > 0 {
			return "_after_restart"
		}
		return ""
	}
	// tenant isolation: a pair (index, alias) that tenant org reads although it never wrote it,
	// while ANOTHER tenant holds it (or held it): "" or a description of the other tenant's pair
	foreign := func(org int64, ix, al string) string {
		if fwd[org][ix][al] || everHeld[pair{org, al, ix}] {
			return ""
		}
		for _, o2 := range sc.Orgs {
			if o2 != org && (fwd[o2][ix][al] || everHeld[pair{o2, al, ix}]) {
				return fmt.Sprintf("tenant %d never wrote the pair index %q / alias %q, tenant %d did", org, ix, al, o2)
			}
		}
		return ""
	}
	var lastWrite kOp
	for k, f := range sc.flat() {
		if f.Restart {
			if f.Clean {
				v.ops, shut = append(v.ops, "AShutdownRestart"), true
			} else {
				v.ops = append(v.ops, "ACrashRestart")
			}
			v.obs = append(v.obs, "AAck true")
			epoch++
		}
		res := sc.res[k]
		if fwd[f.Org] == nil {
			fwd[f.Org] = map[string]map[string]bool{}
		}
		switch f.Op {
		case "aadd", "aaddpost":
			ack := res.Status == 200
			if f.Op == "aaddpost" {
				// the POST handler answers 200 "acknowledged" even when the action failed (no alias
				// directory for the tenant)
				ack = hasDir(f.Org)
			}
			if ack {
				if fwd[f.Org][f.Name] == nil {
					fwd[f.Org][f.Name] = map[string]bool{}
				}
				fwd[f.Org][f.Name][f.Alias] = true
				epochOf[pair{f.Org, f.Alias, f.Name}] = epoch
				everHeld[pair{f.Org, f.Alias, f.Name}] = true
				// AddAliases re-registers every alias of the index in memory
				for a := range fwd[f.Org][f.Name] {
					epochOf[pair{f.Org, a, f.Name}] = epoch
				}
				lastWrite = f.kOp
			}
			v.ops = append(v.ops, fmt.Sprintf("AAdd %d %s %s", f.Org, vhlib.CoqStr(f.Name), vhlib.CoqStr(f.Alias)))
			v.obs = append(v.obs, "AAck "+vhlib.CoqBool(ack))
		case "aremove":
			if res.Status == 200 {
				delete(fwd[f.Org][f.Name], f.Alias)
				lastWrite = f.kOp
			}
			v.ops = append(v.ops, fmt.Sprintf("ARemove %d %s %s", f.Org, vhlib.CoqStr(f.Name), vhlib.CoqStr(f.Alias)))
			v.obs = append(v.obs, "AAck "+vhlib.CoqBool(res.Status == 200))
		case "agetidx":
			var r map[string]struct {
				Aliases map[string]bool `json:"aliases"`
			}
			_ = json.Unmarshal([]byte(res.Body), &r)
			var got []string
			for a := range r[f.Name].Aliases {
				got = append(got, a)
			}
			v.ops = append(v.ops, fmt.Sprintf("AGetIndex %d %s", f.Org, vhlib.CoqStr(f.Name)))
			v.obs = append(v.obs, "ASet "+coqSet(got))
			want := sortedKeys(fwd[f.Org][f.Name])
			sort.Strings(got)
			if !stop && res.Status == 200 {
				for _, a := range got {
					if why := foreign(f.Org, f.Name, a); why != "" && !stop {
						fail("alias_of_other_tenant_visible"+when(), fmt.Sprintf("GET %s/_alias tenant %d: read %q, last written %q: %s", f.Name, f.Org, got, want, why), k)
						stop = true
					}
				}
			}
			if !stop && (res.Status != 200 || strings.Join(got, "\x00") != strings.Join(want, "\x00")) && !shut {
				fail("alias_forward_read_differs_from_last_write", fmt.Sprintf("GET %s/_alias tenant %d: read %q, last written %q", f.Name, f.Org, got, want), k)
				stop = true
			}
		case "aisalias":
			var got []string
			if res.Status == 200 {
				var r map[string]interface{}
				_ = json.Unmarshal([]byte(res.Body), &r)
				for ix := range r {
					got = append(got, ix)
				}
			}
			v.ops = append(v.ops, fmt.Sprintf("AIsAlias %d %s", f.Org, vhlib.CoqStr(f.Alias)))
			v.obs = append(v.obs, "ASet "+coqSet(got))
			// the answer itself is judged through the snapshot below (IsAlias is part of it)
		}
		if stop || res.Snap == nil {
			continue
		}
		// the operation a new difference is attributed to: the snapshot is taken after every
		// operation, so it is the current one if that is a write attempt (acknowledged or not)
		cause := lastWrite
		if f.Op == "aadd" || f.Op == "aaddpost" || f.Op == "aremove" {
			cause = f.kOp
		}
		// ---- all read functions against the spec map, per tenant
		for _, org := range sc.Orgs {
			sn := res.Snap[fmt.Sprint(org)]
			if sn == nil {
				continue
			}
			spec := fwd[org]
			// classes of defects that have been repaired (a69a617): reported wherever they show up,
			// once per scenario; they are regressions now
			known := func(class, detail string) {
				if !knownReported[class] {
					knownReported[class] = true
					fail(class, detail, k)
				}
			}
			// (1) index -> aliases
			for _, n := range sc.Names {
				got, want := sn.Fwd[n], sortedKeys(spec[n])
				if strings.Join(got, "\x00") == strings.Join(want, "\x00") {
					continue
				}
				d := fmt.Sprintf("after op %d (%s %s/%s tenant %d): GetAliasesAsArray(%q, tenant %d) = %q, last written %q", k, f.Op, f.Name, f.Alias, f.Org, n, org, got, want)
				leak := ""
				for _, a := range got {
					if why := foreign(org, n, a); why != "" && leak == "" {
						leak = why
					}
				}
				if leak != "" {
					fail("alias_of_other_tenant_visible"+when(), d+": "+leak, k)
					stop = true
					break
				}
				if shut {
					// the signature of the repaired defect: the file <n>.json holds the names of the INDEXES
					// that have the alias n
					reversed := false
					for _, x := range got {
						reversed = reversed || spec[x][n]
					}
					if reversed {
						known("alias_shutdown_flush_writes_reversed_files", d+" (after a clean shutdown: FlushAliasMapToFile wrote <alias>.json holding the index names)")
						continue
					}
				}
				cl := "alias_forward_read_differs_from_last_write"
				if cause.Name != n && cause.Op != "" {
					cl = "alias_write_disturbs_other_index"
				}
				if epoch > 0 {
					cl += "_after_restart"
				}
				fail(cl, d, k)
				stop = true
			}
			if stop {
				break
			}
			if stop || knownReported["alias_shutdown_flush_writes_reversed_files"] {
				// the spec map is no longer trusted for this scenario
				stop = true
				break
			}
			// (2) alias -> indexes: the spec's reverse view
			specRev := map[string]map[string]bool{}
			for ix, as := range spec {
				for a, ok := range as {
					if ok {
						if specRev[a] == nil {
							specRev[a] = map[string]bool{}
						}
						specRev[a][ix] = true
					}
				}
			}
			// a pair may be missing from the in-memory reverse map only if it was written before the
			// last restart (known: tenant 0's files are not scanned at start)
			lostOK := func(a, ix string) bool { return epochOf[pair{org, a, ix}] < epoch }
			judgeMissing := func(fn, a, ix, d string) {
				if cause.Op == "aremove" && cause.Alias == a && cause.Name != ix && cause.Org == org && !f.Restart {
					fail("alias_remove_disturbs_other_index", d, k)
					stop = true
					return
				}
				if lostOK(a, ix) {
					// the pair was written before the last restart and is not found after it
					known("alias_lookup_lost_after_restart", d+" (the alias files of the tenant were not loaded at start)")
					stop = true
					return
				}
				fail("alias_reverse_lookup_differs_from_last_write", d, k)
				stop = true
			}
			judgeExtra := func(fn, a, ix, d string) {
				cl := "alias_resolves_to_index_never_written"
				if everHeld[pair{org, a, ix}] {
					cl = "alias_removed_still_resolves"
				} else if why := foreign(org, ix, a); why != "" {
					cl, d = "alias_of_other_tenant_visible"+when(), d+": "+why
				}
				fail(cl, d, k)
				stop = true
			}
			ctx := fmt.Sprintf("after op %d (%s %s/%s tenant %d), attributed to %s %s/%s", k, f.Op, f.Name, f.Alias, f.Org, cause.Op, cause.Name, cause.Alias)
			for _, a := range sc.Names {
				want := specRev[a]
				// GetAllAliasesAsMapArray: the whole set
				got := map[string]bool{}
				for _, ix := range sn.Rev[a] {
					got[ix] = true
				}
				for ix := range got {
					if !want[ix] && !stop {
						judgeExtra("GetAllAliasesAsMapArray", a, ix, fmt.Sprintf("%s: GetAllAliasesAsMapArray(tenant %d)[%q] = %q but index %q does not hold the alias (indexes holding it: %q)", ctx, org, a, sn.Rev[a], ix, sortedKeys(want)))
					}
				}
				for ix := range want {
					if !got[ix] && !stop {
						judgeMissing("GetAllAliasesAsMapArray", a, ix, fmt.Sprintf("%s: GetAllAliasesAsMapArray(tenant %d)[%q] = %q lacks index %q which holds the alias (indexes holding it: %q)", ctx, org, a, sn.Rev[a], ix, sortedKeys(want)))
					}
				}
				if stop {
					break
				}
				// IsAlias / GetIndexNameFromAlias: one of the indexes, or nothing iff there is none
				for fn, ans := range map[string]string{"IsAlias": sn.IsAlias[a], "GetIndexNameFromAlias": sn.FromAlias[a]} {
					if stop {
						break
					}
					d := fmt.Sprintf("%s: %s(%q, tenant %d) = %q, indexes holding the alias: %q", ctx, fn, a, org, ans, sortedKeys(want))
					if ans != "" && !want[ans] {
						judgeExtra(fn, a, ans, d)
					} else if ans == "" && len(want) > 0 {
						all := true
						for ix := range want {
							all = all && lostOK(a, ix)
						}
						if all {
							known("alias_lookup_lost_after_restart", d)
						} else {
							for ix := range want {
								if !lostOK(a, ix) && !stop {
									judgeMissing(fn, a, ix, d)
								}
							}
						}
					}
				}
				if stop {
					break
				}
				// ExpandAndReturnIndexNames(alias): the indexes holding it; the name itself if none
				exp := sn.Expand[a]
				d := fmt.Sprintf("%s: ExpandAndReturnIndexNames(%q, tenant %d) = %q, indexes holding the alias: %q", ctx, a, org, exp, sortedKeys(want))
				if len(exp) == 1 && exp[0] == a && !want[a] {
					// "not an alias"
					for ix := range want {
						if stop {
							break
						}
						if lostOK(a, ix) {
							known("alias_lookup_lost_after_restart", d)
						} else {
							judgeMissing("ExpandAndReturnIndexNames", a, ix, d)
						}
					}
					continue
				}
				eg := map[string]bool{}
				for _, ix := range exp {
					eg[ix] = true
					if !want[ix] && !stop {
						judgeExtra("ExpandAndReturnIndexNames", a, ix, d)
					}
				}
				for ix := range want {
					if !eg[ix] && !stop {
						judgeMissing("ExpandAndReturnIndexNames", a, ix, d)
					}
				}
				if stop {
					break
				}
			}
			if stop {
				break
			}
		}
	}
	return v
}

// ---------------------------------------------------------------- lookup files

func genLookup(r *vhlib.Rng, n int) []*scenario {
	up := []string{"a", "b.csv", "C.CSV", "d e", "ü", "a.csv", "z.csv.gz"}
	rd := []string{"a.csv", "b.csv", "C.CSV", "d e.csv", "ü.csv", "zz.csv", "z.csv.gz"}
	var scs []*scenario
	for i := 0; i < n; i++ {
		var ops []kOp
		cuts := map[int]bool{}
		l := r.Range(6, 18)
		for k := 0; k < l; k++ {
			switch x := r.Intn(100); {
			case x < 40:
				ops = append(ops, kOp{Op: "lupload", Name: vhlib.Pick(r, up), Content: "k,v\n" + vhlib.Pick(r, oddStrings) + fmt.Sprintf(",%d\n", r.Intn(1000)), Overwrite: r.Chance(50)})
			case x < 55:
				ops = append(ops, kOp{Op: "ldelete", Name: vhlib.Pick(r, rd)})
			case x < 80:
				ops = append(ops, kOp{Op: "lget", Name: vhlib.Pick(r, rd)})
			default:
				ops = append(ops, kOp{Op: "llist"})
			}
			if r.Chance(10) {
				cuts[len(ops)] = true
			}
		}
		cuts[len(ops)] = r.Chance(60)
		ops = append(ops, kOp{Op: "llist"})
		scs = append(scs, &scenario{Store: "lookup", Class: "main", Orgs: []int64{0}, Segs: splitSegs(ops, cuts)})
	}
	return scs
}

func checkLookup(sc *scenario, sum *vhlib.Summary) *verdict {
	v := &verdict{}
	ref := map[string]string{}
	restarted := false
	fail := func(class, detail string, k int) {
		v.fails++
		sum.Fail(class, detail, map[string]interface{}{"scenario": sc, "failing_op_index": k})
	}
	cls := func(base string) string {
		if restarted {
			return base + "_after_restart"
		}
		return base
	}
	for k, f := range sc.flat() {
		if f.Restart {
			v.ops, v.obs = append(v.ops, "Restart"), append(v.obs, "OAck true")
			restarted = true
		}
		res := sc.res[k]
		switch f.Op {
		case "lupload":
			if res.Status == 200 {
				final := strings.TrimPrefix(res.Body, "File uploaded successfully: ")
				ref[final] = f.Content
				restarted = false
				v.ops = append(v.ops, fmt.Sprintf("Put 0 %s %s", vhlib.CoqStr(final), vhlib.CoqStr(f.Content)))
				v.obs = append(v.obs, "OAck true")
			}
		case "ldelete":
			_, had := ref[f.Name]
			if (res.Status == 200) != had {
				fail(cls("lookup_delete_ack_wrong"), fmt.Sprintf("delete %q: status %d, stored before: %v", f.Name, res.Status, had), k)
				return v
			}
			delete(ref, f.Name)
			v.ops = append(v.ops, fmt.Sprintf("Del 0 %s", vhlib.CoqStr(f.Name)))
			v.obs = append(v.obs, "OAck "+vhlib.CoqBool(res.Status == 200))
		case "lget":
			want, had := ref[f.Name]
			if (res.Status == 200) != had || (had && res.Body != want) {
				fail(cls("lookup_read_differs_from_last_write"), fmt.Sprintf("get %q: status %d body %q; last written %q (stored: %v)", f.Name, res.Status, res.Body, want, had), k)
				return v
			}
			v.ops = append(v.ops, fmt.Sprintf("Get 0 %s", vhlib.CoqStr(f.Name)))
			if had {
				v.obs = append(v.obs, "OVal (Some "+vhlib.CoqStr(res.Body)+")")
			} else {
				v.obs = append(v.obs, "OVal None")
			}
		case "llist":
			got := map[string]string{}
			_ = json.Unmarshal([]byte(res.Body), &got)
			if res.Status != 200 || !sameMap(got, ref) {
				fail(cls("lookup_list_differs_from_last_write"), fmt.Sprintf("list: status %d %v; last written %v", res.Status, got, ref), k)
				return v
			}
			v.ops = append(v.ops, "ListAll 0")
			v.obs = append(v.obs, "OList "+coqKVList(got))
		}
	}
	return v
}


// ---------------------------------------------------------------- contact points and alerts (sqlite)

func genAdb(r *vhlib.Rng, n int, dup bool) []*scenario {
	orgs := []int64{0, 4}
	var scs []*scenario
	if dup {
		// fixed minimal inputs of the two known classes
		scs = append(scs, &scenario{Store: "adb", Class: "duplicate_names", Orgs: orgs, Segs: [][]kOp{{
			{Op: "ccreate", Org: 0, Name: "c0", Desc: "p", Note: "1", NewRef: 1},
			{Op: "ccreate", Org: 0, Name: "c1", Desc: "p", Note: "7", NewRef: 2},
			{Op: "cupdate", Org: 0, Ref: 2, Name: "c0", Desc: "p", Note: "7"},
			{Op: "clist", Org: 0}}}})
		scs = append(scs, &scenario{Store: "adb", Class: "duplicate_names", Orgs: orgs, Segs: [][]kOp{{
			{Op: "ccreate", Org: 0, Name: "c0", Desc: "p", Note: "1", NewRef: 1},
			{Op: "ccreate", Org: 4, Name: "c0", Desc: "q", Note: "2", NewRef: 2},
			{Op: "clist", Org: 4}}}})
	}
	for i := 0; i < n; i++ {
		var ops []kOp
		cuts := map[int]bool{}
		next := 1
		var crefs, arefs []int
		owner := map[int]int64{}
		pick := func(l []int) int {
			if len(l) == 0 || r.Chance(5) {
				return 99
			}
			return vhlib.Pick(r, l)
		}
		nameNo := 0
		newName := func(prefix string) string {
			if dup && nameNo > 0 && r.Chance(45) {
				return fmt.Sprintf("%s%d %s", prefix, r.Intn(nameNo), "ü\"")
			}
			nameNo++
			return fmt.Sprintf("%s%d %s", prefix, nameNo-1, "ü\"")
		}
		l := r.Range(8, 20)
		for k := 0; k < l; k++ {
			org := vhlib.Pick(r, orgs)
			switch x := r.Intn(100); {
			case x < 22 || len(crefs) == 0:
				ops = append(ops, kOp{Op: "ccreate", Org: org, Name: newName("c"), Desc: vhlib.Pick(r, oddStrings), Note: fmt.Sprint(r.Intn(50)), NewRef: next})
				crefs, owner[next] = append(crefs, next), org
				next++
			case x < 34:
				rf := pick(crefs)
				ops = append(ops, kOp{Op: "cupdate", Org: owner[rf], Ref: rf, Name: newName("c"), Desc: vhlib.Pick(r, oddStrings), Note: fmt.Sprint(r.Intn(50))})
			case x < 40:
				rf := pick(crefs)
				ops = append(ops, kOp{Op: "cdelete", Org: owner[rf], Ref: rf})
			case x < 55:
				c := pick(crefs)
				ops = append(ops, kOp{Op: "acreate", Org: owner[c], Name: newName("a"), Desc: vhlib.Pick(r, oddStrings), Note: vhlib.Pick(r, oddStrings), Parent: c, NewRef: next})
				arefs, owner[next] = append(arefs, next), owner[c]
				next++
			case x < 65:
				rf := pick(arefs)
				ops = append(ops, kOp{Op: "aupdate", Org: owner[rf], Ref: rf, Name: newName("a"), Desc: vhlib.Pick(r, oddStrings), Note: vhlib.Pick(r, oddStrings), Parent: pick(crefs)})
			case x < 71:
				rf := pick(arefs)
				ops = append(ops, kOp{Op: "adelete", Org: owner[rf], Ref: rf})
			case x < 80:
				rf := pick(arefs)
				ops = append(ops, kOp{Op: "aget", Org: owner[rf], Ref: rf})
			case x < 90:
				ops = append(ops, kOp{Op: "clist", Org: org})
			default:
				ops = append(ops, kOp{Op: "alist", Org: org})
			}
			if r.Chance(10) {
				cuts[len(ops)] = true
			}
		}
		cuts[len(ops)] = r.Chance(70)
		for _, o := range orgs {
			ops = append(ops, kOp{Op: "clist", Org: o}, kOp{Op: "alist", Org: o})
		}
		cl := "main"
		if dup {
			cl = "duplicate_names"
		}
		scs = append(scs, &scenario{Store: "adb", Class: cl, Orgs: orgs, Segs: splitSegs(ops, cuts)})
	}
	return scs
}

type aItem struct {
	Typ  string
	Org  int64
	Val  string
	Cref int
}

func checkAdb(sc *scenario, sum *vhlib.Summary) *verdict {
	v := &verdict{}
	items := map[int]*aItem{}
	rev := map[string]int{}
	for ref, id := range sc.ids {
		rev[id] = ref
	}
	rejectedUpd := map[int]bool{}
	restarted := false
	fail := func(class, detail string, k int) {
		v.fails++
		sum.Fail(class, detail, map[string]interface{}{"scenario": sc, "failing_op_index": k})
	}
	cls := func(base string) string {
		if restarted {
			return base + "_after_restart"
		}
		return base
	}
	put := func(ref int) {
		v.ops = append(v.ops, fmt.Sprintf("Put %d %s %s", items[ref].Org, vhlib.CoqStr(fmt.Sprint(ref)), vhlib.CoqStr(items[ref].Val)))
		v.obs = append(v.obs, "OAck true")
	}
	cval := func(name, pager, hook string) string { return "contact|" + name + "|" + pager + "|" + hook }
	aval := func(name string, cond int, val float64, cref int, msg string) string {
		return fmt.Sprintf("alert|%s|%d|%v|%d|%s", name, cond, val, cref, msg)
	}
	for k, f := range sc.flat() {
		if f.Restart {
			v.ops, v.obs = append(v.ops, "Restart"), append(v.obs, "OAck true")
			restarted = true
		}
		res := sc.res[k]
		ok := res.Status == 200
		it := items[f.Ref]
		switch f.Op {
		case "ccreate":
			if !ok {
				continue
			}
			if _, have := sc.ids[f.NewRef]; !have {
				fail("contact_create_duplicate_name_acknowledged_not_stored", fmt.Sprintf("create contact %q tenant %d answered 200 (%s) but no contact was stored (a contact of that name exists, possibly of another tenant)", f.Name, f.Org, res.Body), k)
				return v
			}
			items[f.NewRef] = &aItem{Typ: "contact", Org: f.Org, Val: cval(f.Name, f.Desc, f.Note)}
			put(f.NewRef)
			restarted = false
		case "cupdate":
			if !ok {
				if it != nil && it.Typ == "contact" {
					rejectedUpd[f.Ref] = true
				}
				continue
			}
			if it == nil || it.Typ != "contact" {
				fail(cls("contact_update_of_missing_object_acknowledged"), fmt.Sprintf("ref %d: %s", f.Ref, res.Body), k)
				return v
			}
			it.Val = cval(f.Name, f.Desc, f.Note)
			put(f.Ref)
			restarted = false
		case "cdelete", "adelete":
			if !ok {
				continue
			}
			if it == nil {
				fail(cls("alertdb_delete_of_missing_object_acknowledged"), fmt.Sprintf("ref %d: %s", f.Ref, res.Body), k)
				return v
			}
			delete(items, f.Ref)
			v.ops = append(v.ops, fmt.Sprintf("Del %d %s", it.Org, vhlib.CoqStr(fmt.Sprint(f.Ref))))
			v.obs = append(v.obs, "OAck true")
			restarted = false
		case "acreate":
			if !ok {
				continue
			}
			if _, have := sc.ids[f.NewRef]; !have {
				fail(cls("alert_create_acknowledged_not_stored"), fmt.Sprintf("create alert %q tenant %d: %s", f.Name, f.Org, res.Body), k)
				return v
			}
			items[f.NewRef] = &aItem{Typ: "alert", Org: f.Org, Val: aval(f.Name, len(f.Desc)%5, float64(len(f.Note)), f.Parent, f.Desc)}
			put(f.NewRef)
			restarted = false
		case "aupdate":
			if !ok {
				continue
			}
			if it == nil || it.Typ != "alert" {
				fail(cls("alert_update_of_missing_object_acknowledged"), fmt.Sprintf("ref %d: %s", f.Ref, res.Body), k)
				return v
			}
			it.Val = aval(f.Name, len(f.Desc)%5, float64(len(f.Note)), f.Parent, f.Desc)
			put(f.Ref)
			restarted = false
		case "clist":
			var lr struct {
				Contacts []struct {
					ContactId   string `json:"contact_id"`
					ContactName string `json:"contact_name"`
					PagerDuty   string `json:"pager_duty"`
					Webhook     []struct {
						Webhook string `json:"webhook"`
					} `json:"webhook"`
				} `json:"contacts"`
			}
			_ = json.Unmarshal([]byte(res.Body), &lr)
			got, want := map[string]string{}, map[string]string{}
			for _, c := range lr.Contacts {
				hook := ""
				for _, w := range c.Webhook {
					hook += strings.TrimPrefix(w.Webhook, "http://127.0.0.1:1/")
				}
				key := "unknown:" + c.ContactId
				if rf, okr := rev[c.ContactId]; okr {
					key = fmt.Sprint(rf)
				}
				got[key] = cval(c.ContactName, c.PagerDuty, hook)
			}
			for rf, x := range items {
				if x.Typ == "contact" && x.Org == f.Org {
					want[fmt.Sprint(rf)] = x.Val
				}
			}
			if ok && len(got) == len(want) {
				// a REJECTED update (e.g. duplicate name) has already cleared the webhook association
				only := true
				hit := false
				for key, w := range want {
					g := got[key]
					if g == w {
						continue
					}
					rf := 0
					fmt.Sscan(key, &rf)
					if rejectedUpd[rf] && strings.HasSuffix(g, "|") && strings.HasPrefix(w, g) {
						hit = true
					} else {
						only = false
					}
				}
				if hit && only {
					fail("contact_rejected_update_clears_webhooks", fmt.Sprintf("contacts of tenant %d: listed %v; last written %v (an update answered 400 in between)", f.Org, got, want), k)
					return v
				}
			}
			if !ok || !sameMap(got, want) {
				fail(cls("contact_list_differs_from_last_write"), fmt.Sprintf("contacts of tenant %d: status %d, listed %v; last written %v", f.Org, res.Status, got, want), k)
				return v
			}
			// contacts and alerts share the model's tenant map: list ops are compared in Go only, single reads below go to Coq
		case "alist", "aget":
			type al struct {
				AlertId   string  `json:"alert_id"`
				AlertName string  `json:"alert_name"`
				Condition int     `json:"condition"`
				Value     float64 `json:"value"`
				ContactID string  `json:"contact_id"`
				Message   string  `json:"message"`
			}
			conv := func(a al) string {
				cr, okc := rev[a.ContactID]
				if !okc {
					cr = -1
				}
				return aval(a.AlertName, a.Condition, a.Value, cr, a.Message)
			}
			if f.Op == "aget" {
				var gr struct {
					Alert al `json:"alert"`
				}
				_ = json.Unmarshal([]byte(res.Body), &gr)
				stored := it != nil && it.Typ == "alert"
				found := ok && gr.Alert.AlertId != ""
				if found != stored || (stored && conv(gr.Alert) != it.Val) {
					want := ""
					if stored {
						want = it.Val
					}
					fail(cls("alert_read_differs_from_last_write"), fmt.Sprintf("get alert ref %d: status %d %q; last written %q", f.Ref, res.Status, conv(gr.Alert), want), k)
					return v
				}
				v.ops = append(v.ops, fmt.Sprintf("Get %d %s", f.Org, vhlib.CoqStr(fmt.Sprint(f.Ref))))
				if stored {
					v.obs = append(v.obs, "OVal (Some "+vhlib.CoqStr(conv(gr.Alert))+")")
				} else {
					v.obs = append(v.obs, "OVal None")
				}
				continue
			}
			var lr struct {
				Alerts []al `json:"alerts"`
			}
			_ = json.Unmarshal([]byte(res.Body), &lr)
			got, want := map[string]string{}, map[string]string{}
			for _, a := range lr.Alerts {
				key := "unknown:" + a.AlertId
				if rf, okr := rev[a.AlertId]; okr {
					key = fmt.Sprint(rf)
				}
				got[key] = conv(a)
			}
			for rf, x := range items {
				if x.Typ == "alert" && x.Org == f.Org {
					want[fmt.Sprint(rf)] = x.Val
				}
			}
			if !ok || !sameMap(got, want) {
				fail(cls("alert_list_differs_from_last_write"), fmt.Sprintf("alerts of tenant %d: status %d, listed %v; last written %v", f.Org, res.Status, got, want), k)
				return v
			}
		}
	}
	return v
}

// ---------------------------------------------------------------- driver

func runStores(cfg vhlib.Config, r *vhlib.Rng, sum *vhlib.Summary) {
	self, err := os.Executable()
	if err != nil {
		sum.HarnessError("os.Executable: " + err.Error())
		return
	}
	mult := 1
	if cfg.Thorough() {
		mult = 12
	}
	var scs []*scenario
	scs = append(scs, genUsq(r.Fork(), 40*mult)...)
	scs = append(scs, genDash(r.Fork(), 40*mult, false)...)
	scs = append(scs, genDashTree(r.Fork(), 30*mult, "tree")...)
	scs = append(scs, genAlias(r.Fork(), 30*mult, "main")...)
	scs = append(scs, genAlias(r.Fork(), 30*mult, "shared")...)
	scs = append(scs, genLookup(r.Fork(), 25*mult)...)
	scs = append(scs, genAdb(r.Fork(), 25*mult, false)...)
	scs = append(scs, genAdb(r.Fork(), 6*mult, true)...)
	// known-class streams
	scs = append(scs, genDash(r.Fork(), 8*mult, true)...)
	scs = append(scs, &scenario{Store: "dash", Class: "type_confusion_cycle", Orgs: []int64{0}, HangClass: "dashboard_update_with_folder_id_creates_parent_cycle_and_hangs",
		Segs: [][]kOp{{{Op: "fcreate", Org: 0, Name: "F", NewRef: 1}, {Op: "dupdate", Org: 0, Ref: 1, Name: "F", Parent: 1, Desc: "d"}, {Op: "list", Org: 0}}}})
	scs = append(scs, genDashPathReuse(r.Fork(), 6*mult)...)
	scs = append(scs, genDashTree(r.Fork(), 4*mult, "tree_path_reuse")...)
	scs = append(scs, genAlias(r.Fork(), 6*mult, "alias_restart")...)
	scs = append(scs, genAlias(r.Fork(), 6*mult, "alias_shutdown")...)
	// several tenants that own aliases (appended last: the streams above keep their random forks)
	scs = append(scs, genAliasOrgs(r.Fork(), 24*mult, "orgs")...)
	scs = append(scs, genAliasOrgs(r.Fork(), 16*mult, "orgs_shutdown")...)

	work := filepath.Join(cfg.Out, "kv")
	_ = os.MkdirAll(work, 0o755)
	var wg sync.WaitGroup
	ch := make(chan int)
	for w := 0; w < 8; w++ {
		wg.Add(1)
		go func() {
			defer wg.Done()
			for i := range ch {
				scs[i].run(self, work, i)
			}
		}()
	}
	for i := range scs {
		ch <- i
	}
	close(ch)
	wg.Wait()
	_ = os.RemoveAll(work)

	type bucket struct {
		defs  []string
		names []string
	}
	buckets := map[string]*bucket{}
	treeFresh, treeAny := &bucket{}, &bucket{}
	for i, sc := range scs {
		if sc.err != "" && sc.hung >= 0 && sc.HangClass != "" {
			sum.Fail(sc.HangClass, fmt.Sprintf("the worker did not answer within 3 s in segment %d (request loops forever)", sc.hung), map[string]interface{}{"scenario": sc})
			sum.Eval(sc.Store+"/"+sc.Class, true)
			sum.Count("store/" + sc.Store + "/" + sc.Class)
			continue
		}
		if sc.err != "" {
			if os.Getenv("C20_DEBUG") != "" {
				fmt.Fprintf(os.Stderr, "scenario %d: %s\n%s\n", i, sc.err, jb(sc))
			}
			sum.HarnessError(fmt.Sprintf("%s scenario %d: %s", sc.Store, i, sc.err))
			continue
		}
		var v *verdict
		switch sc.Store {
		case "usq":
			v = checkUsq(sc, sum)
		case "dash":
			v = checkDash(sc, sum)
		case "alias":
			v = checkAlias(sc, sum)
		case "lookup":
			v = checkLookup(sc, sum)
		case "adb":
			v = checkAdb(sc, sum)
		}
		fl := sc.flat()
		writes := 0
		for _, f := range fl {
			switch f.Op {
			case "save", "dcreate", "fcreate", "dupdate", "aadd", "aaddpost", "lupload", "ccreate", "acreate", "cupdate", "aupdate":
				writes++
			}
		}
		sum.Eval(sc.Store+"/"+sc.Class+"/"+opSig(fl), writes > 0)
		sum.Count("store/" + sc.Store + "/" + sc.Class)
		sum.Count(fmt.Sprintf("store/%s/restarts=%d", sc.Store, len(sc.Segs)-1))
		if i%37 == 0 {
			sum.Sample(map[string]interface{}{"store": sc.Store, "stream": sc.Class, "ops": opSig(fl)})
		}
		// the cross-tenant stream has no counterpart in the map model (ids are global there): Go oracle only
		if sc.Class == "cross_tenant_by_id" || sc.Class == "type_confusion_cycle" || (v.fails > 0 && sc.Store != "alias") {
			continue
		}
		if strings.HasPrefix(sc.Class, "tree") {
			// the tree model (DashTree.v), one history per tenant
			for _, o := range sc.Orgs {
				if len(v.tops[o]) == 0 {
					continue
				}
				nm := fmt.Sprintf("sc_%d_t%d", i, o)
				def := fmt.Sprintf("Definition %s : list dop * list dout := (%s,\n  %s).\n", nm, vhlib.CoqList(v.tops[o]), vhlib.CoqList(v.tobs[o]))
				if sc.Class == "tree" {
					treeFresh.defs, treeFresh.names = append(treeFresh.defs, def), append(treeFresh.names, nm)
				} else {
					treeAny.defs, treeAny.names = append(treeAny.defs, def), append(treeAny.names, nm)
				}
			}
			continue
		}
		b := buckets[sc.Store]
		if b == nil {
			b = &bucket{}
			buckets[sc.Store] = b
		}
		nm := fmt.Sprintf("sc_%d", i)
		typ := "list op * list out"
		if sc.Store == "alias" {
			// the tenants with an alias directory, then the history
			var ds []string
			for _, d := range sc.AliasDirs {
				ds = append(ds, fmt.Sprintf("%d%%N", d))
			}
			b.defs = append(b.defs, fmt.Sprintf("Definition %s : list tenant * (list aop * list aout) := (%s, (%s,\n  %s)).\n", nm, vhlib.CoqList(ds), vhlib.CoqList(v.ops), vhlib.CoqList(v.obs)))
			b.names = append(b.names, nm)
			continue
		}
		b.defs = append(b.defs, fmt.Sprintf("Definition %s : %s := (%s,\n  %s).\n", nm, typ, vhlib.CoqList(v.ops), vhlib.CoqList(v.obs)))
		b.names = append(b.names, nm)
	}
	for _, tb := range []struct {
		b        *bucket
		name, fn string
	}{{treeFresh, "cases_dashtree_fresh", "dt_bad_wf"}, {treeAny, "cases_dashtree_reuse", "dt_bad_wf"}} {
		for sh := 0; sh*40 < len(tb.b.names); sh++ {
			lo, hi := sh*40, (sh+1)*40
			if hi > len(tb.b.names) {
				hi = len(tb.b.names)
			}
			sum.WriteCaseFile(cfg.Out, fmt.Sprintf("%s_%d", tb.name, sh), "From SigM Require Import Base DashTree DashTreeCheck AlertCheck.\n",
				strings.Join(tb.b.defs[lo:hi], ""), fmt.Sprintf("scen_bad (fun p => %s (fst p) (snd p)) %s 0", tb.fn, vhlib.CoqList(tb.b.names[lo:hi])), hi-lo)
		}
	}
	stores := make([]string, 0, len(buckets))
	for s := range buckets {
		stores = append(stores, s)
	}
	sort.Strings(stores)
	for _, st := range stores {
		b := buckets[st]
		fn := map[string]string{"usq": "kv_bad", "dash": "dkv_bad", "lookup": "dkv_bad", "adb": "dkv_bad", "alias": "alias_bad"}[st]
		for sh := 0; sh*100 < len(b.names); sh++ {
			lo, hi := sh*100, (sh+1)*100
			if hi > len(b.names) {
				hi = len(b.names)
			}
			sum.WriteCaseFile(cfg.Out, fmt.Sprintf("cases_%s_%d", st, sh), "From SigM Require Import Base KvStore AlertCheck.\n",
				strings.Join(b.defs[lo:hi], ""), fmt.Sprintf("scen_bad (fun p => %s) %s 0", map[bool]string{true: "alias_bad (fst p) (fst (snd p)) (snd (snd p))", false: fn + " (fst p) (snd p)"}[st == "alias"], vhlib.CoqList(b.names[lo:hi])), hi-lo)
		}
	}
}

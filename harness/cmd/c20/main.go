// c20: correspondence + property oracle for alert state/notifications and the keyed stores.
//
// Alerts: the real alertsHandler package (handleAlertCondition, shouldUpdateAlertStateToFiring,
// shouldSendNotification, evaluate*QueryConditions through the overlay exports; the create /
// update / silence / delete HTTP handlers) runs against the real sqlite store in a scratch
// directory.  Notifications are received by a local webhook.  The clock is faked by moving the
// stored last_sent_time back (the code only ever looks at now - last_sent_time).
//
// Keyed stores: the real CRUD handlers of saved queries, dashboards/folders, index aliases,
// lookup files and contact points/alerts run in worker processes (one process per segment
// between two restarts, same data directory); see kv.go.
package main

import (
	"encoding/json"
	"fmt"
	"io"
	"net/http"
	"net/http/httptest"
	"os"
	"path/filepath"
	"sort"
	"strings"
	"sync"
	"time"

	"github.com/siglens/siglens/pkg/alerts/alertsHandler"
	"github.com/siglens/siglens/pkg/alerts/alertutils"
	"github.com/siglens/siglens/pkg/config"
	"github.com/siglens/siglens/pkg/segment/results/mresults"
	"github.com/siglens/siglens/pkg/segment/structs"
	log "github.com/sirupsen/logrus"
	"github.com/valyala/fasthttp"
	"gorm.io/driver/sqlite"
	"gorm.io/gorm"
	gormlogger "gorm.io/gorm/logger"

	"verifharness/vhlib"
)

// ---------------------------------------------------------------- alert cases

type aEvent struct {
	Kind    string  `json:"kind"` // eval | update | silence
	Gap     int64   `json:"gap_s,omitempty"`
	Vals    []int64 `json:"vals_milli,omitempty"`
	W       uint64  `json:"window,omitempty"`
	I       uint64  `json:"interval,omitempty"`
	Minutes uint64  `json:"minutes,omitempty"`
}

type aCase struct {
	Stream   string   `json:"stream"`
	W        uint64   `json:"window"`
	I        uint64   `json:"interval"`
	Cooldown uint64   `json:"cooldown_min"`
	Deliver  bool     `json:"deliver"`
	Cond     int      `json:"cond"`
	Thr      int64    `json:"thr_milli"`
	Mode     string   `json:"mode"` // measure | records | metrics
	Events   []aEvent `json:"events"`
}

type aObs struct {
	State   int `json:"state"`
	Sent    int `json:"sent"`
	Matched int `json:"matched"`
}

const (
	stInactive = 0
	stNormal   = 1
	stPending  = 2
	stFiring   = 3
)

type alertEnv struct {
	db      alertsHandler.VerifDatabase
	h       *gorm.DB
	srv     *httptest.Server
	mu      sync.Mutex
	hooks   map[string][]string // webhook path -> statuses received
	counter int
}

func callCtx(f func(*fasthttp.RequestCtx), body []byte, uv map[string]string, query string) (int, []byte) {
	var ctx fasthttp.RequestCtx
	ctx.Init(&fasthttp.Request{}, nil, nil)
	if body != nil {
		ctx.Request.SetBody(body)
	}
	if query != "" {
		ctx.Request.SetRequestURI("/x?" + query)
	}
	for k, v := range uv {
		ctx.SetUserValue(k, v)
	}
	f(&ctx)
	return ctx.Response.StatusCode(), append([]byte{}, ctx.Response.Body()...)
}

func newAlertEnv(dir string) (*alertEnv, error) {
	e := &alertEnv{hooks: map[string][]string{}}
	e.srv = httptest.NewUnstartedServer(http.HandlerFunc(func(w http.ResponseWriter, r *http.Request) {
		b, _ := io.ReadAll(r.Body)
		var wb alertutils.WebhookBody
		_ = json.Unmarshal(b, &wb)
		e.mu.Lock()
		e.hooks[r.URL.Path] = append(e.hooks[r.URL.Path], wb.Status)
		e.mu.Unlock()
	}))
	// sendWebhooks builds a new http.Client/Transport per notification and never closes its idle
	// connection: with keep-alive one TCP connection leaks per notification (the first thorough run
	// stopped at 20000 open files).  The receiver therefore closes every connection after the answer.
	e.srv.Config.SetKeepAlivesEnabled(false)
	e.srv.Start()
	config.InitializeTestingConfig(dir + "/")
	alertsHandler.VerifQuietScheduler()
	if err := alertsHandler.ConnectSiglensDB(); err != nil {
		return nil, err
	}
	e.db = alertsHandler.VerifGetDatabase()
	h, err := gorm.Open(sqlite.Open(dir+"/siglens.db"), &gorm.Config{Logger: gormlogger.Default.LogMode(gormlogger.Silent)})
	if err != nil {
		return nil, err
	}
	_ = h.Exec("PRAGMA busy_timeout=5000;").Error
	e.h = h
	return e, nil
}

func (e *alertEnv) received(path string) []string {
	e.mu.Lock()
	defer e.mu.Unlock()
	return append([]string{}, e.hooks[path]...)
}

var qp = alertutils.QueryParams{DataSource: "Logs", QueryLanguage: "Splunk QL", QueryText: "* | stats count", StartTime: "now-5m", EndTime: "now", Index: "*"}

func alertBody(name, contactID string, c *aCase, w, i uint64, id string) []byte {
	m := map[string]interface{}{"alert_name": name, "alert_type": 1, "contact_id": contactID, "queryParams": qp,
		"condition": c.Cond, "value": float64(c.Thr) / 1000, "eval_for": w, "eval_interval": i, "message": "m {{alert_rule_name}}"}
	if id != "" {
		m["alert_id"] = id
	}
	b, _ := json.Marshal(m)
	return b
}

func milli(v int64) float64 { return float64(v) / 1000 }

func specCond(v int64, cond int, thr int64) bool {
	switch cond {
	case 0:
		return v > thr
	case 1:
		return v < thr
	case 2:
		return v == thr
	case 3:
		return v != thr
	case 4:
		return v == 0
	}
	return false
}

// realMatched runs the real condition evaluation on a synthetic query result
func realMatched(c *aCase, vals []int64) (bool, error) {
	cond := alertutils.AlertQueryCondition(c.Cond)
	thr := milli(c.Thr)
	switch c.Mode {
	case "metrics":
		res := &mresults.MetricsResult{Results: map[string]map[uint32]float64{}}
		for i, v := range vals {
			sid := fmt.Sprintf("s%d", i%2)
			if res.Results[sid] == nil {
				res.Results[sid] = map[uint32]float64{}
			}
			res.Results[sid][uint32(1000+i)] = milli(v)
		}
		return alertsHandler.VerifEvaluateMetricsQueryConditions(res, cond, thr) > 0, nil
	case "records":
		r := &structs.PipeSearchResponseOuter{MeasureAggregationCols: []string{"count(*)"}}
		for i, v := range vals {
			var x interface{} = milli(v)
			if i%2 == 1 {
				x = fmt.Sprintf("%v", milli(v)) // values also arrive as strings
			}
			r.Hits.Hits = append(r.Hits.Hits, map[string]interface{}{"count(*)": x, "host": "h"})
		}
		return alertsHandler.VerifEvaluateLogsQueryConditions(r, cond, thr)
	default:
		r := &structs.PipeSearchResponseOuter{}
		for i, v := range vals {
			var x interface{} = milli(v)
			if i%2 == 1 {
				x = fmt.Sprintf("%v", milli(v))
			}
			r.MeasureResults = append(r.MeasureResults, &structs.BucketHolder{GroupByValues: []string{fmt.Sprint(i)}, MeasureVal: map[string]interface{}{"count(*)": x}})
		}
		return alertsHandler.VerifEvaluateLogsQueryConditions(r, cond, thr)
	}
}

// advance the fake clock of one alert: the stored last-sent time moves back by d seconds
func (e *alertEnv) advance(alertID string, d int64) error {
	if d == 0 {
		return nil
	}
	var n alertutils.Notification
	if err := e.h.Where("alert_id = ?", alertID).First(&n).Error; err != nil {
		return err
	}
	if n.LastSentTime.IsZero() {
		return nil
	}
	return e.h.Model(&alertutils.Notification{}).Where("notification_id = ?", n.NotificationId).
		Update("last_sent_time", n.LastSentTime.Add(-time.Duration(d)*time.Second)).Error
}

// runAlertCase drives one case against the real code and returns the observations
func (e *alertEnv) runAlertCase(c *aCase) ([]aObs, error) {
	e.counter++
	tag := fmt.Sprintf("k%d", e.counter)
	path := "/" + tag
	hookURL := e.srv.URL + path
	if !c.Deliver {
		hookURL = "http://127.0.0.1:1" + path // nothing listens: delivery fails
	}
	org := int64(0)
	// contact point through the real handler
	cb, _ := json.Marshal(map[string]interface{}{"contact_name": "c-" + tag, "webhook": []map[string]interface{}{{"webhook": hookURL}}})
	if st, b := callCtx(func(x *fasthttp.RequestCtx) { alertsHandler.ProcessCreateContactRequest(x, org) }, cb, nil, ""); st != 200 {
		return nil, fmt.Errorf("create contact: %d %s", st, b)
	}
	contacts, err := e.db.GetAllContactPoints(org)
	if err != nil {
		return nil, err
	}
	contactID := ""
	for _, ct := range contacts {
		if ct.ContactName == "c-"+tag {
			contactID = ct.ContactId
		}
	}
	if contactID == "" {
		return nil, fmt.Errorf("contact not found after create")
	}
	name := "a-" + tag
	alertID := ""
	if c.W >= c.I && c.I > 0 {
		if st, b := callCtx(func(x *fasthttp.RequestCtx) { alertsHandler.ProcessCreateAlertRequest(x, org) }, alertBody(name, contactID, c, c.W, c.I, ""), nil, ""); st != 200 {
			return nil, fmt.Errorf("create alert: %d %s", st, b)
		}
		all, err := e.db.GetAllAlerts(org)
		if err != nil {
			return nil, err
		}
		for _, a := range all {
			if a.AlertName == name {
				alertID = a.AlertId
			}
		}
	} else {
		// window < interval is rejected by the handler: store the row directly (decision-function cases)
		a := &alertutils.AlertDetails{}
		a.AlertName, a.AlertType, a.ContactID, a.QueryParams = name, alertutils.AlertTypeLogs, contactID, qp
		a.Condition, a.Value, a.EvalWindow, a.EvalInterval = alertutils.AlertQueryCondition(c.Cond), milli(c.Thr), c.W, c.I
		ad, err := e.db.CreateAlert(a)
		if err != nil {
			return nil, err
		}
		alertID = ad.AlertId
	}
	if alertID == "" {
		return nil, fmt.Errorf("alert not found after create")
	}
	_ = alertsHandler.RemoveCronJob(alertID)
	defer func() {
		db, _ := json.Marshal(map[string]string{"alert_id": alertID})
		callCtx(alertsHandler.ProcessDeleteAlertRequest, db, nil, "")
		cd, _ := json.Marshal(map[string]string{"contact_id": contactID})
		callCtx(alertsHandler.ProcessDeleteContactRequest, cd, nil, "")
	}()
	if c.Cooldown != 0 {
		if err := e.h.Model(&alertutils.Notification{}).Where("alert_id = ?", alertID).Update("cooldown_period", c.Cooldown).Error; err != nil {
			return nil, err
		}
	}
	cur, err := e.db.GetAlert(alertID) // the object the cron job would hold
	if err != nil {
		return nil, err
	}
	var obs []aObs
	for _, ev := range c.Events {
		switch ev.Kind {
		case "eval":
			if err := e.advance(alertID, ev.Gap); err != nil {
				return nil, err
			}
			before := len(e.received(path))
			matched, err := realMatched(c, ev.Vals)
			if err != nil {
				return nil, err
			}
			_ = alertsHandler.VerifHandleAlertCondition(cur, matched, "data")
			after, err := e.db.GetAlert(alertID)
			if err != nil {
				return nil, err
			}
			rec := e.received(path)
			o := aObs{State: int(after.State), Matched: 0}
			if matched {
				o.Matched = 1
			}
			if len(rec) == before+1 {
				switch rec[before] {
				case "firing":
					o.Sent = stFiring
				case "normal":
					o.Sent = stNormal
				default:
					o.Sent = 9
				}
			} else if len(rec) != before {
				o.Sent = 8 // more than one notification for one evaluation
			}
			obs = append(obs, o)
		case "update":
			st, b := callCtx(alertsHandler.ProcessUpdateAlertRequest, alertBody(name, contactID, c, ev.W, ev.I, alertID), nil, "")
			if st != 200 {
				return nil, fmt.Errorf("update alert: %d %s", st, b)
			}
			_ = alertsHandler.RemoveCronJob(alertID)
			if cur, err = e.db.GetAlert(alertID); err != nil {
				return nil, err
			}
			obs = append(obs, aObs{State: int(cur.State), Matched: 2})
		case "silence":
			sb, _ := json.Marshal(map[string]interface{}{"alert_id": alertID, "silence_minutes": ev.Minutes})
			f := alertsHandler.ProcessSilenceAlertRequest
			if ev.Minutes == 0 {
				f = alertsHandler.ProcessUnsilenceAlertRequest
			}
			if st, b := callCtx(f, sb, nil, ""); st != 200 {
				return nil, fmt.Errorf("silence: %d %s", st, b)
			}
			a2, err := e.db.GetAlert(alertID)
			if err != nil {
				return nil, err
			}
			obs = append(obs, aObs{State: int(a2.State), Matched: 2})
		}
	}
	return obs, nil
}

// ---- the property, evaluated on the observations (independent of the Coq model)
func alertOracle(c *aCase, obs []aObs, sum *vhlib.Summary) {
	fail := func(class, detail string) {
		sum.Fail(class, detail, map[string]interface{}{"case": c, "observed": obs})
	}
	w, iv := c.W, c.I
	var outcomes []bool
	var rows []string // history-producing events: "e" or "u"
	var now, lastSent int64
	lastKind := 0
	haveSent := false
	silence := uint64(0)
	prevState := stInactive
	for k, ev := range c.Events {
		o := obs[k]
		switch ev.Kind {
		case "update":
			w, iv = ev.W, ev.I
			rows = append(rows, "u")
			continue
		case "silence":
			silence = ev.Minutes
			continue
		}
		now += ev.Gap
		want := false
		for _, v := range ev.Vals {
			if specCond(v, c.Cond, c.Thr) {
				want = true
			}
		}
		if (o.Matched == 1) != want {
			fail("condition_operator_mismatch", fmt.Sprintf("cond=%d thr=%v vals=%v mode=%s: implementation says %v", c.Cond, milli(c.Thr), ev.Vals, c.Mode, o.Matched == 1))
			return
		}
		outcomes = append(outcomes, want)
		rows = append(rows, "e")
		n := uint64(0)
		if iv > 0 {
			n = w / iv
		}
		// state required by the property text
		exp := stNormal
		if want {
			exp = stPending
			if n >= 1 && uint64(len(outcomes)) >= n {
				all := true
				for _, b := range outcomes[uint64(len(outcomes))-n:] {
					all = all && b
				}
				if all {
					exp = stFiring
				}
			}
		}
		if o.State != exp {
			updInWindow := false
			for j := len(rows) - 1; j >= 0 && uint64(len(rows)-j) <= n; j-- {
				if rows[j] == "u" {
					updInWindow = true
				}
			}
			seq := ""
			for _, r := range c.Events[:k+1] {
				switch r.Kind {
				case "update":
					seq += "u"
				case "eval":
					t := false
					for _, v := range r.Vals {
						t = t || specCond(v, c.Cond, c.Thr)
					}
					if t {
						seq += "T"
					} else {
						seq += "F"
					}
				}
			}
			d := fmt.Sprintf("N=%d (window %d / interval %d) events %s: state %d after the last evaluation, the property requires %d", n, w, iv, seq, o.State, exp)
			if updInWindow {
				fail("alert_state_after_config_update", d)
			} else {
				fail("alert_state_not_function_of_last_N", d)
			}
			return
		}
		// notifications
		cdOpen := !haveSent || now-lastSent >= int64(c.Cooldown)*60
		silOpen := !haveSent || now-lastSent >= int64(silence)*60
		d := fmt.Sprintf("evaluation %d at t=%ds state %d->%d, cool-down %d min, silence %d min, last notification kind %d at t=%d: notification observed %d", k, now, prevState, o.State, c.Cooldown, silence, lastKind, lastSent, o.Sent)
		if o.Sent != 0 {
			if o.Sent != stFiring && o.Sent != stNormal {
				fail("notification_unexpected_kind_or_count", d)
				return
			}
			if o.Sent != o.State {
				fail("notification_kind_differs_from_state", d)
				return
			}
			if haveSent && now-lastSent < int64(c.Cooldown)*60 {
				fail("notification_repeated_within_cooldown", d)
				return
			}
			if o.Sent == stNormal && lastKind != stFiring {
				fail("normal_notification_without_preceding_firing", d)
				return
			}
		} else if c.Deliver {
			if o.State == stFiring && prevState != stFiring {
				if !cdOpen {
					fail("enter_firing_suppressed_by_cooldown", d)
				} else if silOpen {
					fail("firing_notification_missing", d)
					return
				}
			}
			if o.State == stNormal && lastKind == stFiring {
				if !cdOpen {
					fail("normal_notification_suppressed_by_cooldown", d)
				} else if silOpen {
					fail("normal_notification_missing", d)
					return
				}
			}
		}
		if o.Sent != 0 {
			haveSent, lastSent, lastKind = true, now, o.Sent
		}
		prevState = o.State
	}
}

func (c *aCase) coq(obs []aObs) string {
	var evs []string
	t := int64(0)
	for _, ev := range c.Events {
		switch ev.Kind {
		case "eval":
			t += ev.Gap
			vs := make([]string, len(ev.Vals))
			for i, v := range ev.Vals {
				vs[i] = vhlib.CoqZ(v)
			}
			evs = append(evs, fmt.Sprintf("CEval %s %s", vhlib.CoqZ(t), vhlib.CoqList(vs)))
		case "update":
			evs = append(evs, fmt.Sprintf("CUpdate %d %d", ev.W, ev.I))
		case "silence":
			evs = append(evs, fmt.Sprintf("CSilence %d", ev.Minutes))
		}
	}
	os_ := make([]string, len(obs))
	for i, o := range obs {
		os_[i] = fmt.Sprintf("(%d%%N,%d%%N,%d%%N)", o.State, o.Sent, o.Matched)
	}
	return fmt.Sprintf("mkCase %d %d %d %s %d %s %s %s", c.W, c.I, c.Cooldown, vhlib.CoqBool(c.Deliver), c.Cond, vhlib.CoqZ(c.Thr),
		vhlib.CoqList(evs), vhlib.CoqList(os_))
}

// ---- generators

// values of one evaluation with the wanted outcome under (cond, thr)
func genVals(r *vhlib.Rng, cond int, thr int64, want bool) []int64 {
	pool := []int64{thr, thr + 1, thr - 1, thr + 500, thr - 500, 0, thr + 1000000, -thr, 1, -1}
	for try := 0; try < 50; try++ {
		n := r.Range(0, 3)
		if want && n == 0 {
			n = 1
		}
		vals := make([]int64, n)
		got := false
		for i := range vals {
			vals[i] = vhlib.Pick(r, pool)
			got = got || specCond(vals[i], cond, thr)
		}
		if got == want {
			return vals
		}
	}
	// deterministic fall-back
	for _, v := range pool {
		if specCond(v, cond, thr) == want {
			return []int64{v}
		}
	}
	return nil
}

func mkCaseFromOutcomes(r *vhlib.Rng, stream string, n uint64, outs string) *aCase {
	iv := uint64(vhlib.Pick(r, []int{1, 1, 2, 5}))
	w := n*iv + uint64(r.Intn(int(iv)))
	c := &aCase{Stream: stream, W: w, I: iv, Deliver: true, Cond: r.Intn(5), Thr: int64(vhlib.Pick(r, []int{0, 1000, 2500, -3000, 7})),
		Mode: vhlib.Pick(r, []string{"measure", "measure", "records", "metrics"})}
	if c.Cond == 4 && c.Thr == 0 {
		c.Thr = 1000
	}
	for _, ch := range outs {
		switch ch {
		case 'T', 'F':
			c.Events = append(c.Events, aEvent{Kind: "eval", Gap: int64(iv) * 60, Vals: genVals(r, c.Cond, c.Thr, ch == 'T')})
		case 'u':
			c.Events = append(c.Events, aEvent{Kind: "update", W: w, I: iv})
		}
	}
	return c
}

func randOutcomes(r *vhlib.Rng, maxLen int) string {
	l := r.Range(1, maxLen)
	p := vhlib.Pick(r, []int{50, 70, 85})
	b := make([]byte, l)
	for i := range b {
		if r.Chance(p) {
			b[i] = 'T'
		} else {
			b[i] = 'F'
		}
	}
	return string(b)
}

func allOutcomes(maxLen int) []string {
	var res []string
	for l := 1; l <= maxLen; l++ {
		for x := 0; x < 1<<uint(l); x++ {
			b := make([]byte, l)
			for i := range b {
				if x>>uint(i)&1 == 1 {
					b[i] = 'T'
				} else {
					b[i] = 'F'
				}
			}
			res = append(res, string(b))
		}
	}
	return res
}

func genAlertCases(r *vhlib.Rng, thorough bool) []*aCase {
	var cs []*aCase
	// (1) plain evaluation sequences: exhaustive small scope + random
	exLen, nRand := 5, 120
	if thorough {
		exLen, nRand = 8, 1500
	}
	for n := uint64(1); n <= 3; n++ {
		for _, s := range allOutcomes(exLen) {
			cs = append(cs, mkCaseFromOutcomes(r, "plain_exhaustive", n, s))
		}
	}
	for i := 0; i < nRand; i++ {
		cs = append(cs, mkCaseFromOutcomes(r, "plain_random", uint64(r.Range(1, 4)), randOutcomes(r, 12)))
	}
	// (2) delivery fails: same state machine, no notifications
	for i := 0; i < nRand/10+3; i++ {
		c := mkCaseFromOutcomes(r, "no_delivery", uint64(r.Range(1, 3)), randOutcomes(r, 8))
		c.Deliver = false
		cs = append(cs, c)
	}
	// (3) silence (user-requested suppression): correspondence + invariants
	for i := 0; i < nRand/6+3; i++ {
		c := mkCaseFromOutcomes(r, "silence", uint64(r.Range(1, 3)), randOutcomes(r, 10))
		pos := r.Intn(len(c.Events) + 1)
		ev := aEvent{Kind: "silence", Minutes: uint64(vhlib.Pick(r, []int{1, 3, 10}))}
		c.Events = append(c.Events[:pos], append([]aEvent{ev}, c.Events[pos:]...)...)
		if r.Chance(40) {
			c.Events = append(c.Events, aEvent{Kind: "silence", Minutes: 0}, aEvent{Kind: "eval", Gap: 60, Vals: genVals(r, c.Cond, c.Thr, r.Bool())})
		}
		cs = append(cs, c)
	}
	// (4) KNOWN-CLASS stream: configuration updates between evaluations
	fixedU := []struct {
		n uint64
		s string
	}{{2, "TTuT"}, {3, "TTTuTT"}, {2, "TuTT"}, {1, "TuT"}, {3, "TTuTTT"}, {2, "TTuFTT"}}
	for _, f := range fixedU {
		cs = append(cs, mkCaseFromOutcomes(r, "updates", f.n, f.s))
	}
	for i := 0; i < nRand/3+5; i++ {
		s := []byte(randOutcomes(r, 10))
		for k := 0; k < r.Range(1, 2); k++ {
			pos := r.Intn(len(s) + 1)
			s = append(s[:pos], append([]byte{'u'}, s[pos:]...)...)
		}
		c := mkCaseFromOutcomes(r, "updates", uint64(r.Range(1, 4)), string(s))
		if r.Chance(30) { // the update changes N
			for k := range c.Events {
				if c.Events[k].Kind == "update" {
					n2 := uint64(r.Range(1, 3))
					c.Events[k].W, c.Events[k].I = n2*c.I, c.I
				}
			}
		}
		cs = append(cs, c)
	}
	// (5) KNOWN-CLASS stream: cool-down > 0 (the column is never set by siglens itself)
	cs = append(cs, &aCase{Stream: "cooldown", W: 1, I: 1, Cooldown: 10, Deliver: true, Cond: 0, Thr: 1000, Mode: "measure", Events: []aEvent{
		{Kind: "eval", Gap: 60, Vals: []int64{2000}}, {Kind: "eval", Gap: 60, Vals: []int64{0}}, {Kind: "eval", Gap: 60, Vals: []int64{2000}}, {Kind: "eval", Gap: 580, Vals: []int64{2000}}}})
	for i := 0; i < nRand/3+5; i++ {
		c := mkCaseFromOutcomes(r, "cooldown", uint64(r.Range(1, 3)), randOutcomes(r, 12))
		c.Cooldown = uint64(vhlib.Pick(r, []int{1, 2, 5, 10}))
		for k := range c.Events {
			c.Events[k].Gap = int64(vhlib.Pick(r, []int{60, 60, 120, 300, 600}))
		}
		cs = append(cs, c)
	}
	return cs
}

// ---- direct decision-function cases (need DB rows)
func (e *alertEnv) directCases(r *vhlib.Rng, sum *vhlib.Summary, out string, thorough bool) error {
	// evaluateConditions
	var condRows []string
	vals := []int64{0, 1, -1, 1000, 1001, 999, -1000, 2500, 2501, 1 << 40, -(1 << 40)}
	for cond := 0; cond <= 5; cond++ {
		for _, v := range vals {
			for _, thr := range []int64{0, 1000, 2500, -1000} {
				o := alertsHandler.VerifEvaluateConditions(milli(v), alertutils.AlertQueryCondition(cond), milli(thr))
				if o != specCond(v, cond, thr) {
					sum.Fail("condition_operator_mismatch", fmt.Sprintf("evaluateConditions(%v, cond %d, %v) = %v", milli(v), cond, milli(thr), o), map[string]interface{}{"v": v, "cond": cond, "thr": thr})
				}
				condRows = append(condRows, fmt.Sprintf("(%s,%d%%N,%s,%s)", vhlib.CoqZ(v), cond, vhlib.CoqZ(thr), vhlib.CoqBool(o)))
				sum.Eval(fmt.Sprintf("cond/%d/%d/%d", cond, v, thr), true)
				sum.Count("decision/evaluateConditions")
			}
		}
	}
	sum.WriteCaseFile(out, "cases_conditions", "From SigM Require Import Base Alert AlertCheck.\n",
		"Definition rows : list (Z * N * Z * bool) := "+vhlib.CoqListNL(condRows)+"%Z.\n", "bad_conditions rows", len(condRows))

	// shouldUpdateAlertStateToFiring / shouldSendNotification on prepared rows
	cb, _ := json.Marshal(map[string]interface{}{"contact_name": "c-direct", "webhook": []map[string]interface{}{{"webhook": e.srv.URL + "/direct"}}})
	callCtx(func(x *fasthttp.RequestCtx) { alertsHandler.ProcessCreateContactRequest(x, 0) }, cb, nil, "")
	contacts, _ := e.db.GetAllContactPoints(0)
	cid := ""
	for _, ct := range contacts {
		if ct.ContactName == "c-direct" {
			cid = ct.ContactId
		}
	}
	nf := 60
	if thorough {
		nf = 400
	}
	var fireRows, sendRows []string
	for k := 0; k < nf; k++ {
		a := &alertutils.AlertDetails{}
		a.AlertName, a.AlertType, a.ContactID, a.QueryParams = fmt.Sprintf("direct-%d", k), alertutils.AlertTypeLogs, cid, qp
		a.EvalInterval = uint64(vhlib.Pick(r, []int{1, 2, 3, 5}))
		a.EvalWindow = uint64(r.Range(0, 4))*a.EvalInterval + uint64(r.Intn(int(a.EvalInterval)))
		ad, err := e.db.CreateAlert(a)
		if err != nil {
			return err
		}
		hl := r.Range(0, 5)
		hist := make([]int, hl) // oldest first
		for i := range hist {
			hist[i] = vhlib.Pick(r, []int{0, 1, 2, 2, 3, 3, 3, 4, 4}) // 4 = row of a config change
			row := &alertutils.AlertHistoryDetails{AlertId: ad.AlertId, AlertType: 1, AlertState: alertutils.AlertState(hist[i]),
				EventDescription: "x", UserName: "u", EventTriggeredAt: time.Now().UTC()}
			if hist[i] == 4 {
				row.AlertState, row.EventDescription, row.UserName = alertutils.Inactive, alertutils.ConfigChange, alertutils.UserModified
			}
			_, err := e.db.CreateAlertHistory(row)
			if err != nil {
				return err
			}
		}
		curSt := vhlib.Pick(r, []int{2, 2, 2, 3, 1, 0})
		o := alertsHandler.VerifShouldUpdateAlertStateToFiring(&ad, alertutils.AlertState(curSt))
		hs := make([]string, hl)
		for i := range hist {
			hs[hl-1-i] = fmt.Sprint(hist[i]) // newest first
		}
		fireRows = append(fireRows, fmt.Sprintf("(%d,%d,%s,%d,%s)", a.EvalWindow, a.EvalInterval, vhlib.CoqList(hs), curSt, vhlib.CoqBool(o)))
		sum.Eval(fmt.Sprintf("fire/%d/%d/%v/%d", a.EvalWindow, a.EvalInterval, hist, curSt), true)
		sum.Count("decision/shouldUpdateAlertStateToFiring")

		// shouldSendNotification: set the notification row and the silence directly
		last := vhlib.Pick(r, []int{0, 1, 3, 3})
		cd := uint64(vhlib.Pick(r, []int{0, 0, 1, 5}))
		sil := uint64(vhlib.Pick(r, []int{0, 0, 2, 5}))
		ago := int64(vhlib.Pick(r, []int{-1, 30, 60, 90, 120, 300, 301, 600})) // -1 = never sent
		upd := map[string]interface{}{"last_alert_state": last, "cooldown_period": cd}
		if ago >= 0 {
			upd["last_sent_time"] = time.Now().UTC().Add(-time.Duration(ago)*time.Second - 300*time.Millisecond)
		}
		if err := e.h.Model(&alertutils.Notification{}).Where("alert_id = ?", ad.AlertId).Updates(upd).Error; err != nil {
			return err
		}
		if err := e.h.Model(&alertutils.AlertDetails{}).Where("alert_id = ?", ad.AlertId).Update("silence_minutes", sil).Error; err != nil {
			return err
		}
		det, _ := e.db.GetAlert(ad.AlertId)
		cs := vhlib.Pick(r, []int{1, 3, 3, 1, 2})
		so, err := alertsHandler.VerifShouldSendNotification(ad.AlertId, det, alertutils.AlertState(cs))
		if err != nil {
			return err
		}
		ls := "None"
		if ago >= 0 {
			ls = "(Some 0%Z)"
		}
		nowv := ago
		if ago < 0 {
			nowv = 0
		}
		sendRows = append(sendRows, fmt.Sprintf("(%d,%d,%s,%d%%Z,%d%%Z,%d%%Z,%s)", cs, last, ls, cd, sil, nowv, vhlib.CoqBool(so)))
		sum.Eval(fmt.Sprintf("send/%d/%d/%d/%d/%d", cs, last, cd, sil, ago), true)
		sum.Count("decision/shouldSendNotification")
		_ = e.db.DeleteAlert(ad.AlertId)
	}
	sum.WriteCaseFile(out, "cases_should_fire", "From SigM Require Import Base Alert AlertCheck.\n",
		"Definition rows : list (N * N * list N * N * bool) := "+vhlib.CoqListNL(fireRows)+".\n", "bad_should_fire rows", len(fireRows))
	sum.WriteCaseFile(out, "cases_should_send", "From SigM Require Import Base Alert AlertCheck.\n",
		"Definition rows : list (N * N * option Z * Z * Z * Z * bool) := "+vhlib.CoqListNL(sendRows)+".\n", "bad_should_send rows", len(sendRows))
	return nil
}

func runAlerts(cfg vhlib.Config, r *vhlib.Rng, sum *vhlib.Summary) {
	dir := filepath.Join(cfg.Out, "alertdata")
	_ = os.RemoveAll(dir)
	_ = os.MkdirAll(dir, 0o755)
	env, err := newAlertEnv(dir)
	if err != nil {
		sum.HarnessError("alert environment: " + err.Error())
		return
	}
	defer env.srv.Close()
	cases := genAlertCases(r.Fork(), cfg.Thorough())
	var rows []string
	shard := 0
	flush := func() {
		if len(rows) == 0 {
			return
		}
		sum.WriteCaseFile(cfg.Out, fmt.Sprintf("cases_alert_%d", shard), "From SigM Require Import Base Alert AlertCheck.\n",
			"Definition ks : list acase := "+vhlib.CoqListNL(rows)+"%Z.\n", "bad_cases ks", len(rows))
		shard++
		rows = nil
	}
	for _, c := range cases {
		obs, err := env.runAlertCase(c)
		if err != nil {
			sum.HarnessError("alert case (" + c.Stream + "): " + err.Error())
			continue
		}
		alertOracle(c, obs, sum)
		key := fmt.Sprintf("%d/%d/%d/%v/", c.W/c.I, c.Cooldown, c.Cond, c.Deliver)
		for i, ev := range c.Events {
			key += ev.Kind[:1] + fmt.Sprint(obs[i].Matched)
		}
		sum.Eval("alert/"+key, len(c.Events) >= 2)
		sum.Count("alert/" + c.Stream)
		sum.Count(fmt.Sprintf("alert/N=%d", c.W/c.I))
		if c.Stream == "updates" || c.Stream == "cooldown" {
			sum.Sample(map[string]interface{}{"case": c, "observed": obs})
		}
		rows = append(rows, c.coq(obs))
		if len(rows) >= 300 {
			flush()
		}
	}
	flush()
	if err := env.directCases(r.Fork(), sum, cfg.Out, cfg.Thorough()); err != nil {
		sum.HarnessError("direct decision cases: " + err.Error())
	}
	alertsHandler.Disconnect()
}

func main() {
	log.SetLevel(log.PanicLevel)
	log.SetOutput(io.Discard)
	if len(os.Args) > 1 && os.Args[1] == "worker" {
		workerMain(os.Args[2:])
		return
	}
	cfg := vhlib.ParseFlags()
	sum := vhlib.NewSummary("distinct = different (N, cool-down, operator, delivery, event/outcome sequence) for alert cases; different (store, op-kind sequence incl. restart positions, tenants) for keyed-store scenarios; non-trivial = at least 2 events / at least one write followed by a read")
	r := vhlib.NewRng(cfg.Seed*7919 + 20)
	t0 := time.Now()
	runAlerts(cfg, r.Fork(), sum)
	ta := time.Since(t0)
	runStores(cfg, r.Fork(), sum)
	sum.Notes = append(sum.Notes,
		"alert values and thresholds are decimals with at most 3 fractional digits (exact in the model as integers x1000); float64 rounding, NaN, Inf are not exercised",
		"fake clock: the stored last_sent_time is moved back; real elapsed time (milliseconds per evaluation) only adds to the virtual gaps, which are multiples of 60 s",
		fmt.Sprintf("alert part %.1fs, keyed stores %.1fs", ta.Seconds(), time.Since(t0).Seconds()-ta.Seconds()))
	sort.Strings(sum.Notes[:0])
	_ = strings.TrimSpace
	sum.Write(cfg.Out)
}

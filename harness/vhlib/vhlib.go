// Package vhlib: shared helpers of the verification harness: deterministic
// PRNG (splitmix64), Coq term printers, case-file and summary writers.
package vhlib

import (
	"sync"
	"encoding/json"
	"flag"
	"fmt"
	"os"
	"path/filepath"
	"sort"
	"strconv"
	"strings"
)

// ---------- PRNG ----------
type Rng struct{ s uint64 }

func NewRng(seed uint64) *Rng { return &Rng{s: seed} }
func (r *Rng) U64() uint64 {
	r.s += 0x9E3779B97F4A7C15
	z := r.s
	z = (z ^ (z >> 30)) * 0xBF58476D1CE4E5B9
	z = (z ^ (z >> 27)) * 0x94D049BB133111EB
	return z ^ (z >> 31)
}
func (r *Rng) Intn(n int) int {
	if n <= 0 {
		return 0
	}
	return int(r.U64() % uint64(n))
}
func (r *Rng) Bool() bool          { return r.U64()&1 == 1 }
func (r *Rng) Chance(p int) bool   { return r.Intn(100) < p } // p percent
func (r *Rng) Range(lo, hi int) int { return lo + r.Intn(hi-lo+1) }
func (r *Rng) Fork() *Rng          { return NewRng(r.U64()) }
func Pick[T any](r *Rng, xs []T) T { return xs[r.Intn(len(xs))] }

// ---------- Coq printers ----------
func CoqN(n uint64) string { return strconv.FormatUint(n, 10) }
func CoqZ(n int64) string {
	if n < 0 {
		return "(" + strconv.FormatInt(n, 10) + ")"
	}
	return strconv.FormatInt(n, 10)
}
func CoqBool(b bool) string {
	if b {
		return "true"
	}
	return "false"
}
func CoqBytes(b []byte) string {
	var sb strings.Builder
	sb.WriteByte('[')
	for i, x := range b {
		if i > 0 {
			sb.WriteByte(';')
		}
		sb.WriteString(strconv.Itoa(int(x)))
	}
	sb.WriteByte(']')
	return sb.String()
}
func CoqStr(s string) string { return CoqBytes([]byte(s)) }
func CoqList(items []string) string {
	return "[" + strings.Join(items, "; ") + "]"
}
func CoqListNL(items []string) string {
	return "[\n  " + strings.Join(items, ";\n  ") + "\n]"
}
func CoqOpt(ok bool, v string) string {
	if ok {
		return "(Some " + v + ")"
	}
	return "None"
}

// ---------- run configuration ----------
type Config struct {
	Tier   string
	Seed   uint64
	Out    string
	Replay string
}

func ParseFlags() Config {
	var c Config
	flag.StringVar(&c.Tier, "tier", "quick", "quick|thorough")
	flag.Uint64Var(&c.Seed, "seed", 1, "seed")
	flag.StringVar(&c.Out, "out", "", "output directory")
	flag.StringVar(&c.Replay, "replay", "", "replay file")
	flag.Parse()
	if c.Out == "" {
		fmt.Fprintln(os.Stderr, "--out required")
		os.Exit(2)
	}
	_ = os.MkdirAll(c.Out, 0o755)
	return c
}
func (c Config) Thorough() bool { return c.Tier == "thorough" }

// ---------- summary written for the python driver ----------
type Failure struct {
	Class  string      `json:"class"`  // signature class for known-findings matching
	Detail string      `json:"detail"` // human-readable
	Case   interface{} `json:"case"`   // minimal failing input (replay content)
}

// one lock for all summaries: harness goroutines (stress readers, workers) record concurrently
var sumMu sync.Mutex

type Summary struct {
	Evaluations        int            `json:"evaluations"`
	Distinct           int            `json:"distinct_nontrivial"`
	Rule               string         `json:"rule"`
	Distribution       map[string]int `json:"distribution"`
	Samples            []interface{}  `json:"samples"`
	OracleFailures     []Failure      `json:"oracle_failures"`
	CaseFiles          []string       `json:"case_files"`
	CasesToModel       int            `json:"cases_to_model"`
	HarnessErrors      []string       `json:"harness_errors"`
	Notes              []string       `json:"notes"`
	distinct           map[string]bool
}

func NewSummary(rule string) *Summary {
	return &Summary{Rule: rule, Distribution: map[string]int{}, distinct: map[string]bool{}}
}
func (s *Summary) Count(key string) {
	sumMu.Lock()
	defer sumMu.Unlock()
	s.Distribution[key]++
}
func (s *Summary) Eval(distinctKey string, nontrivial bool) {
	sumMu.Lock()
	defer sumMu.Unlock()
	s.Evaluations++
	if nontrivial && !s.distinct[distinctKey] {
		s.distinct[distinctKey] = true
		s.Distinct++
	}
}
func (s *Summary) Sample(v interface{}) {
	sumMu.Lock()
	defer sumMu.Unlock()
	if len(s.Samples) < 4 {
		s.Samples = append(s.Samples, v)
	}
}
func (s *Summary) Fail(class, detail string, c interface{}) {
	sumMu.Lock()
	defer sumMu.Unlock()
	// at most 3 recorded failures per class so that one noisy class cannot hide another
	n := 0
	for _, f := range s.OracleFailures {
		if f.Class == class {
			n++
		}
	}
	s.Distribution["oracle_fail/"+class]++
	if n < 3 && len(s.OracleFailures) < 60 {
		s.OracleFailures = append(s.OracleFailures, Failure{class, detail, c})
	}
}
func (s *Summary) HarnessError(e string) {
	sumMu.Lock()
	defer sumMu.Unlock()
	if len(s.HarnessErrors) < 20 {
		s.HarnessErrors = append(s.HarnessErrors, e)
	}
}
func (s *Summary) Write(dir string) {
	keys := make([]string, 0)
	for k := range s.Distribution {
		keys = append(keys, k)
	}
	sort.Strings(keys)
	b, _ := json.MarshalIndent(s, "", " ")
	_ = os.WriteFile(filepath.Join(dir, "summary.json"), b, 0o644)
}

// WriteCaseFile writes a Coq file that evaluates `expr` (a term of type list nat or
// list N: the indices of disagreeing cases) and prints it as M.
func (s *Summary) WriteCaseFile(dir, name, imports, defs, expr string, ncases int) {
	sumMu.Lock()
	defer sumMu.Unlock()
	var sb strings.Builder
	sb.WriteString("(* generated by the harness: implementation observations to be compared with the model *)\n")
	sb.WriteString(imports)
	sb.WriteString("\nOpen Scope N_scope.\n")
	sb.WriteString(defs)
	sb.WriteString("\nDefinition M := Eval vm_compute in (" + expr + ").\nPrint M.\n")
	p := filepath.Join(dir, name+".v")
	_ = os.WriteFile(p, []byte(sb.String()), 0o644)
	s.CaseFiles = append(s.CaseFiles, p)
	s.CasesToModel += ncases
}

//go:build verif

package query

// The start-up scan of the segment directories that InitQueryNode starts in a goroutine of its own
// (initSyncSegMetaForAllIds -> syncSegMetaWithSegFullMeta), run at a moment the harness chooses: the
// goroutine scheduled after the first flush of the process (C01 known class
// startup_scan_adopts_open_segment).  Add-only; compiled in through -overlay with the verif tag.
func VerifC01LateStartupScan(myId int64) int {
	return syncSegMetaWithSegFullMeta(myId, nil)
}

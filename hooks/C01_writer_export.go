//go:build verif

package writer

import (
	"sort"
)

// Read-only view of the open WIP block of every segstore (C01 correspondence).
// Add-only; compiled in through -overlay with the verif tag.

type VerifC01Col struct {
	Name    string
	Buf     []byte            // cbuf[:cbufidx]
	DeCount uint16            // deData.deCount
	Dict    map[string][]uint16 // deData.deMap (key = TLV bytes of the word)
	InBlock bool              // key present in columnsInBlock
	Bloom   bool              // key present in columnBlooms
	RI      bool              // key present in columnRangeIndexes
	Csg     string
}

type VerifC01Snap struct {
	StreamId    string
	SegKey      string
	RecCount    uint16
	RecordCount int
	NumBlocks   uint16
	LowTs       uint64
	HighTs      uint64
	MaxIdx      uint32
	Ts          []uint64
	Cols        []VerifC01Col
	Seen        map[string]uint32
	CardLimit   uint16
}

func verifC01Snap(streamid string, ss *SegStore) VerifC01Snap {
	s := VerifC01Snap{StreamId: streamid, SegKey: ss.SegmentKey, RecCount: ss.wipBlock.blockSummary.RecCount,
		RecordCount: ss.RecordCount, NumBlocks: ss.numBlocks, LowTs: ss.wipBlock.blockSummary.LowTs,
		HighTs: ss.wipBlock.blockSummary.HighTs, MaxIdx: ss.wipBlock.maxIdx, Seen: map[string]uint32{}, CardLimit: wipCardLimit}
	for i := 0; i < int(s.RecCount) && i < len(ss.wipBlock.blockTs); i++ {
		s.Ts = append(s.Ts, ss.wipBlock.blockTs[i])
	}
	for k, v := range ss.AllSeenColumnSizes {
		s.Seen[k] = v
	}
	names := make([]string, 0, len(ss.wipBlock.colWips))
	for n := range ss.wipBlock.colWips {
		names = append(names, n)
	}
	sort.Strings(names)
	for _, n := range names {
		cw := ss.wipBlock.colWips[n]
		c := VerifC01Col{Name: n, DeCount: cw.deData.deCount, Dict: map[string][]uint16{}, Csg: cw.csgFname}
		c.Buf = append([]byte{}, cw.cbuf.Slice(0, int(cw.cbufidx))...)
		for w, recs := range cw.deData.deMap {
			c.Dict[w] = append([]uint16{}, recs...)
		}
		_, c.InBlock = ss.wipBlock.columnsInBlock[n]
		_, c.Bloom = ss.wipBlock.columnBlooms[n]
		_, c.RI = ss.wipBlock.columnRangeIndexes[n]
		s.Cols = append(s.Cols, c)
	}
	return s
}

// VerifC01Snapshot returns the state of every open WIP block (sorted by stream id).
func VerifC01Snapshot() []VerifC01Snap {
	allSegStoresLock.RLock()
	defer allSegStoresLock.RUnlock()
	ids := make([]string, 0, len(allSegStores))
	for id := range allSegStores {
		ids = append(ids, id)
	}
	sort.Strings(ids)
	out := make([]VerifC01Snap, 0, len(ids))
	for _, id := range ids {
		ss := allSegStores[id]
		ss.Lock.Lock()
		out = append(out, verifC01Snap(id, ss))
		ss.Lock.Unlock()
	}
	return out
}

// VerifC01PackDict runs the real PackDictEnc on a scratch column holding the given dictionary.
func VerifC01PackDict(words [][]byte, recs [][]uint16, blkRecCount uint16) []byte {
	cw := InitColWip("verif", "verif")
	for i, w := range words {
		cw.deData.deMap[string(w)] = recs[i]
		cw.deData.deCount++
	}
	PackDictEnc(cw, blkRecCount)
	return append([]byte{}, cw.cbuf.Slice(0, int(cw.cbufidx))...)
}

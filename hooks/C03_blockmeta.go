//go:build verif

package metadata

import (
	segmetadata "github.com/siglens/siglens/pkg/segment/metadata"
	"github.com/siglens/siglens/pkg/segment/structs"
	sutils "github.com/siglens/siglens/pkg/segment/utils"
)

// C03 hook (add-only): doCmiChecks (block pruning of rotated segments) called directly.
// Returns the surviving block numbers.
func VerifC03DoCmiChecks(cmis []map[string]*structs.CmiContainer, isRange bool, col string, wildcardCol bool,
	lit string, op int, keys map[string]bool, orig map[string]string, and bool, wildcardValue bool, negate bool) map[uint16]bool {
	smi := segmetadata.VerifC03NewSmi(cmis)
	tf := map[uint16]map[string]bool{}
	for i := range cmis {
		tf[uint16(i)] = map[string]bool{}
	}
	cols := map[string]bool{}
	if !wildcardCol {
		cols[col] = true
	}
	bop := sutils.Or
	if and {
		bop = sutils.And
	}
	q := &structs.SearchQuery{}
	if negate {
		q.MatchFilter = &structs.MatchFilter{NegateMatch: true}
	}
	doCmiChecks(smi, tf, 0, map[string]string{col: lit}, sutils.FilterOperator(op), cols, q, isRange, wildcardCol, wildcardValue, keys, orig, bop)
	res := map[uint16]bool{}
	for k := range tf {
		res[k] = true
	}
	return res
}

// VerifC03DoCmiChecksCols: doCmiChecks for a leaf query as the search node holds it (parameters derived from the
// query as MicroIndexCheck / getAllSearchRequestsFromCmi do); returns, per surviving block, the columns the check
// recorded in timeFilteredBlocks[blk] (they become SegmentSearchRequest.CmiPassedCnames: the columns an all-column
// equality is searched in).  A dropped block has no entry.
func VerifC03DoCmiChecksCols(cmis []map[string]*structs.CmiContainer, q *structs.SearchQuery) map[uint16][]string {
	smi := segmetadata.VerifC03NewSmi(cmis)
	tf := map[uint16]map[string]bool{}
	for i := range cmis {
		tf[uint16(i)] = map[string]bool{}
	}
	rangeFilter, rangeOp, isRange := q.ExtractRangeFilterFromQuery(0)
	keys, orig, wildVal, bop := q.GetAllBlockBloomKeysToSearch()
	colsToCheck, wildCol := q.GetAllColumnsInQuery()
	doCmiChecks(smi, tf, 0, rangeFilter, rangeOp, colsToCheck, q, isRange, wildCol, wildVal, keys, orig, bop)
	res := map[uint16][]string{}
	for k, cols := range tf {
		res[k] = []string{}
		for c := range cols {
			res[k] = append(res[k], c)
		}
	}
	return res
}

//go:build verif

package metautils

import (
	"github.com/siglens/siglens/pkg/segment/structs"
	sutils "github.com/siglens/siglens/pkg/segment/utils"
)

// C03 hook (add-only): the unexported range-filter checkers, called directly.

func VerifC03UintPass(op int, lookup, minV, maxV uint64) bool {
	return doesUintPassRangeFilter(sutils.FilterOperator(op), lookup, minV, maxV)
}
func VerifC03IntPass(op int, lookup, minV, maxV int64) bool {
	return doesIntPassRangeFilter(sutils.FilterOperator(op), lookup, minV, maxV)
}
func VerifC03FloatPass(op int, lookup, minV, maxV float64) bool {
	return doesFloatPassRangeFilter(sutils.FilterOperator(op), lookup, minV, maxV)
}

// checkRangeIndexHelper on one range entry and a literal in its textual form.
func VerifC03RangeHelper(ri *structs.Numbers, lit string, op int) bool {
	return checkRangeIndexHelper(ri, lit, sutils.FilterOperator(op), 0)
}

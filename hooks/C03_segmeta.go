//go:build verif

package metadata

import (
	"sync"

	"github.com/siglens/siglens/pkg/segment/structs"
)

// C03 hook (add-only): a SegmentMicroIndex holding the given block micro indexes, so that the
// block pruning of rotated segments (doCmiChecks) can be called without files.
func VerifC03NewSmi(cmis []map[string]*structs.CmiContainer) *SegmentMicroIndex {
	smi := &SegmentMicroIndex{smiLock: &sync.RWMutex{}}
	smi.blockCmis = map[uint16]map[string]*structs.CmiContainer{}
	for i, c := range cmis {
		smi.blockCmis[uint16(i)] = c
		smi.BlockSummaries = append(smi.BlockSummaries, &structs.BlockSummary{})
	}
	return smi
}

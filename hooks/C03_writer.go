//go:build verif

package writer

import (
	"time"

	"github.com/bits-and-blooms/bloom/v3"
	dtu "github.com/siglens/siglens/pkg/common/dtypeutils"
	"github.com/siglens/siglens/pkg/segment/structs"
	sutils "github.com/siglens/siglens/pkg/segment/utils"
)

// C03 hook (add-only): range-index maintenance, bloom token insertion and the
// block pruning of unrotated segments, called directly.

// one numeric value as the writer sees it: Kind 0 = int64, 1 = uint64, 2 = float64
type VerifC03Num struct {
	Kind int
	I    int64
	U    uint64
	F    float64
}

// VerifC03RangeFold runs updateRangeIndex over the values of one column of one block.
func VerifC03RangeFold(vals []VerifC03Num) *structs.Numbers {
	m := map[string]*structs.Numbers{}
	for _, v := range vals {
		switch v.Kind {
		case 0:
			updateRangeIndex("c", m, sutils.SS_INT64, v.I, 0, 0)
		case 1:
			updateRangeIndex("c", m, sutils.SS_UINT64, 0, v.U, 0)
		default:
			updateRangeIndex("c", m, sutils.SS_FLOAT64, 0, 0, v.F)
		}
	}
	return m["c"]
}

// VerifC03BloomAdd adds the words with addToBlockBloomBothCasesWithBuf to a fresh filter (large enough
// that a false positive is out of the question for a handful of tokens) and returns, per word,
// the number of tokens the function reports as new, and the membership of every probe.
func VerifC03BloomAdd(words []string, probes []string) ([]uint32, []bool) {
	bf := bloom.NewWithEstimates(100000, 1e-9)
	cnt := make([]uint32, len(words))
	for i, w := range words {
		// as writeToBloom / writeDeBloom do: the work buffer is separate from the word
		n, err := addToBlockBloomBothCasesWithBuf(bf, []byte(w), make([]byte, len(w)+8))
		if err != nil {
			n = 1 << 30
		}
		cnt[i] = n
	}
	res := make([]bool, len(probes))
	for i, p := range probes {
		res[i] = bf.TestString(p)
	}
	return cnt, res
}

// a column micro index of one block: Kind 0 none, 1 bloom over Words (added with
// addToBlockBloomBothCases), 2 range (Range)
type VerifC03Cmi struct {
	Kind  int
	Words []string
	Range *structs.Numbers
}

func verifC03Container(col string, c VerifC03Cmi) *structs.CmiContainer {
	switch c.Kind {
	case 1:
		bf := bloom.NewWithEstimates(100000, 1e-9)
		for _, w := range c.Words {
			_, _ = addToBlockBloomBothCasesWithBuf(bf, []byte(w), make([]byte, len(w)+8))
		}
		return &structs.CmiContainer{CmiType: sutils.CMI_BLOOM_INDEX[0], Bf: bf}
	case 2:
		return &structs.CmiContainer{CmiType: sutils.CMI_RANGE_INDEX[0], Ranges: map[string]*structs.Numbers{col: c.Range}}
	}
	return nil
}

func VerifC03Containers(blocks []map[string]VerifC03Cmi) []map[string]*structs.CmiContainer {
	out := make([]map[string]*structs.CmiContainer, len(blocks))
	for i, b := range blocks {
		out[i] = map[string]*structs.CmiContainer{}
		for col, c := range b {
			if cc := verifC03Container(col, c); cc != nil {
				out[i][col] = cc
			}
		}
	}
	return out
}

// VerifC03UnrotatedRange: doRangeCheckForCols of an unrotated segment; returns the surviving block numbers.
func VerifC03UnrotatedRange(blocks []map[string]VerifC03Cmi, col, lit string, op int) map[uint16]bool {
	usi := &UnrotatedSegmentInfo{isCmiLoaded: true, unrotatedBlockCmis: VerifC03Containers(blocks)}
	tf := map[uint16]map[string]bool{}
	for i := range blocks {
		tf[uint16(i)] = map[string]bool{}
	}
	_ = usi.doRangeCheckForCols(tf, map[string]string{col: lit}, sutils.FilterOperator(op), map[string]bool{col: true}, 0)
	res := map[uint16]bool{}
	for k := range tf {
		res[k] = true
	}
	return res
}

// VerifC03UnrotatedBloom: doBloomCheckForCols of an unrotated segment.
func VerifC03UnrotatedBloom(blocks []map[string]VerifC03Cmi, cols []string, keys map[string]bool, orig map[string]string, and bool) map[uint16]bool {
	usi := &UnrotatedSegmentInfo{isCmiLoaded: true, unrotatedBlockCmis: VerifC03Containers(blocks)}
	tf := map[uint16]map[string]bool{}
	for i := range blocks {
		tf[uint16(i)] = map[string]bool{}
	}
	cm := map[string]bool{}
	for _, c := range cols {
		cm[c] = true
	}
	op := sutils.Or
	if and {
		op = sutils.And
	}
	_ = usi.doBloomCheckForCols(tf, keys, orig, op, cm, 0)
	res := map[uint16]bool{}
	for k := range tf {
		res[k] = true
	}
	return res
}

// VerifC03Windows: for the segstore handed to hooks.GlobalHooks.AfterWritingToSegment, what
// getLastRecord() returns for every column of the open block right after a record was written
// (this is the slice the ingest-time persistent-query evaluator of segstream.go looks at).
func VerifC03Windows(segstore interface{}) map[string][]byte {
	ss, ok := segstore.(*SegStore)
	if !ok || ss == nil {
		return nil
	}
	out := map[string][]byte{}
	for name, cw := range ss.wipBlock.colWips {
		if cw == nil || cw.cstartidx > cw.cbufidx {
			out[name] = []byte{0xff, 0xff, 0xff}
			continue
		}
		out[name] = append([]byte{}, cw.getLastRecord()...)
	}
	return out
}

// VerifC03UnrotatedText: DoCMICheckForUnrotated (the whole micro-index decision of an open segment) for a text
// query on column col ("*" = every column): keys / original keys, And / Or, wildcard value, NegateMatch.
func VerifC03UnrotatedText(blocks []map[string]VerifC03Cmi, col string, keys map[string]bool, orig map[string]string,
	and bool, wildcardValue bool, negate bool) map[uint16]bool {
	usi := &UnrotatedSegmentInfo{isCmiLoaded: true, unrotatedBlockCmis: VerifC03Containers(blocks), allColumns: map[string]bool{}}
	for _, b := range blocks {
		usi.blockSummaries = append(usi.blockSummaries, &structs.BlockSummary{LowTs: 10, HighTs: 20, RecCount: 1})
		for c := range b {
			usi.allColumns[c] = true
		}
	}
	op := sutils.Or
	if and {
		op = sutils.And
	}
	q := &structs.SearchQuery{MatchFilter: &structs.MatchFilter{MatchColumn: col, NegateMatch: negate}}
	tf, _, _, _ := usi.DoCMICheckForUnrotated(q, &dtu.TimeRange{StartEpochMs: 1, EndEpochMs: 100}, structs.InitEntireFileBlockTracker(),
		keys, orig, op, nil, sutils.Equals, false, wildcardValue, 0)
	res := map[uint16]bool{}
	for k := range tf {
		res[k] = true
	}
	return res
}

// VerifC03UnrotatedTextCols: DoCMICheckForUnrotated for a leaf query as the search node holds it (parameters derived
// from the query as extractUnrotatedSSRFromCondition does); returns, per surviving block, the columns the check
// recorded (the candidate columns of an all-column equality).
func VerifC03UnrotatedTextCols(blocks []map[string]VerifC03Cmi, q *structs.SearchQuery) map[uint16][]string {
	usi := &UnrotatedSegmentInfo{isCmiLoaded: true, unrotatedBlockCmis: VerifC03Containers(blocks), allColumns: map[string]bool{}}
	for _, b := range blocks {
		usi.blockSummaries = append(usi.blockSummaries, &structs.BlockSummary{LowTs: 10, HighTs: 20, RecCount: 1})
		for c := range b {
			usi.allColumns[c] = true
		}
	}
	rangeFilter, rangeOp, isRange := q.ExtractRangeFilterFromQuery(0)
	keys, orig, wildVal, bop := q.GetAllBlockBloomKeysToSearch()
	tf, _, _, _ := usi.DoCMICheckForUnrotated(q, &dtu.TimeRange{StartEpochMs: 1, EndEpochMs: 100}, structs.InitEntireFileBlockTracker(),
		keys, orig, bop, rangeFilter, rangeOp, isRange, wildVal, 0)
	res := map[uint16][]string{}
	for k, cols := range tf {
		res[k] = []string{}
		for c := range cols {
			res[k] = append(res[k], c)
		}
	}
	return res
}

// the micro index one block of an open segment holds for a column: Kind 0 none, 1 bloom, 2 range
type VerifC03BlockRange struct {
	Seg   string
	Block int
	Kind  int
	Range structs.Numbers
}

// VerifC03UnrotatedRanges: what the unrotated segment info (the structure DoCMICheckForUnrotated consults) holds for
// column col in every block of every open segment, in block order.
func VerifC03UnrotatedRanges(col string) []VerifC03BlockRange {
	UnrotatedInfoLock.RLock()
	defer UnrotatedInfoLock.RUnlock()
	var out []VerifC03BlockRange
	for seg, usi := range AllUnrotatedSegmentInfo {
		for b, cmis := range usi.unrotatedBlockCmis {
			r := VerifC03BlockRange{Seg: seg, Block: b}
			if c, ok := cmis[col]; ok && c != nil {
				if c.Ranges != nil && c.Ranges[col] != nil {
					r.Kind = 2
					r.Range = *c.Ranges[col]
				} else if c.Bf != nil {
					r.Kind = 1
				}
			}
			out = append(out, r)
		}
	}
	return out
}

// VerifC03DrainPqsChan: what listenBackFillAndEmptyPQSRequests does on its 10 s tick, now: collects the requests
// queued on pqsChan (waiting up to waitMs for the senders, which are started with `go` at rotation) and hands
// them to processBackFillAndEmptyPQSRequests.  Returns the number of requests processed.  Meant for a node on
// which the listener goroutine is not running (first start on an empty data directory).
func VerifC03DrainPqsChan(waitMs int) int {
	var buf []PQSChanMeta
	deadline := time.Now().Add(time.Duration(waitMs) * time.Millisecond)
	for {
		select {
		case m := <-pqsChan:
			buf = append(buf, m)
			continue
		default:
		}
		if time.Now().After(deadline) {
			break
		}
		time.Sleep(5 * time.Millisecond)
	}
	processBackFillAndEmptyPQSRequests(buf)
	return len(buf)
}

// VerifC03UnrotatedTime: DoCMICheckForUnrotated of an open segment whose block summaries are sums (LowTs, HighTs in
// the order the blocks were written) for a query without any micro-index work (wildcard value), the query time
// range [start, end] and the given block tracker; returns the block numbers that stay.
func VerifC03UnrotatedTime(sums [][2]uint64, start, end uint64, tracker *structs.BlockTracker) []uint16 {
	usi := &UnrotatedSegmentInfo{isCmiLoaded: true, allColumns: map[string]bool{}}
	for _, s := range sums {
		usi.blockSummaries = append(usi.blockSummaries, &structs.BlockSummary{LowTs: s[0], HighTs: s[1], RecCount: 1})
		usi.unrotatedBlockCmis = append(usi.unrotatedBlockCmis, map[string]*structs.CmiContainer{})
	}
	q := &structs.SearchQuery{MatchFilter: &structs.MatchFilter{MatchColumn: "*"}}
	tf, _, _, _ := usi.DoCMICheckForUnrotated(q, &dtu.TimeRange{StartEpochMs: start, EndEpochMs: end}, tracker,
		nil, nil, sutils.Or, nil, sutils.Equals, false, true, 0)
	res := []uint16{}
	for k := range tf {
		res = append(res, k)
	}
	return res
}

//go:build verif

package aggregations

import (
	"github.com/siglens/siglens/pkg/segment/structs"
	sutils "github.com/siglens/siglens/pkg/segment/utils"
)

// VerifC04LegacyBinTime: the copy of the `bin` time-bucket computation used by the row-based (legacy) pipeline.
func VerifC04LegacyBinTime(value float64, num float64, unit sutils.TimeUnit, alignTime *uint64) (uint64, error) {
	return performBinWithSpanTime(value, &structs.BinSpanOptions{BinSpanLength: &structs.BinSpanLength{Num: num, TimeScale: unit}}, alignTime)
}

//go:build verif

package processor

import (
	"github.com/siglens/siglens/pkg/segment/structs"
	sutils "github.com/siglens/siglens/pkg/segment/utils"
)

// VerifC04BinTime: the time-bucket computation of the new-pipeline `bin <timefield> span=<num><unit> [aligntime=<T>]`
// (binProcessor.performBinWithSpanTime -> getTimeBucketWithAlign / day, week arithmetic), called exactly as Process does.
func VerifC04BinTime(value float64, num float64, unit sutils.TimeUnit, alignTime *uint64) (uint64, error) {
	p := &binProcessor{options: &structs.BinCmdOptions{
		BinSpanOptions: &structs.BinSpanOptions{BinSpanLength: &structs.BinSpanLength{Num: num, TimeScale: unit}},
		AlignTime:      alignTime,
	}}
	return p.performBinWithSpanTime(value, alignTime)
}

//go:build verif

package processor

// Add-only exports for the C05 verification harness: the block-level scheduler
// functions of the searcher, the segment-level selection, and the comparator /
// stream processor of `sort`.  Nothing here changes behaviour.

import (
	"fmt"
	"io"

	dtu "github.com/siglens/siglens/pkg/common/dtypeutils"
	"github.com/siglens/siglens/pkg/segment/query"
	"github.com/siglens/siglens/pkg/segment/query/iqr"
	"github.com/siglens/siglens/pkg/segment/structs"
	sutils "github.com/siglens/siglens/pkg/segment/utils"
	"github.com/siglens/siglens/pkg/utils"
)

const (
	VerifRecentFirst = int(recentFirst)
	VerifRecentLast  = int(recentLast)
	VerifAnyOrder    = int(anyOrder)
)

// VerifBlock is a block handle; ID is only for the harness.
type VerifBlock struct {
	b  *block
	ID int
}

func VerifNewBlock(id int, lowTs, highTs uint64) *VerifBlock {
	return &VerifBlock{ID: id, b: &block{
		BlockSummary: &structs.BlockSummary{LowTs: lowTs, HighTs: highTs, RecCount: 1},
		BlkNum:       uint16(id),
	}}
}

func (v *VerifBlock) Low() uint64  { return v.b.LowTs }
func (v *VerifBlock) High() uint64 { return v.b.HighTs }

func toBlocks(vs []*VerifBlock) []*block {
	out := make([]*block, len(vs))
	for i, v := range vs {
		out[i] = v.b
	}
	return out
}

// VerifSortBlocks runs the real sortBlocks and returns the ids in the resulting order.
func VerifSortBlocks(vs []*VerifBlock, mode int) ([]int, error) {
	bl := toBlocks(vs)
	byPtr := make(map[*block]int, len(vs))
	for _, v := range vs {
		byPtr[v.b] = v.ID
	}
	if err := sortBlocks(bl, sortMode(mode)); err != nil {
		return nil, err
	}
	ids := make([]int, len(bl))
	for i, b := range bl {
		ids[i] = byPtr[b]
	}
	return ids, nil
}

// VerifGetNextBlocks runs the real getNextBlocks; returns the number of blocks taken
// (they are always a prefix; prefixOK reports whether that held) and the end time.
func VerifGetNextBlocks(vs []*VerifBlock, maxBlocks int, mode int) (n int, endTime uint64, prefixOK bool, err error) {
	bl := toBlocks(vs)
	next, e, err := getNextBlocks(bl, maxBlocks, sortMode(mode))
	if err != nil {
		return 0, 0, false, err
	}
	prefixOK = len(next) <= len(bl)
	for i := 0; prefixOK && i < len(next); i++ {
		if next[i] != bl[i] {
			prefixOK = false
		}
	}
	return len(next), e, prefixOK, nil
}

// VerifGetValidRRCs runs the real getValidRRCs on RRCs with the given timestamps.
func VerifGetValidRRCs(ts []uint64, last uint64, mode int) (int, bool, error) {
	rrcs := make([]*sutils.RecordResultContainer, len(ts))
	for i, t := range ts {
		rrcs[i] = &sutils.RecordResultContainer{TimeStamp: t, RecordNum: uint16(i)}
	}
	out, err := getValidRRCs(rrcs, last, sortMode(mode))
	if err != nil {
		return 0, false, err
	}
	prefix := len(out) <= len(rrcs)
	for i := 0; prefix && i < len(out); i++ {
		if out[i] != rrcs[i] {
			prefix = false
		}
	}
	return len(out), prefix, nil
}

// ---- segment level ----

type VerifSeg struct {
	Start, End uint64
	Blocks     []*VerifBlock
}

type VerifSearcher struct {
	s      *Searcher
	qsrs   []*query.QuerySegmentRequest
	blocks map[*query.QuerySegmentRequest][]*block
	ids    map[*block]int
}

// VerifNewSearcher builds a Searcher that holds only what getQSRSToProcess and
// getFilteredBlocks use: sortMode, the queue of unprocessed QSRs (in the given order),
// processedBlocks.
func VerifNewSearcher(mode int, segs []VerifSeg) *VerifSearcher {
	v := &VerifSearcher{
		s:      &Searcher{sortMode: sortMode(mode), qid: 1},
		blocks: map[*query.QuerySegmentRequest][]*block{},
		ids:    map[*block]int{},
	}
	for i, sg := range segs {
		qsr := &query.QuerySegmentRequest{}
		qsr.SetSegKey(fmt.Sprintf("seg%03d", i))
		qsr.SetTimeRange(&dtu.TimeRange{StartEpochMs: sg.Start, EndEpochMs: sg.End})
		v.qsrs = append(v.qsrs, qsr)
		for _, vb := range sg.Blocks {
			vb.b.parentQSR = qsr
			v.blocks[qsr] = append(v.blocks[qsr], vb.b)
			v.ids[vb.b] = vb.ID
		}
	}
	v.s.qsrs = v.qsrs
	v.s.initUnprocessedQSRs()
	return v
}

// Step = the selection part of getBlocks: getQSRSToProcess, all blocks of the chosen
// QSRs in QSR order (what getBlocks collects from the metadata), getFilteredBlocks.
func (v *VerifSearcher) Step() (taken []int, queue [][2]uint64, cutoff uint64, gotAll bool, err error) {
	qsrs, err := v.s.getQSRSToProcess()
	if err != nil {
		return nil, nil, 0, false, err
	}
	all := make([]*block, 0)
	for _, q := range qsrs {
		all = append(all, v.blocks[q]...)
	}
	for _, b := range v.s.getFilteredBlocks(all) {
		taken = append(taken, v.ids[b])
	}
	for e := v.s.unprocessedQSRs.Front(); e != nil; e = e.Next() {
		q := e.Value.(*query.QuerySegmentRequest)
		queue = append(queue, [2]uint64{q.GetStartEpochMs(), q.GetEndEpochMs()})
	}
	return taken, queue, v.s.cutOffTimestampInMs, v.s.gotAllSegments, nil
}

// ---- sort command ----

// VerifCompareValues: 1 EQUAL, 2 LESS, 3 GREATER (the values of the `compare` type).
func VerifCompareValues(a, b *sutils.CValueEnclosure, asc bool, op string) int {
	return int(compareValues(a, b, asc, op))
}

// VerifSortProcess feeds the batches to a real sortProcessor and returns the value of
// column idCol of the final result, in order.
func VerifSortProcess(eles []*structs.SortElement, limit uint64,
	batches []map[string][]sutils.CValueEnclosure, idCol string) ([]sutils.CValueEnclosure, error) {

	p := &sortProcessor{options: &structs.SortExpr{SortEles: eles, Limit: limit}}
	for _, b := range batches {
		in := iqr.NewIQR(0)
		if err := in.AppendKnownValues(b); err != nil {
			return nil, err
		}
		if _, err := p.Process(in); err != nil && err != io.EOF {
			return nil, err
		}
	}
	out, err := p.Process(nil)
	if err != nil && err != io.EOF {
		return nil, err
	}
	if out == nil || out.NumberOfRecords() == 0 {
		return nil, nil
	}
	return out.ReadColumn(idCol)
}

// VerifHeadProcess feeds batches (column idCol only) to a real headProcessor; it stops
// fetching after EOF like the pipeline does.
func VerifHeadProcess(limit uint64, batches [][]sutils.CValueEnclosure, idCol string) ([]sutils.CValueEnclosure, error) {
	p := &headProcessor{options: &structs.HeadExpr{MaxRows: limit}}
	var res []sutils.CValueEnclosure
	for _, b := range batches {
		in := iqr.NewIQR(0)
		if err := in.AppendKnownValues(map[string][]sutils.CValueEnclosure{idCol: b}); err != nil {
			return nil, err
		}
		out, err := p.Process(in)
		if err != nil && err != io.EOF {
			return nil, err
		}
		if out != nil && out.NumberOfRecords() > 0 {
			vals, rerr := out.ReadColumn(idCol)
			if rerr != nil {
				return nil, rerr
			}
			res = append(res, vals...)
		}
		if err == io.EOF {
			break
		}
	}
	return res, nil
}

// VerifTailProcess feeds batches to a real tailProcessor.
func VerifTailProcess(n uint64, batches [][]sutils.CValueEnclosure, idCol string) ([]sutils.CValueEnclosure, error) {
	p := &tailProcessor{options: &structs.TailExpr{TailRows: n}}
	for _, b := range batches {
		in := iqr.NewIQR(0)
		if err := in.AppendKnownValues(map[string][]sutils.CValueEnclosure{idCol: b}); err != nil {
			return nil, err
		}
		if _, err := p.Process(in); err != nil && err != io.EOF {
			return nil, err
		}
	}
	out, err := p.Process(nil)
	if err != nil && err != io.EOF {
		return nil, err
	}
	if out == nil || out.NumberOfRecords() == 0 {
		return nil, nil
	}
	return out.ReadColumn(idCol)
}


// ---------------------------------------------------------------------------
// sort-index route of the searcher (round j)
// ---------------------------------------------------------------------------

// VerifSortIdxRec is one record handed by the searcher to the rest of the pipeline.
type VerifSortIdxRec struct {
	Seg   int    `json:"seg"`
	Block uint16 `json:"b"`
	Rec   uint16 `json:"r"`
}

// VerifDrainSortIndexSearcher runs the real Searcher.fetchColumnSortedRRCs (quota =
// max(100, limit/#segments) unless batch > 0) over segments that have a sort index for the
// first sort field, for a match-all query whose time range encloses the segments - the state
// the searcher of a non-parallel `sort` query is in - until io.EOF.
func VerifDrainSortIndexSearcher(segKeys []string, fields []string, ops []string, asc []bool,
	limit uint64, batch int, maxFetches int) (batches [][]VerifSortIdxRec, eof bool, err error) {

	tr := &dtu.TimeRange{StartEpochMs: 0, EndEpochMs: 1 << 62}
	qsrs := make([]*query.QuerySegmentRequest, 0, len(segKeys))
	segIdx := make(map[string]int)
	for i, k := range segKeys {
		qsr := &query.QuerySegmentRequest{}
		qsr.SetSegKey(k)
		qsr.SetTimeRange(tr)
		qsrs = append(qsrs, qsr)
		segIdx[k] = i
	}
	queryInfo := &query.QueryInformation{}
	queryInfo.SetSearchNodeType(structs.MatchAllQuery)
	queryInfo.SetQueryTimeRange(tr)
	eles := make([]*structs.SortElement, len(fields))
	for i := range fields {
		eles[i] = &structs.SortElement{Field: fields[i], Op: ops[i], SortByAsc: asc[i]}
	}
	s := &Searcher{
		sortIndexState: sortIndexState{numRecordsPerBatch: batch},
		queryInfo:      queryInfo,
		sortExpr:       &structs.SortExpr{SortEles: eles, Limit: limit},
		segEncToKey:    utils.NewTwoWayMap[uint32, string](),
		qsrs:           qsrs,
	}
	for i := 0; i < maxFetches; i++ {
		res, ferr := s.fetchColumnSortedRRCs()
		if ferr != nil && ferr != io.EOF {
			return batches, false, ferr
		}
		if res != nil && res.NumberOfRecords() > 0 {
			encToKey := s.segEncToKey.GetMapCopy()
			var b []VerifSortIdxRec
			for _, rrc := range res.GetRRCs() {
				k, ok := encToKey[rrc.SegKeyInfo.SegKeyEnc]
				si := -1
				if ok {
					si = segIdx[k]
				}
				b = append(b, VerifSortIdxRec{Seg: si, Block: rrc.BlockNum, Rec: rrc.RecordNum})
			}
			batches = append(batches, b)
		}
		if ferr == io.EOF {
			return batches, true, nil
		}
	}
	return batches, false, nil
}

//go:build verif

package processor

import "github.com/siglens/siglens/pkg/segment/query/iqr"

// VerifSetMergeSettings is what NewQueryProcessor's chainFactory does after
// AggsToDataProcessors (C06: chains built through the real planner).
func VerifSetMergeSettings(chain []*DataProcessor) {
	_ = setMergeSettings(chain)
}

// VerifNewOrderedMergerDP builds the merger DataProcessor that SetupQueryParallelism puts
// behind parallel sort chains: several input streams, each ordered by the numeric column
// `field` ascending, merged under a row limit (C06: several upstream streams, one or two passes).
func VerifNewOrderedMergerDP(field string, limit uint64) *DataProcessor {
	less := func(a, b *iqr.Record) bool {
		va, errA := a.ReadColumn(field)
		vb, errB := b.ReadColumn(field)
		if errA != nil || errB != nil {
			return errB != nil && errA == nil
		}
		fa, errA := va.GetFloatValue()
		fb, errB := vb.GetFloatValue()
		if errA != nil || errB != nil {
			return errB != nil && errA == nil
		}
		return fa < fb
	}
	ms := mergeSettings{less: less}
	ms.limit.Set(limit)
	return NewMergerDP(ms)
}

// verifOrderedLess orders records by the numeric column `field`, ascending.
func verifOrderedLess(field string) func(a, b *iqr.Record) bool {
	return func(a, b *iqr.Record) bool {
		va, errA := a.ReadColumn(field)
		vb, errB := b.ReadColumn(field)
		if errA != nil || errB != nil {
			return errB != nil && errA == nil
		}
		fa, errA := va.GetFloatValue()
		fb, errB := vb.GetFloatValue()
		if errA != nil || errB != nil {
			return errB != nil && errA == nil
		}
		return fa < fb
	}
}

// VerifNewOrderedMergerDPOpt is VerifNewOrderedMergerDP with an optional row limit (a merger
// behind parallel chains whose order comes from a command without a limit).
func VerifNewOrderedMergerDPOpt(field string, limit uint64, hasLimit bool) *DataProcessor {
	ms := mergeSettings{less: verifOrderedLess(field)}
	if hasLimit {
		ms.limit.Set(limit)
	}
	return NewMergerDP(ms)
}

// VerifSetOrderedMerge gives a DataProcessor the merge settings it needs to read SEVERAL input
// streams that are ordered by the numeric column `field` (what SetMergeSettingsBasedOnStream /
// setMergeSettings do for the real orders); the streams are then set with SetStreams.
func VerifSetOrderedMerge(dp *DataProcessor, field string) {
	dp.mergeSettings.less = verifOrderedLess(field)
	dp.mergeSettings.limit.Clear()
}

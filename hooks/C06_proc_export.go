//go:build verif

package processor

import "github.com/siglens/siglens/pkg/segment/query/iqr"

// VerifSetMergeSettings is what NewQueryProcessor's chainFactory does after
// AggsToDataProcessors (C06: chains built through the real planner).
func VerifSetMergeSettings(chain []*DataProcessor) {
	_ = setMergeSettings(chain)
}

// VerifNewOrderedMergerDP builds the merger DataProcessor that SetupQueryParallelism puts
// behind parallel sort chains: several input streams, each ordered by the numeric column
// `field` ascending, merged under a row limit (C06: several upstream streams, one or two passes).
func VerifNewOrderedMergerDP(field string, limit uint64) *DataProcessor {
	less := func(a, b *iqr.Record) bool {
		va, errA := a.ReadColumn(field)
		vb, errB := b.ReadColumn(field)
		if errA != nil || errB != nil {
			return errB != nil && errA == nil
		}
		fa, errA := va.GetFloatValue()
		fb, errB := vb.GetFloatValue()
		if errA != nil || errB != nil {
			return errB != nil && errA == nil
		}
		return fa < fb
	}
	ms := mergeSettings{less: less}
	ms.limit.Set(limit)
	return NewMergerDP(ms)
}

//go:build verif

package processor

// VerifSetMergeSettings is what NewQueryProcessor's chainFactory does after
// AggsToDataProcessors (C06: chains built through the real planner).
func VerifSetMergeSettings(chain []*DataProcessor) {
	_ = setMergeSettings(chain)
}

//go:build verif

package metrics

import (
	"fmt"
	"time"
)

// VerifPreimage returns the bytes GetTSID hashed (valid right after GetTSID).
func (th *TagsHolder) VerifPreimage() []byte {
	out := make([]byte, th.buf.Len())
	copy(out, th.buf.Bytes())
	return out
}

// VerifFlushDpWalBuffers appends the buffered datapoints of every open block to its WAL file, exactly as
// timeBasedWalDPSFlush does once a second.
func VerifFlushDpWalBuffers() error {
	for _, ms := range GetAllMetricsSegments() {
		ms.mBlock.dpWalState.lock.Lock()
		if ms.mBlock.dpWalState.dpIdx > 0 {
			if err := ms.mBlock.dpWalState.currentWal.Append(ms.mBlock.dpWalState.dpsInWalMem[0:ms.mBlock.dpWalState.dpIdx]); err != nil {
				ms.mBlock.dpWalState.lock.Unlock()
				return err
			}
			ms.mBlock.dpWalState.dpIdx = 0
		}
		ms.mBlock.dpWalState.lock.Unlock()
	}
	return nil
}

// VerifSegKeys returns the key (file name prefix) of every open metrics segment.
func VerifSegKeys() []string {
	var out []string
	for _, ms := range GetAllMetricsSegments() {
		out = append(out, fmt.Sprintf("%s%d", ms.metricsKeyBase, ms.Suffix))
	}
	return out
}

// VerifAgeTagsTreeHolders makes every tags tree holder look d older (CheckAndRotate moves a holder that is more than
// 24 hours old to a new directory at a size-based segment rotation; a check cannot wait a day).
func VerifAgeTagsTreeHolders(d time.Duration) int {
	orgMetricsAndTagsLock.RLock()
	defer orgMetricsAndTagsLock.RUnlock()
	n := 0
	for _, mt := range OrgMetricsAndTags {
		for _, tt := range mt.TagHolders {
			tt.createdTime = tt.createdTime.Add(-d)
			n++
		}
	}
	return n
}

// VerifFlushDirtyTagsTrees is one round of timeBasedTagsTreeFlush (every TAGS_TREE_FLUSH_SLEEP_DURATION seconds on a
// server): every tags tree that changed since its last flush is written to its holder's directory.
func VerifFlushDirtyTagsTrees() error {
	for _, tth := range GetAllTagsTreeHolders() {
		for tagKey, tt := range tth.allTrees {
			if tt.dirty {
				if err := tt.flushSingleTagsTree(tagKey, tth.tagstreeBase); err != nil {
					return err
				}
			}
		}
	}
	return nil
}

//go:build verif

package metrics

import "fmt"

// VerifPreimage returns the bytes GetTSID hashed (valid right after GetTSID).
func (th *TagsHolder) VerifPreimage() []byte {
	out := make([]byte, th.buf.Len())
	copy(out, th.buf.Bytes())
	return out
}

// VerifFlushDpWalBuffers appends the buffered datapoints of every open block to its WAL file, exactly as
// timeBasedWalDPSFlush does once a second.
func VerifFlushDpWalBuffers() error {
	for _, ms := range GetAllMetricsSegments() {
		ms.mBlock.dpWalState.lock.Lock()
		if ms.mBlock.dpWalState.dpIdx > 0 {
			if err := ms.mBlock.dpWalState.currentWal.Append(ms.mBlock.dpWalState.dpsInWalMem[0:ms.mBlock.dpWalState.dpIdx]); err != nil {
				ms.mBlock.dpWalState.lock.Unlock()
				return err
			}
			ms.mBlock.dpWalState.dpIdx = 0
		}
		ms.mBlock.dpWalState.lock.Unlock()
	}
	return nil
}

// VerifSegKeys returns the key (file name prefix) of every open metrics segment.
func VerifSegKeys() []string {
	var out []string
	for _, ms := range GetAllMetricsSegments() {
		out = append(out, fmt.Sprintf("%s%d", ms.metricsKeyBase, ms.Suffix))
	}
	return out
}

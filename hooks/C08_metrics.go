//go:build verif

package metrics

// VerifPreimage returns the bytes GetTSID hashed (valid right after GetTSID).
func (th *TagsHolder) VerifPreimage() []byte {
	out := make([]byte, th.buf.Len())
	copy(out, th.buf.Bytes())
	return out
}

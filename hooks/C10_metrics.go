//go:build verif

package metrics

// VerifExtractWALFileInfo exposes the grouping and ordering of WAL files that RecoverWALData replays.
func VerifExtractWALFileInfo(baseDir string) (map[string][]string, error) {
	m, err := extractWALFileInfo(baseDir)
	if err != nil {
		return nil, err
	}
	out := map[string][]string{}
	for k, v := range m {
		out[k] = append([]string{}, v.walFiles...)
	}
	return out, nil
}

//go:build verif

package metrics

import (
	"github.com/siglens/siglens/pkg/segment/structs"
	sutils "github.com/siglens/siglens/pkg/segment/utils"
)

// VerifExtractWALFileInfo exposes the grouping and ordering of WAL files that RecoverWALData replays.
func VerifExtractWALFileInfo(baseDir string) (map[string][]string, error) {
	m, err := extractWALFileInfo(baseDir)
	if err != nil {
		return nil, err
	}
	out := map[string][]string{}
	for k, v := range m {
		out[k] = append([]string{}, v.walFiles...)
	}
	return out, nil
}

// One iteration of the bodies of the three 1-second WAL flush loops (timeBasedWalDPSFlush, timeBasedMNameWalFlush,
// timeBasedMetaEntryWalFlush are endless `for { time.Sleep(1 s); body }` loops; the bodies below are copied
// statement for statement so that a worker can complete an append of each log at a chosen instant).
func VerifDpWalFlushOnce() {
	for _, ms := range GetAllMetricsSegments() {
		ms.mBlock.dpWalState.lock.Lock()
		if ms.mBlock.dpWalState.dpIdx > 0 {
			_ = ms.mBlock.dpWalState.currentWal.Append(ms.mBlock.dpWalState.dpsInWalMem[0:ms.mBlock.dpWalState.dpIdx])
			totalEncodedSize := ms.mBlock.dpWalState.currentWal.GetWALStats()
			if totalEncodedSize > sutils.MAX_WAL_FILE_SIZE_BYTES {
				_ = ms.mBlock.rotateWAL()
			}
			ms.mBlock.dpWalState.dpIdx = 0
		}
		ms.mBlock.dpWalState.lock.Unlock()
	}
}

func VerifMNameWalFlushOnce() {
	for _, ms := range GetAllMetricsSegments() {
		ms.mNameWalState.lock.Lock()
		if len(ms.mNameWalState.metricsNames) > 0 {
			err := ms.mNameWalState.wal.Append(ms.mNameWalState.metricsNames)
			if err != nil {
				ms.mNameWalState.lock.Unlock()
				continue
			}
			ms.mNameWalState.metricsNames = ms.mNameWalState.metricsNames[:0]
		}
		ms.mNameWalState.lock.Unlock()
	}
}

// returns the MSegmentDir and DatapointCount of the entries whose Write completed
func VerifMetaEntryWalFlushOnce() (map[string]uint64, error) {
	var allMetaEntries []*structs.MetricsMeta
	for _, ms := range GetAllMetricsSegments() {
		ms.mNameWalState.lock.Lock()
		finalDir := GetFinalMetricsDir(ms.Mid, ms.Suffix)
		metaEntry := ms.getMetaEntry(finalDir, ms.Suffix)
		allMetaEntries = append(allMetaEntries, metaEntry)
		ms.mNameWalState.lock.Unlock()
	}
	out := map[string]uint64{}
	if metricsMEntryWalState.wal != nil {
		err := metricsMEntryWalState.wal.Write(allMetaEntries)
		if err != nil {
			return nil, err
		}
		for _, e := range allMetaEntries {
			out[e.MSegmentDir] = e.DatapointCount
		}
	}
	return out, nil
}

// VerifShardOf: the shard (Mid) a metric name is routed to.
func VerifShardOf(mName []byte) string {
	ms, _, err := getMetricsSegment(mName, 0)
	if err != nil || ms == nil {
		return ""
	}
	return ms.Mid
}

// VerifSegEncodedSize: ForceFlushMetricsBlock skips segments whose encoded size is 0.
func (ms *MetricsSegment) VerifSegEncodedSize() uint64 { return ms.mSegEncodedSize }

//go:build verif

package startup

// VerifStartIngestServer runs the real start-up function of an ingest node (cmd/startup/startup.go): the HTTP listener
// goroutine and then the crash recovery of the three metrics write-ahead logs, in the order in which the start-up code
// calls them.  The C10 harness restarts through this function so that the ORDER of RecoverWALData, RecoverMNameWALData
// and RecoverMEntryWALData (and everything else startIngestServer does around them) is the code's, not the harness's.
func VerifStartIngestServer(serverAddr string) { startIngestServer(serverAddr) }

//go:build verif

package metadata

// VerifPulseUpdateLock is an EMPTY write section of the rotated-metadata lock: what any writer of the list (a rotation
// publishing its segment, a deletion) does to the lock, without touching the list.  The C11 harness calls it in a loop
// while searches run: for code that never takes the read lock twice on one goroutine it only delays readers; a reader
// that re-enters the read lock while such a writer waits is stopped for ever (sync.RWMutex prefers writers).
func VerifPulseUpdateLock() {
	globalMetadata.updateLock.Lock()
	//lint:ignore SA2001 empty critical section on purpose
	globalMetadata.updateLock.Unlock()
}

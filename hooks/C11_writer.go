//go:build verif

package writer

import "time"

// VerifHoldAllSegStores takes the write lock of the segstore table and returns the function that releases it:
// the C11 harness uses it as a starting gate, so that several first ingests of one new stream look the stream up at
// the same moment.
func VerifHoldAllSegStores() func() {
	allSegStoresLock.Lock()
	return allSegStoresLock.Unlock
}

// VerifPulseHandoverLocks: empty write sections of the unrotated-info lock and of the segstore table lock (see
// metadata.VerifPulseUpdateLock): a writer arriving at this moment, without any change of the data.
func VerifPulseHandoverLocks() {
	UnrotatedInfoLock.Lock()
	//lint:ignore SA2001 empty critical section on purpose
	UnrotatedInfoLock.Unlock()
	allSegStoresLock.Lock()
	//lint:ignore SA2001 empty critical section on purpose
	allSegStoresLock.Unlock()
}

// VerifC11UnrotatedCmiState (harness/cmd/c11/evict.go): what the searches of the open segment(s) of one table will see of
// the in-memory micro indexes: per open segment the flag isCmiLoaded, the number of flushed blocks (block summaries) and,
// for every entry of unrotatedBlockCmis, the number of columns that have a micro index.  Read only.
type VerifC11CmiState struct {
	SegKey string
	Loaded bool
	Blocks int
	Cols   []int
}

func VerifC11UnrotatedCmiState(table string) []VerifC11CmiState {
	UnrotatedInfoLock.RLock()
	defer UnrotatedInfoLock.RUnlock()
	var res []VerifC11CmiState
	for k, usi := range AllUnrotatedSegmentInfo {
		if usi.TableName != table {
			continue
		}
		s := VerifC11CmiState{SegKey: k, Loaded: usi.isCmiLoaded, Blocks: len(usi.blockSummaries)}
		for _, m := range usi.unrotatedBlockCmis {
			s.Cols = append(s.Cols, len(m))
		}
		res = append(res, s)
	}
	return res
}

// VerifC11DrainPqsChan (harness/cmd/c11/pq.go): one pass of listenBackFillAndEmptyPQSRequests, now instead of on its
// 10 s tick: collects the requests queued on pqsChan (the senders are started with `go` at rotation: waits until no
// request has arrived for idleMs) and hands them to processBackFillAndEmptyPQSRequests.  Returns the number of requests
// processed.  For a node whose listener goroutine is not running (first start on an empty data directory).
func VerifC11DrainPqsChan(idleMs int) int {
	var buf []PQSChanMeta
	idle := time.Duration(idleMs) * time.Millisecond
	last := time.Now()
	for time.Since(last) < idle {
		select {
		case m := <-pqsChan:
			buf = append(buf, m)
			last = time.Now()
		default:
			time.Sleep(2 * time.Millisecond)
		}
	}
	processBackFillAndEmptyPQSRequests(buf)
	return len(buf)
}

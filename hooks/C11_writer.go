//go:build verif

package writer

// VerifHoldAllSegStores takes the write lock of the segstore table and returns the function that releases it:
// the C11 harness uses it as a starting gate, so that several first ingests of one new stream look the stream up at
// the same moment.
func VerifHoldAllSegStores() func() {
	allSegStoresLock.Lock()
	return allSegStoresLock.Unlock
}

// VerifPulseHandoverLocks: empty write sections of the unrotated-info lock and of the segstore table lock (see
// metadata.VerifPulseUpdateLock): a writer arriving at this moment, without any change of the data.
func VerifPulseHandoverLocks() {
	UnrotatedInfoLock.Lock()
	//lint:ignore SA2001 empty critical section on purpose
	UnrotatedInfoLock.Unlock()
	allSegStoresLock.Lock()
	//lint:ignore SA2001 empty critical section on purpose
	allSegStoresLock.Unlock()
}

//go:build verif

package writer

// VerifHoldAllSegStores takes the write lock of the segstore table and returns the function that releases it:
// the C11 harness uses it as a starting gate, so that several first ingests of one new stream look the stream up at
// the same moment.
func VerifHoldAllSegStores() func() {
	allSegStoresLock.Lock()
	return allSegStoresLock.Unlock
}

//go:build verif

package handler

import (
	"encoding/json"

	"github.com/siglens/siglens/pkg/config"
	"github.com/siglens/siglens/pkg/es/writer"
	segwriter "github.com/siglens/siglens/pkg/segment/writer"
	"github.com/siglens/siglens/pkg/utils"
)

// Add-only export for the C12 verification harness.  DependencyGraphThread sleeps until the next full
// hour, computes the graph of [now-1h, now] for every org that has trace data and stores it when it is not
// empty.  VerifC12HourlyDepGraph is the body of ONE iteration of that loop for one org with the window
// given by the caller (the statements between the health check and the end of the loop body, unchanged).
// Nothing here changes behaviour.
func VerifC12HourlyDepGraph(startEpoch int64, endEpoch int64, myid int64) map[string]map[string]int {
	depMatrix := MakeTracesDependancyGraph(startEpoch, endEpoch, myid)
	if len(depMatrix) > 0 {
		writeDependencyMatrix(depMatrix, myid)
	}
	return depMatrix
}

// VerifC12WriteDepMatrix stores a given matrix the way the hourly job does (stream "aggstore": matrices
// that no span set of a test-sized window produces, e.g. more stored graphs than one result page).
func VerifC12WriteDepMatrix(depMatrix map[string]map[string]int, myid int64) {
	writeDependencyMatrix(depMatrix, myid)
}

// VerifC12WriteLegacyDepMatrix stores a matrix in the record format used before fix 25574c6: the nested object
// itself is ingested (the ingest path flattens it into one column "service.dependentService" per edge).
// ProcessAggregatedDependencyGraphs still reads such records; this is the body of the old writer, unchanged.
func VerifC12WriteLegacyDepMatrix(dependencyMatrix map[string]map[string]int, myid int64) {
	dependencyMatrixJSON, err := json.Marshal(dependencyMatrix)
	if err != nil {
		return
	}
	now := utils.GetCurrentTimeInMs()
	indexName := "service-dependency"
	shouldFlush := false
	localIndexMap := make(map[string]string)
	tsKey := config.GetTimeStampKey()
	idxToStreamIdCache := make(map[string]string)
	cnameCacheByteHashToStr := make(map[uint64]string)
	var jsParsingStackbuf [utils.UnescapeStackBufSize]byte
	pleArray := make([]*segwriter.ParsedLogEvent, 0)
	defer segwriter.ReleasePLEs(pleArray)
	ple, err := segwriter.GetNewPLE(dependencyMatrixJSON, now, indexName, &tsKey, jsParsingStackbuf[:])
	if err != nil {
		return
	}
	pleArray = append(pleArray, ple)
	_ = writer.ProcessIndexRequestPle(now, indexName, shouldFlush, localIndexMap, myid, 0, idxToStreamIdCache,
		cnameCacheByteHashToStr, jsParsingStackbuf[:], pleArray)
}

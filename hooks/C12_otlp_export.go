//go:build verif

// Add-only export for the C12 check (compiled in through go build -overlay; /repo is not touched).
package otlp

import tracepb "go.opentelemetry.io/proto/otlp/trace/v1"

func VerifSpanToJson(span *tracepb.Span, service string) ([]byte, error) {
	return spanToJson(span, service)
}

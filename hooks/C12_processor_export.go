//go:build verif

package processor

// Add-only export for the C12 verification harness: the tail of the pipeline of a search request
// (newQueryProcessorHelper: input -> head(size+from) -> scroller(from)) driven on a given batching
// of the hits.  The trace handlers read spans through this tail in pages from = 0, 1000, 2000, ...
// Nothing here changes behaviour.

import (
	"fmt"
	"io"

	"github.com/siglens/siglens/pkg/segment/query/iqr"
	"github.com/siglens/siglens/pkg/segment/structs"
	sutils "github.com/siglens/siglens/pkg/segment/utils"
)

type verifC12Source struct {
	batches [][]string
	pos     int
	qid     uint64
}

func (s *verifC12Source) Fetch() (*iqr.IQR, error) {
	if s.pos >= len(s.batches) {
		return nil, io.EOF
	}
	b := s.batches[s.pos]
	s.pos++
	col := make([]sutils.CValueEnclosure, 0, len(b))
	for _, v := range b {
		col = append(col, sutils.CValueEnclosure{Dtype: sutils.SS_DT_STRING, CVal: v})
	}
	out := iqr.NewIQR(s.qid)
	if err := out.AppendKnownValues(map[string][]sutils.CValueEnclosure{"rec": col}); err != nil {
		return nil, err
	}
	return out, nil
}
func (s *verifC12Source) Rewind()        { s.pos = 0 }
func (s *verifC12Source) Cleanup()       {}
func (s *verifC12Source) String() string { return "<verif c12 batches>" }

// VerifC12Page returns the records one search request (from, size) hands out when the hits arrive in the
// given batches: head(MaxRows = size+from) followed by the scroller(from), wired as in newQueryProcessorHelper.
// The query qid must have been started (query.StartQuery + InitProgressForRRCCmd).
func VerifC12Page(qid uint64, batches [][]string, from, size uint64) ([]string, error) {
	headDP := NewHeadDP(&structs.HeadExpr{MaxRows: size + from})
	headDP.streams = append(headDP.streams, NewCachedStream(&verifC12Source{batches: batches, qid: qid}))
	scrollerDP := NewScrollerDP(from, qid)
	scrollerDP.streams = append(scrollerDP.streams, NewCachedStream(headDP))
	page := make([]string, 0)
	for steps := 0; ; steps++ {
		if steps > len(batches)+10 {
			return page, fmt.Errorf("no EOF after %d fetches", steps)
		}
		out, err := scrollerDP.Fetch()
		if err != nil && err != io.EOF {
			return page, err
		}
		if out != nil && out.NumberOfRecords() > 0 {
			vals, rerr := out.ReadColumn("rec")
			if rerr != nil {
				return page, rerr
			}
			for _, v := range vals {
				s, _ := v.CVal.(string)
				page = append(page, s)
			}
		}
		if err == io.EOF {
			return page, nil
		}
	}
}

//go:build verif

// Add-only exports for the C12 check (compiled in through go build -overlay; /repo is not touched).
package utils

import "math/rand"

// the real code passes &rand.Rand{} (never used by quickSelect/pickPivot)
func VerifQuickSelectU64(arr []uint64, k int) uint64 { return quickSelect(arr, k, &rand.Rand{}) }
func VerifPickPivotU64(arr []uint64) uint64          { return pickPivot(arr, &rand.Rand{}) }
func VerifQuickSelectMedianU64(arr []uint64) uint64  { return QuickSelectMedian(arr, &rand.Rand{}) }

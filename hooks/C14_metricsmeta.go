//go:build verif

package meta

// VerifC14HoldMetricsMetaRead takes the READ side of mMetaLock, the lock that serialises the readers and writers of
// metricmeta.json, and returns the function that releases it (see writer.VerifC14HoldSegmetaRead): the rewrite of
// the retention pass (RemoveMetricsSegments) waits, a rotation that publishes its segment through AddMetricsMetaEntry
// queues up behind it.
func VerifC14HoldMetricsMetaRead() func() {
	mMetaLock.RLock()
	return mMetaLock.RUnlock
}

// VerifC14MetricsMetaWriterWaiting reports whether a writer holds or waits for mMetaLock (a reader cannot enter).
func VerifC14MetricsMetaWriterWaiting() bool {
	if mMetaLock.TryRLock() {
		mMetaLock.RUnlock()
		return false
	}
	return true
}

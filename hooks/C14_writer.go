//go:build verif

package writer

// VerifC14HoldSegmetaRead takes the READ side of smrLock, the lock that serialises the readers and writers of
// segmeta.json, and returns the function that releases it.  The C14 harness uses it as a gate: while it is held the
// retention pass can still read its selection (read lock), but its rewrite of segmeta.json (removeSegmetas, write lock)
// waits, and every writer that arrives after the pass (a rotation publishing its segment through
// BulkAddRotatedSegmetas) queues up behind the pass.  Nothing of the data is touched.
func VerifC14HoldSegmetaRead() func() {
	smrLock.RLock()
	return smrLock.RUnlock
}

// VerifC14SegmetaWriterWaiting reports whether a writer holds or waits for smrLock (a reader cannot enter).
func VerifC14SegmetaWriterWaiting() bool {
	if smrLock.TryRLock() {
		smrLock.RUnlock()
		return false
	}
	return true
}

//go:build verif

package writer

// VerifC15HoldSegStoreTable takes the write lock of the segment-store table (allSegStores) and returns the function
// that releases it.  The C15 harness uses it as a starting gate for CONCURRENT bulk requests: while it is held every
// request blocks in its look-up of the stream (getSegStore, read lock); on release all of them look the stream up at
// the same moment.  Nothing of the data is touched.
func VerifC15HoldSegStoreTable() func() {
	allSegStoresLock.Lock()
	return allSegStoresLock.Unlock
}

// VerifC15RemoveIdleSegStores does to the segment stores of one table what removeStaleSegments does to a store that
// has been idle long enough: a store that holds no record (RecordCount == 0, i.e. nothing arrived since its last
// rotation) is taken out of allSegStores under the table's write lock.  Only the idle-time test (15 minutes) is left
// out.  Returns how many stores were removed and how many stay.
func VerifC15RemoveIdleSegStores(table string) (removed int, kept int) {
	allSegStoresLock.Lock()
	defer allSegStoresLock.Unlock()
	for streamid, segstore := range allSegStores {
		if segstore.VirtualTableName != table {
			continue
		}
		segstore.Lock.Lock()
		idle := segstore.RecordCount == 0
		segstore.Lock.Unlock()
		if idle {
			delete(allSegStores, streamid)
			removed++
		} else {
			kept++
		}
	}
	return removed, kept
}

//go:build verif

package writer

// VerifParseTimestamp exposes parseTimestamp (sample time of a remote-write request -> uint32 seconds).
func VerifParseTimestamp(ts int64) uint32 { return parseTimestamp(ts) }

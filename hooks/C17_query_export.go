//go:build verif

// Add-only exports for the C17 check (compiled in through go build -overlay; /repo is not touched).
// Read access to the two query tables and one iteration of the puller loop built from the
// package's own unexported pieces.
package query

import (
	"sort"
	"sync"

	"github.com/siglens/siglens/pkg/hooks"
)

type VerifEntry struct {
	Qid       uint64
	Cancelled bool
	Async     bool
	ChanLen   int
}

// VerifPullOnce is the body of the default branch of PullQueriesToRun's loop, without the sleeps.
func VerifPullOnce() bool {
	if canRunQuery() {
		wsData := getNextWaitStateData()
		if wsData == nil {
			return false
		}
		initiateRunQuery(wsData, hooks.GlobalHooks.AcquireOwnedSegmentRLockHook, hooks.GlobalHooks.ReleaseOwnedSegmentRLockHook)
		return true
	}
	return false
}

// VerifRunning: allRunningQueries sorted by qid.
func VerifRunning() []VerifEntry {
	arqMapLock.RLock()
	qs := make([]*RunningQueryState, 0, len(allRunningQueries))
	for _, q := range allRunningQueries {
		qs = append(qs, q)
	}
	arqMapLock.RUnlock()
	out := make([]VerifEntry, 0, len(qs))
	for _, q := range qs {
		q.rqsLock.RLock()
		out = append(out, VerifEntry{Qid: q.qid, Cancelled: q.isCancelled, Async: q.isAsync, ChanLen: len(q.StateChan)})
		q.rqsLock.RUnlock()
	}
	sort.Slice(out, func(i, j int) bool { return out[i].Qid < out[j].Qid })
	return out
}

// VerifWaiting: waitingQueries in queue order.
func VerifWaiting() []VerifEntry {
	waitingQueriesLock.Lock()
	defer waitingQueriesLock.Unlock()
	out := make([]VerifEntry, 0, len(waitingQueries))
	for _, w := range waitingQueries {
		out = append(out, VerifEntry{Qid: w.qid, Cancelled: w.rQuery.isCancelled, Async: w.rQuery.isAsync, ChanLen: len(w.rQuery.StateChan)})
	}
	return out
}

// VerifRunningQuery: allRunningQueries[qid] (nil when absent).
func VerifRunningQuery(qid uint64) *RunningQueryState {
	arqMapLock.RLock()
	defer arqMapLock.RUnlock()
	return allRunningQueries[qid]
}

// VerifWaitingQuery: the first entry of waitingQueries with this qid (nil when absent).
func VerifWaitingQuery(qid uint64) *RunningQueryState {
	waitingQueriesLock.Lock()
	defer waitingQueriesLock.Unlock()
	for _, w := range waitingQueries {
		if w.qid == qid {
			return w.rQuery
		}
	}
	return nil
}

func VerifStateChanCap() int { return queryStateChanSize }

// Lock probes for the lock-discipline scenarios: 0 = free, 1 = held by readers only,
// 2 = a writer holds the lock or waits for it.  A successful TryLock/TryRLock is released at once.
func verifProbeRW(l *sync.RWMutex) int {
	if l.TryLock() {
		l.Unlock()
		return 0
	}
	if l.TryRLock() {
		l.RUnlock()
		return 1
	}
	return 2
}

// VerifProbeLocks: arqMapLock, waitingQueriesLock and (when rq is not nil) rq.rqsLock.
func VerifProbeLocks(rq *RunningQueryState) (arq, waitq, rqs int) {
	arq = verifProbeRW(arqMapLock)
	if waitingQueriesLock.TryLock() {
		waitingQueriesLock.Unlock()
	} else {
		waitq = 2
	}
	if rq != nil {
		rqs = verifProbeRW(rq.rqsLock)
	}
	return
}

//go:build verif

package metadata

import "github.com/siglens/siglens/pkg/segment/structs"

// VerifGetCmi decodes one micro-index record (type byte + payload) as readCmis does.
func VerifGetCmi(buf []byte) (*structs.CmiContainer, error) {
	return getCmi(buf)
}

// VerifSearchMetadataState reports the state of the lazily loaded search metadata (block summaries /
// block search info) of a segment: whether the segment is known, whether the metadata is marked as
// loaded, and the cached block summaries (high, low, record count).
func VerifSearchMetadataState(segkey string) (known bool, loaded bool, sums [][3]uint64) {
	smi, ok := GetMicroIndex(segkey)
	if !ok {
		return false, false, nil
	}
	smi.smiLock.RLock()
	defer smi.smiLock.RUnlock()
	for _, s := range smi.BlockSummaries {
		if s == nil {
			sums = append(sums, [3]uint64{})
			continue
		}
		sums = append(sums, [3]uint64{s.HighTs, s.LowTs, uint64(s.RecCount)})
	}
	return true, smi.loadedSearchMetadata, sums
}

//go:build verif

package metadata

import "github.com/siglens/siglens/pkg/segment/structs"

// VerifGetCmi decodes one micro-index record (type byte + payload) as readCmis does.
func VerifGetCmi(buf []byte) (*structs.CmiContainer, error) {
	return getCmi(buf)
}

//go:build verif

// Add-only exports for the C20 check (compiled in through go build -overlay; /repo is not touched).
package alertsHandler

import (
	"time"

	"github.com/go-co-op/gocron"
	"github.com/siglens/siglens/pkg/alerts/alertutils"
	"github.com/siglens/siglens/pkg/segment/results/mresults"
	"github.com/siglens/siglens/pkg/segment/structs"
)

// VerifDatabase is the package's (unexported) database interface under an exported alias so
// that the harness can wrap the real sqlite object (failure injection, call counting).
type VerifDatabase = database

func VerifSetDatabase(d VerifDatabase) { databaseObj = d }
func VerifGetDatabase() VerifDatabase  { return databaseObj }

func VerifHandleAlertCondition(a *alertutils.AlertDetails, matched bool, msg string) error {
	return handleAlertCondition(a, matched, msg)
}

func VerifShouldUpdateAlertStateToFiring(a *alertutils.AlertDetails, cur alertutils.AlertState) bool {
	return shouldUpdateAlertStateToFiring(a, cur)
}

func VerifEvaluateConditions(v float64, cond alertutils.AlertQueryCondition, thr float64) bool {
	return evaluateConditions(v, &cond, thr)
}

func VerifShouldSendNotification(id string, a *alertutils.AlertDetails, cur alertutils.AlertState) (bool, error) {
	return shouldSendNotification(id, a, cur)
}

func VerifEvaluateLogsQueryConditions(r *structs.PipeSearchResponseOuter, cond alertutils.AlertQueryCondition, thr float64) (bool, error) {
	return evaluateLogsQueryConditions(r, &cond, thr)
}

func VerifEvaluateMetricsQueryConditions(r *mresults.MetricsResult, cond alertutils.AlertQueryCondition, thr float64) int {
	return len(evaluateMetricsQueryConditions(r, &cond, thr))
}

// VerifQuietScheduler replaces the package's cron scheduler by one whose jobs wait for their
// first interval (>= 60 s) instead of running at once, so that the alert create/update handlers
// can be driven without a background evaluation racing with the driven ones.
func VerifQuietScheduler() {
	s.Stop()
	s = gocron.NewScheduler(time.UTC)
	s.WaitForScheduleAll()
}

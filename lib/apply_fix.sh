#!/bin/bash
# apply_fix.sh <fix-basename> <property>: apply /verif/fixes/<name>.diff to /repo, build, full suite, commit with the .msg,
# put the commit hash into known/<property>.json (FIXME), run the check.
set -u
NAME=$1; PROP=$2; TOKEN=${3:-FIXME}
export GOFLAGS=-mod=mod GOPROXY=off GOSUMDB=off GOTOOLCHAIN=local
cd /repo || exit 1
git apply --check /verif/fixes/$NAME.diff || { echo "patch does not apply"; exit 1; }
git apply /verif/fixes/$NAME.diff
go build ./... || { echo BUILD FAILED; git checkout -- .; exit 1; }
for try in 1 2; do
  timeout 1700 go test -vet=off -count=1 -timeout 25m ./... 2>&1 | grep -v '^ok\|no test files' > /tmp/fix_suite.log
  [ ! -s /tmp/fix_suite.log ] && break
  echo "suite attempt $try had failures:"; head -5 /tmp/fix_suite.log
done
if [ -s /tmp/fix_suite.log ]; then echo "SUITE FAILS; reverting"; git checkout -- .; git clean -fdq; exit 1; fi
git add -A && git commit -q -F /verif/fixes/$NAME.msg
H=$(git rev-parse --short HEAD); echo "committed $H: $(git log -1 --format=%s)"
cd /verif && sed -i "s/\"$TOKEN\"/\"$H\"/g" known/$PROP.json && ./check $PROP 2>&1 | grep -v KNOWN | tail -2

#!/bin/bash
# build_coq.sh                 : full .vo build of the whole development through coq_makefile + make -k (setup)
# build_coq.sh <target.vo> ... : builds the given targets and their dependencies with plain coqc
#                                (lib/coqbuild.py: per-file locks, no global lock)
set -e
cd "$(dirname "$0")/../coq"
mkdir -p ../work
# regenerate coq/gen/Gen.v from the Go source (translator), never committed
../lib/run_gotrans.sh >/dev/null 2>&1 || echo "build_coq: gotrans failed (reported by the checks that depend on it)"
if [ $# -gt 0 ]; then
  exec python3 ../lib/coqbuild.py "$@"
fi
exec 9>../work/.coq.lock
flock 9
{
  echo "-Q model SigM"
  echo "-Q proofs SigP"
  echo "-Q props SigT"
  echo "-Q gen SigG"
  echo "-arg -w -arg -notation-overridden,-deprecated-hint-without-locality,-deprecated-instance-without-locality"
  ls gen/*.v model/*.v proofs/*.v props/*.v 2>/dev/null || true
} > _CoqProject
coq_makefile -f _CoqProject -o Makefile >/dev/null
timeout ${COQ_BUILD_TIMEOUT:-3000} make -k -j${COQ_JOBS:-8}

#!/bin/bash
# Full .vo build of the Coq development (model, proofs, props). Offline.
set -e
cd "$(dirname "$0")/../coq"
mkdir -p ../work
exec 9>../work/.coq.lock
flock 9
{
  echo "-Q model SigM"
  echo "-Q proofs SigP"
  echo "-Q props SigT"
  echo "-arg -w -arg -notation-overridden,-deprecated-hint-without-locality,-deprecated-instance-without-locality"
  ls model/*.v proofs/*.v props/*.v 2>/dev/null || true
} > _CoqProject.new
if ! cmp -s _CoqProject.new _CoqProject 2>/dev/null; then
  mv _CoqProject.new _CoqProject
  coq_makefile -f _CoqProject -o Makefile >/dev/null
else
  rm -f _CoqProject.new
fi
[ -f Makefile ] || coq_makefile -f _CoqProject -o Makefile >/dev/null
timeout ${COQ_BUILD_TIMEOUT:-3000} make -j${COQ_JOBS:-16} "$@"

#!/bin/bash
# Build one harness command from /repo's current working tree (tag verif, overlay hooks).
# usage: build_harness.sh <cmd> ; output: /verif/work/bin/<cmd>
set -e
V="$(cd "$(dirname "$0")/.." && pwd)"
REPO="${VERIF_REPO:-/repo}"
cmd="$1"
export GOFLAGS=-mod=mod GOPROXY=off GOSUMDB=off GOTOOLCHAIN=local CARGO_NET_OFFLINE=true
mkdir -p "$V/work/bin"
exec 9>"$V/work/.harness.lock"
flock 9
cd "$V/harness"
# go.mod follows /repo's go.mod on every run
{
  sed -e 's|^module .*|module verifharness|' "$REPO/go.mod"
  echo
  echo "require github.com/siglens/siglens v0.0.0"
  echo "replace github.com/siglens/siglens => $REPO"
} > go.mod.new
if ! cmp -s go.mod.new go.mod 2>/dev/null; then mv go.mod.new go.mod; else rm -f go.mod.new; fi
cp "$REPO/go.sum" go.sum
# overlay: add-only files compiled into /repo packages (guarded by the verif tag)
python3 - "$V" "$REPO" <<'PY'
import json,os,sys
V,REPO=sys.argv[1],sys.argv[2]
rep={}
import glob
for mp in sorted(glob.glob(os.path.join(V,'hooks','overlay.d','*.map'))):
    for line in open(mp):
        line=line.strip()
        if not line or line.startswith('#'): continue
        dst,src=line.split()
        rep[os.path.join(REPO,dst)]=os.path.join(V,'hooks',src)
json.dump({"Replace":rep},open(os.path.join(V,'work','overlay.json'),'w'))
PY
if [ "${2:-}" = "race" ]; then
  timeout ${GO_BUILD_TIMEOUT:-1500} go build -race -tags verif -overlay "$V/work/overlay.json" -o "$V/work/bin/${cmd}race" "./cmd/$cmd"
else
  timeout ${GO_BUILD_TIMEOUT:-1500} go build -tags verif -overlay "$V/work/overlay.json" -o "$V/work/bin/$cmd" "./cmd/$cmd"
fi

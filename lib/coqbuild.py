#!/usr/bin/env python3
"""Build one or more .vo targets (and what they depend on) with plain coqc (full .vo, no -vos),
without a global lock: dependencies come from coqdep, every file is compiled under its own
file lock, so independent properties can be (re)checked concurrently.
usage: coqbuild.py [-f] target.vo ...      (paths relative to /verif/coq; -f forces the targets themselves)
"""
import fcntl, os, re, subprocess, sys, time
COQ = os.path.join(os.path.dirname(os.path.dirname(os.path.abspath(__file__))), "coq")
FLAGS = ["-Q", "model", "SigM", "-Q", "proofs", "SigP", "-Q", "props", "SigT", "-Q", "gen", "SigG",
         "-w", "-notation-overridden,-deprecated-hint-without-locality,-deprecated-instance-without-locality"]

def deps():
    files = []
    for d in ("gen", "model", "proofs", "props"):
        p = os.path.join(COQ, d)
        if os.path.isdir(p):
            files += [os.path.join(d, f) for f in sorted(os.listdir(p)) if f.endswith(".v")]
    out = subprocess.run(["coqdep", "-Q", "model", "SigM", "-Q", "proofs", "SigP", "-Q", "props", "SigT", "-Q", "gen", "SigG"] + files,
                         cwd=COQ, stdout=subprocess.PIPE, stderr=subprocess.DEVNULL, text=True).stdout
    d = {}
    for line in out.splitlines():
        if ":" not in line:
            continue
        lhs, rhs = line.split(":", 1)
        tg = [t for t in lhs.split() if t.endswith(".vo")]
        if not tg:
            continue
        d[tg[0]] = [t for t in rhs.split() if t.endswith(".vo") and not t.startswith("/")]
    return d

def mtime(p):
    try:
        return os.stat(os.path.join(COQ, p)).st_mtime
    except FileNotFoundError:
        return 0

def build(target, d, force, done, timeout):
    if target in done:
        return
    for dep in d.get(target, []):
        build(dep, d, False, done, timeout)
    src = target[:-1]
    if not os.path.exists(os.path.join(COQ, src)):
        raise SystemExit("coqbuild: no source for " + target)
    stale = force or mtime(target) < mtime(src) or any(mtime(target) < mtime(x) for x in d.get(target, []))
    if stale:
        lockp = os.path.join(COQ, target + ".lock")
        with open(lockp, "w") as lf:
            fcntl.flock(lf, fcntl.LOCK_EX)
            # somebody else may have built it while we waited
            stale = force or mtime(target) < mtime(src) or any(mtime(target) < mtime(x) for x in d.get(target, []))
            if stale:
                print("COQC " + src, flush=True)
                p = subprocess.run(["coqc"] + FLAGS + [src], cwd=COQ, timeout=timeout)
                if p.returncode != 0:
                    try:
                        os.remove(os.path.join(COQ, target))
                    except FileNotFoundError:
                        pass
                    raise SystemExit(p.returncode)
        try:
            os.remove(lockp)
        except OSError:
            pass
    done.add(target)

def main():
    args = sys.argv[1:]
    force = False
    if args and args[0] == "-f":
        force, args = True, args[1:]
    d = deps()
    done = set()
    timeout = int(os.environ.get("COQ_BUILD_TIMEOUT", "3000"))
    for t in args:
        build(t, d, force, done, timeout)

if __name__ == "__main__":
    main()

#!/bin/bash
# coqchk.sh: rebuild the whole Coq development (full .vo build) and re-check every property file and everything it
# depends on with the independent checker; the context summary (axioms of all LOADED libraries) goes to evidence/coqchk.txt.
set -u
export GOFLAGS=-mod=mod GOPROXY=off GOSUMDB=off GOTOOLCHAIN=local
V=$(cd "$(dirname "$0")/.." && pwd); cd "$V" || exit 1
lib/run_gotrans.sh >/dev/null 2>&1
lib/build_coq.sh >/dev/null 2>&1
cd coq
mods=$(ls props/*.vo | sed 's|props/\(.*\)\.vo|SigT.\1|' | tr '\n' ' ')
n=$(ls props/*.v | wc -l); m=$(ls props/*.vo | wc -l)
{ echo "coqchk $(coqchk --version 2>&1 | head -1)"; echo "date: $(date -u)"; echo "property files compiled: $m of $n"; echo "modules: $mods";
  timeout 7200 coqchk -silent -o -Q gen SigG -Q model SigM -Q proofs SigP -Q props SigT $mods 2>&1; echo "coqchk exit: $?"; } > "$V"/evidence/coqchk.txt
tail -15 "$V"/evidence/coqchk.txt
grep -q "coqchk exit: 0" "$V"/evidence/coqchk.txt && [ "$n" = "$m" ]

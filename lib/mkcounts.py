#!/usr/bin/env python3
"""Rewrite the theorem count at the start of the third column of DESIGN.md table B from coq/props/Cxx.v."""
import re, os
V = os.path.dirname(os.path.dirname(os.path.abspath(__file__)))
p = os.path.join(V, 'DESIGN.md'); s = open(p, encoding='utf8', errors='surrogateescape').read()
def strip(src):
    out, d, i = [], 0, 0
    while i < len(src):
        if src.startswith('(*', i): d += 1; i += 2
        elif src.startswith('*)', i) and d: d -= 1; i += 2
        else:
            if not d: out.append(src[i])
            i += 1
    return ''.join(out)
for k in range(1, 21):
    pid = 'C%02d' % k
    n = len(re.findall(r'^\s*(?:Theorem|Corollary)\s+\w+', strip(open(os.path.join(V, 'coq', 'props', pid + '.v')).read()), re.M))
    s, c = re.subn(r'(\n\| %s \| [^|]*\| )\d+:' % pid, r'\g<1>%d:' % n, s, count=1)
    print(pid, n, 'updated' if c else 'ROW NOT FOUND')
open(p, 'w', encoding='utf8', errors='surrogateescape').write(s)

#!/usr/bin/env python3
"""Regenerate the fixes table of DESIGN.md section C from known/C*.json (fixed entries) and /repo's git log."""
import json, glob, os, subprocess, re
V = os.path.dirname(os.path.dirname(os.path.abspath(__file__)))
REPO = os.environ.get("VERIF_REPO", "/repo")
log = subprocess.run(["git", "-C", REPO, "log", "--reverse", "--format=%h\t%s"], capture_output=True, text=True).stdout
commits = [l.split("\t", 1) for l in log.splitlines() if "\tfix:" in l]
by = {}
for f in sorted(glob.glob(os.path.join(V, "known", "C*.json"))):
    for x in json.load(open(f))["findings"]:
        if x["status"] == "fixed":
            by.setdefault(x.get("commit", "?")[:7], []).append(x)
rows = []
for h, subj in commits:
    xs = by.get(h[:7], [])
    props = ", ".join(sorted({x["property"] for x in xs})) or "?"
    what = " / ".join(re.sub(r"^fixed: property=C\d\d \w+ ", "", re.sub(r"\s+", " ", x["what"]))[:260] for x in xs) or "(see commit message)"
    what = what.replace("|", "\\|")
    rows.append("| %s | %s | %s | %s |" % (h[:7], props, what, subj.replace("fix: ", "", 1).replace("|", "\\|")))
table = "| commit | property | defect (failing input, from known/*.json) | repair (commit subject) |\n|---|---|---|---|\n" + "\n".join(rows) + "\n"
p = os.path.join(V, "DESIGN.md"); s = open(p).read()
a = s.index("| commit | property |"); b = s.index("\n\n", a)
s = s[:a] + table + s[b + 1:]
open(p, "w").write(s)
print(len(rows), "fix commits;", sum(1 for h, _ in commits if h[:7] not in by), "without a known entry")

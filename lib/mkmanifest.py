#!/usr/bin/env python3
"""Regenerates MANIFEST.json from lib/registry.py (claimed checks) and properties.jsonl."""
import json, os, sys
V = os.path.dirname(os.path.dirname(os.path.abspath(__file__)))
sys.path.insert(0, os.path.join(V, "lib"))
from registry import REG, MANIFEST_TEXT, NOT_APPLICABLE
# only checks the maintainer has accepted are claimed (one id per line in lib/ready.txt)
READY = set(open(os.path.join(V, 'lib', 'ready.txt')).read().split())
REG = {k: v for k, v in REG.items() if k in READY}
props = [json.loads(l)["id"] for l in open(os.path.join(V, "properties.jsonl"))]
checks = []
for pid in props:
    if pid not in REG:
        continue
    t = MANIFEST_TEXT[pid]
    checks.append({
        "property_id": pid,
        "quick_cmd": "./check %s --tier quick" % pid,
        "thorough_cmd": "./check %s --tier thorough" % pid,
        "evidence_file": "/verif/evidence/%s.json" % pid,
        "replay_cmd_template": "./check %s --replay {path}" % pid,
        "engine": "coq-proof+correspondence",
        "level_claimed": {"category": REG[pid].get("level") if REG[pid].get("level") in ("exploration", "fault_enumeration", "model_checking", "proof", "translation_validation", "other") else "proof", "text": t["text"], "design_ref": t["design_ref"]},
        "level_note": t["note"],
        "technique": t["technique"],
    })
na = [{"property_id": p, "reason": NOT_APPLICABLE.get(p, "check not built yet in this round (planned, see DESIGN.md section 3); not claimed until it exists")} for p in props if p not in REG]
m = {
    "version": 1,
    "setup_cmd": "./setup.sh",
    "notes": "Every check: (1) re-checks the property's Coq theorems (coq/props/<id>.v, full .vo build), (2) rebuilds the Go harness from /repo's working tree, (3) runs the real code on generated cases with a property oracle, (4) evaluates the hand-written Gallina model on the same cases inside Coq (vm_compute) and reports disagreements. See DESIGN.md.",
    "hooks": {"guard": "verif", "enable": "go build -tags verif -overlay work/overlay.json (add-only files from /verif/hooks compiled into /repo packages; nothing is committed to /repo for hooks)",
              "baseline_off_cmd": json.load(open("/root/.vp/BASELINE.json"))["cmd"] if os.path.exists("/root/.vp/BASELINE.json") else "go test ./...",
              "source_commits": [], "add_only": True},
    "engines": [{"name": "coq-proof+correspondence", "path": "/verif/check", "serves_properties": [c["property_id"] for c in checks],
                 "kind_free_text": "machine-checked proof in Coq 8.16.1 over hand-written executable models; model tied to the code by a differential correspondence check run inside Coq on observations of the real implementation"}],
    "checks": checks,
    "not_applicable": na,
}
json.dump(m, open(os.path.join(V, "MANIFEST.json"), "w"), indent=1)
print("MANIFEST.json: %d checks, %d not claimed" % (len(checks), len(na)))

#!/bin/bash
# mkseed.sh <prop> <suffix>: prepare worktree + prompt for a seeding round; avoid text from earlier seeds of the same property
p=$1; sfx=$2; id=${p}${sfx}
git -C /repo worktree add -q /tmp/seed_$id HEAD || exit 1
mkdir -p /tmp/seed_${id}_out
python3 /verif/lib/seed_prompt.py $p | sed "s|/tmp/seed_$p|/tmp/seed_$id|g" > /tmp/seed_${id}_prompt.txt
python3 - "$p" "$id" <<'PY'
import json,glob,sys,os
p,id=sys.argv[1],sys.argv[2]
prev=[]
for f in sorted(glob.glob(f'/verif/seeded/{p}*/meta.json')):
    m=json.load(open(f)); s=m.get('summary'); 
    if isinstance(s,list): s=' '.join(s)
    prev.append('- '+(s or '')[:400].replace('\n',' ')+' (files: '+', '.join(m.get('files_changed',[]) if isinstance(m.get('files_changed'),list) else [str(m.get('files_changed'))])+')')
if prev:
    open(f'/tmp/seed_{id}_prompt.txt','a').write("\n\nEarlier seeding rounds already produced these changes for the same property; choose a DIFFERENT mechanism in a different function/file of the relevant code (another clause of the property if possible):\n"+"\n".join(prev)+"\n")
PY
echo prepared $id

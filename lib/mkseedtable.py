#!/usr/bin/env python3
"""Regenerate DESIGN.md section D's table (between the markers) from seeded/*/meta.json."""
import json, glob, os, re
V = os.path.dirname(os.path.dirname(os.path.abspath(__file__)))
def one(s, n):
    if isinstance(s, list): s = ' '.join(s)
    s = (s or '').replace('\n', ' ').replace('|', '\\|')
    return s[:n]
rows = []; stats = {'caught': 0, 'missed': 0, 'noinput': 0}
for f in sorted(glob.glob(os.path.join(V, 'seeded', '*', 'meta.json'))):
    m = json.load(open(f)); n = f.split('/')[-2]
    r = m.get('verif_check_result')
    if isinstance(r, str):
        res = r
        k = 'missed' if r.startswith('MISSED') else ('noinput' if 'no-failing-input-found' in r.split(';')[0] else 'caught')
    else:
        run = m.get('verif_check_run') or {}
        k = m.get('verif_first_run', 'caught' if run.get('caught') else 'missed')
        cls = sorted({re.sub(r'.*replays/C\d\d_(.*)_seed\d+\.json.*', r'\1', v) for v in run.get('violation_lines', [])})
        now = ('caught: VIOLATION class(es) ' + ', '.join(cls)) if run.get('caught') else 'NOT caught yet'
        if run.get('failing_input'): now += ' — ' + one(run['failing_input'][0], 200)
        if k == 'caught': res = now + '; quick, seed 1, first run'
        elif k == 'noinput': res = 'first run: correspondence broken only (`no-failing-input-found`); after strengthening (' + m.get('strengthening', 'see notes') + ') ' + now
        else: res = 'MISSED at first; after strengthening (' + m.get('strengthening', 'see notes') + ') ' + now
    stats[k] += 1
    rows.append('| %s | %s | %s | %s |' % (n, one(m.get('summary'), 230), one(m.get('needs'), 200), one(res, 700)))
table = '| seed | change | needs | result |\n|---|---|---|---|\n' + '\n'.join(rows) + '\n'
summary = ('\nSummary (generated): %d seeds; caught with a concrete failing input by the check as it stood when the seed arrived: %d; '
           'reported through a broken correspondence only at first: %d; missed at first: %d. Every miss pointed at a generator or oracle gap '
           'that was then closed (the row says what was added); rows saying "NOT caught yet" are open.\n' % (len(rows), stats['caught'], stats['noinput'], stats['missed']))
p = os.path.join(V, 'DESIGN.md'); s = open(p).read()
a = s.index('| seed | change | needs | result |'); b = s.index('## E. Trusted base')
s = s[:a] + table + summary + '\n' + s[b:]
open(p, 'w').write(s)
print(len(rows), stats)

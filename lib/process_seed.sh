#!/bin/bash
# process_seed.sh <ID>...: verify a delivered seed, run the property's check against it, remove its scratch worktree
for ID in "$@"; do
  echo "=== $ID"
  /verif/lib/verify_seed.sh $ID 2>&1 | tail -2
  if [ -f /verif/seeded/$ID/meta.json ]; then /verif/lib/run_seed.sh $ID 2>&1 | tail -4; else echo "NOT CONFIRMED: $ID kept in /tmp for inspection"; continue; fi
  git -C /repo worktree remove --force /tmp/seed_$ID 2>/dev/null; rm -rf /tmp/seed_${ID}_out /tmp/seed_${ID}_demo_aside /tmp/seed_${ID}_*.log /tmp/seed_${ID}_prompt.txt
done

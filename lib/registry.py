# Per-property configuration of ./check: one file lib/reg/<id>.json per claimed property:
#   {"reg": {...driver configuration...}, "manifest": {"design_ref","technique","text","note"}}
import glob, json, os
_D = os.path.join(os.path.dirname(os.path.abspath(__file__)), "reg")
REG, MANIFEST_TEXT = {}, {}
for _f in sorted(glob.glob(os.path.join(_D, "C*.json"))):
    _j = json.load(open(_f))
    _id = os.path.basename(_f)[:-5]
    REG[_id] = _j["reg"]
    MANIFEST_TEXT[_id] = _j["manifest"]
# properties not claimed, with the reason (kept current by hand)
NOT_APPLICABLE = {}

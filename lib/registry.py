# Per-property configuration of ./check (see DESIGN.md §3 for each property).
ZSTD = "zstd (klauspost/compress) is not modelled: decompression enters the model as the finite payload->raw table observed by the harness and the theorems as a round-trip hypothesis on the block codec"
REG = {
 "C10": {
  "props": "props/C10.v", "harness": "c10", "model_vos": ["model/WalCheck.vo"],
  "trusted_base": [ZSTD, "encoding/json of MetricsMeta entries is not modelled (payload -> entry ids table)"],
  "assumptions": ["crash model: process crash; bytes already handed to write(2) survive, in order (single fd, append-only)",
                  "single-byte damage model for the rejection theorem; damage to a length field changes the span that is checksummed and is rejected only up to a CRC-32 collision (stated, not proved)"],
 },
}

NOT_APPLICABLE = {}

MANIFEST_TEXT = {
 "C10": {
  "design_ref": "DESIGN.md §3 C10",
  "technique": "Coq proof (induction over frames; CRC-32 linearity over GF(2)) + differential correspondence in Coq on every truncation and single-byte modification of real WAL files",
  "text": "Theorems over the Gallina model of the WAL framing and its three iterators, for logs of any length and any item type: a log cut at any byte replays exactly the batches whose frames are complete, in order (C10_cut_replays_completed_prefix); a block with one altered checksum/payload byte is rejected and nothing after it is replayed (C10_damaged_block_rejected, from C10_crc32_detects_single_byte proved for all payload lengths). The model is tied to wal.go on every run: real NewWAL/Append/Write files must equal wal_file byte for byte (CRC-32 included) and the real iterators' output on every truncation and on sampled/all single-byte modifications must equal the model's replay, evaluated inside Coq.",
  "note": "Trusted: Coq kernel, harness, zstd and encoding/json (enter as observed tables / round-trip hypothesis). Modelled not verified: recovery's grouping of WAL files per block and directory order; damage to a frame's size field is rejected only up to a CRC-32 collision over the shifted span; the crash model is process crash with append-only writes (no torn or reordered pages).",
 },
}

#!/bin/bash
# Regenerates coq/gen/Gen.v from ${VERIF_REPO:-/repo} with the gotrans translator (built on demand).
set -e
V="$(cd "$(dirname "$0")/.." && pwd)"
REPO="${VERIF_REPO:-/repo}"
export GOFLAGS=-mod=mod GOPROXY=off GOSUMDB=off GOTOOLCHAIN=local
mkdir -p "$V/work/bin" "$V/coq/gen"
if [ ! -x "$V/work/bin/gotrans" ] || [ -n "$(find "$V/gotrans" -name '*.go' -newer "$V/work/bin/gotrans" 2>/dev/null)" ]; then
  (cd "$V/gotrans" && go build -o "$V/work/bin/gotrans" .)
fi
"$V/work/bin/gotrans" "$REPO" "$V/gotrans/targets.json" "$V/coq/gen/Gen.v.new.$$"
if ! cmp -s "$V/coq/gen/Gen.v.new.$$" "$V/coq/gen/Gen.v" 2>/dev/null; then mv "$V/coq/gen/Gen.v.new.$$" "$V/coq/gen/Gen.v"; else rm -f "$V/coq/gen/Gen.v.new.$$"; fi
# lock / channel skeletons of the core packages (gotrans locktrace): coq/gen/GenLocks.v
"$V/work/bin/gotrans" locktrace "$REPO" "$V/gotrans/locks.json" "$V/coq/gen/GenLocks.v.new.$$"
if ! cmp -s "$V/coq/gen/GenLocks.v.new.$$" "$V/coq/gen/GenLocks.v" 2>/dev/null; then mv "$V/coq/gen/GenLocks.v.new.$$" "$V/coq/gen/GenLocks.v"; else rm -f "$V/coq/gen/GenLocks.v.new.$$"; fi
# call-order skeletons (gotrans locktrace in calltrace mode, labels in gotrans/order.json): coq/gen/GenOrder.v
"$V/work/bin/gotrans" locktrace "$REPO" "$V/gotrans/order.json" "$V/coq/gen/GenOrder.v.new.$$"
if ! cmp -s "$V/coq/gen/GenOrder.v.new.$$" "$V/coq/gen/GenOrder.v" 2>/dev/null; then mv "$V/coq/gen/GenOrder.v.new.$$" "$V/coq/gen/GenOrder.v"; else rm -f "$V/coq/gen/GenOrder.v.new.$$"; fi
# guarded-by skeletons (gotrans locktrace in guardtrace mode, variables in gotrans/guarded.json): coq/gen/GenGuard.v
"$V/work/bin/gotrans" locktrace "$REPO" "$V/gotrans/guarded.json" "$V/coq/gen/GenGuard.v.new.$$"
if ! cmp -s "$V/coq/gen/GenGuard.v.new.$$" "$V/coq/gen/GenGuard.v" 2>/dev/null; then mv "$V/coq/gen/GenGuard.v.new.$$" "$V/coq/gen/GenGuard.v"; else rm -f "$V/coq/gen/GenGuard.v.new.$$"; fi

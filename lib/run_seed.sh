#!/bin/bash
# run_seed.sh <seeded-dir-name> [tier]: run the property's check against a scratch worktree of /repo HEAD with
# /verif/seeded/<name>/patch.diff applied (never touches /repo), record the outcome in meta.json (verif_check_result).
set -u
NAME=$1; TIER=${2:-quick}
PROP=${3:-${NAME:0:3}}
# four seed runs at a time: slot = checksum of the seed name mod 4; each slot has its own scratch worktree and /verif copy
SLOT=$(( $(printf %s "$NAME" | cksum | cut -d' ' -f1) % 4 ))
WT=/tmp/seedrun$SLOT
exec 9>/tmp/seedrun.lock.$SLOT; flock 9
if [ ! -d $WT ]; then git -C /repo worktree add -q --detach $WT HEAD || exit 1; fi
git -C $WT checkout -q -- . ; git -C $WT clean -fdq; git -C $WT checkout -q --detach $(git -C /repo rev-parse HEAD)
git -C $WT apply /verif/seeded/$NAME/patch.diff || { echo "patch does not apply to HEAD"; exit 2; }
# the check runs from a scratch copy of /verif (generated Gen.v, .vo files, harness/go.mod and work/ are per copy), so a seed run
# never disturbs checks of the unchanged tree that run at the same time
SV=/tmp/seedrun_verif$SLOT
mkdir -p $SV
rsync -a --delete --exclude work --exclude .git --exclude 'replays/*' --exclude '*.lock' /verif/ $SV/
cd $SV
VERIF_REPO=$WT ./check $PROP --tier $TIER > /tmp/seedrun_$NAME.log 2>&1; RC=$?
cd /verif
grep -a -v KNOWN /tmp/seedrun_$NAME.log | tail -4
git -C $WT checkout -q -- . ; git -C $WT clean -fdq
python3 - "$NAME" "$RC" "$TIER" "$PROP" <<'PY'
import json,sys,re
name,rc,tier=sys.argv[1],int(sys.argv[2]),sys.argv[3]
log=open(f'/tmp/seedrun_{name}.log',errors='replace').read()
viol=[l for l in log.splitlines() if l.startswith('VIOLATION')]
fi=[l.strip() for l in log.splitlines() if 'failing input' in l][:2]
p=f'/verif/seeded/{name}/meta.json'; m=json.load(open(p))
run={"check":sys.argv[4],"tier":tier,"exit":rc,"caught":bool(viol) and rc==1,"concrete_input":bool(fi),"violation_lines":viol[:3],"failing_input":fi}
m['verif_check_run']=run   # latest automated run; the first outcome is kept in verif_first_run
if 'verif_first_run' not in m and not isinstance(m.get('verif_check_result'),str):
    m['verif_first_run']='missed' if not run['caught'] else ('caught' if fi else 'noinput')
json.dump(m,open(p,'w'),indent=1)
print("caught" if viol and rc==1 else "MISSED", name)
PY
true

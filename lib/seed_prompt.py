import json,sys
pid=sys.argv[1]
for l in open('/verif/properties.jsonl'):
    p=json.loads(l)
    if p['id']==pid:
        text=p['statement']; files=p['anchors']['files']
print(f"""You are a software engineer doing mutation seeding for a research study of verification tools. You work ONLY in the scratch git worktree /tmp/seed_{pid} (a checkout of the Go project siglens: a single-binary observability database). Do NOT look at or touch /verif or /repo, and do not read anything outside /tmp/seed_{pid} except the Go toolchain/module cache. Environment for every go command: `export GOFLAGS=-mod=mod GOPROXY=off GOSUMDB=off GOTOOLCHAIN=local` (there is no network); always wrap go commands in `timeout`.

The project is supposed to satisfy this semantic property:

"{text}"

Code most relevant to it: {', '.join(files)}.

Your task: produce ONE realistic change to the Go source (a plausible refactoring slip, optimisation, off-by-one, reordered statements, dropped check, wrong field...; 1-15 changed lines, no test files touched, no new dependencies) that BREAKS this property while (a) the project still compiles (`go build ./...`), (b) the ENTIRE existing test suite still passes (`timeout 1500 go test -vet=off -count=1 -timeout 25m ./... 2>&1 | grep -v '^ok\\|no test files'` must print nothing; it takes about 1-2 minutes), and (c) the breakage needs something SPECIFIC to manifest — a particular interleaving, a crash/fault at a particular point, a multi-step sequence of operations, an unusual input, a boundary value, or two cooperating sites that each look fine alone — not something ordinary use would expose at once. Prefer subtle over blunt. The change must be in non-test .go files of the relevant code.

Also write a DEMONSTRATION: a Go test file (package-internal `_test.go` placed where it needs to be, e.g. next to the changed code, named zz_seed_demo_test.go) or a small Go program, that FAILS with your change applied and PASSES on the original code. Verify both directions yourself (run it with the change, then `git stash`/`git checkout` the source change and run it again, then re-apply).

Deliver in /tmp/seed_{pid}_out/ : `patch.diff` (output of `git diff` for the source change ONLY, without the demo file; it must apply with `git apply` to a clean checkout), the demo file(s) with a note where they go, and `meta.json` with keys: property ("{pid}"), summary (what the change does), needs (what specific condition is needed for it to manifest), files_changed, demo_cmd (exact command to run the demo from the worktree root), ran (what you ran and the results, incl. the full test-suite run with the change). Leave the worktree with the change applied and the demo file in place. Report briefly at the end. If your first idea fails the existing tests, pick another; do not weaken tests.""")

#!/usr/bin/env python3
"""Driver shared by all property checks.

./check <Cxx> [--tier quick|thorough] [--seed N] [--replay file]

Per run:
  1. re-check the property's theorems (make props/Cxx.vo from a removed .vo, output
     captured: theorem count, Print Assumptions);
  2. rebuild the Go harness command from /repo's working tree (tag verif + overlay hooks);
  3. run the harness: it runs the real code on generated cases, evaluates the property
     oracle on the implementation's observables and writes Coq case files;
  4. coqc evaluates the model on the same cases inside Coq (vm_compute) and prints the
     indices of disagreeing cases;
  5. verdict + evidence/<id>.json.
"""
import glob, argparse, json, os, re, subprocess, sys, time, glob, hashlib, shutil
from concurrent.futures import ThreadPoolExecutor

V = os.path.dirname(os.path.dirname(os.path.abspath(__file__)))
REPO = os.environ.get("VERIF_REPO", "/repo")
COQ = os.path.join(V, "coq")
ENV = dict(os.environ, GOFLAGS="-mod=mod", GOPROXY="off", GOSUMDB="off", GOTOOLCHAIN="local",
           CARGO_NET_OFFLINE="true", PIP_NO_INDEX="1")

FORBIDDEN = re.compile(r"\b(Admitted|admit|Axiom|Axioms|Parameter|Parameters|Conjecture|Conjectures|Admit Obligations|bypass_check)\b|Unset Guard Checking|Unset Positivity Checking|Unset Universe Checking|-type-in-type|-impredicative-set")


def sh(cmd, timeout=None, cwd=None, env=None):
    t0 = time.time()
    try:
        p = subprocess.run(cmd, shell=isinstance(cmd, str), cwd=cwd, env=env or ENV, timeout=timeout,
                           stdout=subprocess.PIPE, stderr=subprocess.STDOUT, text=True, errors="replace")
        return p.returncode, p.stdout, time.time() - t0
    except subprocess.TimeoutExpired as e:
        out = e.stdout if isinstance(e.stdout, str) else (e.stdout or b"").decode("utf8", "replace")
        return 124, out + "\n[timeout]", time.time() - t0


def strip_comments(src):
    # remove (* ... *) with nesting
    out, depth, i = [], 0, 0
    while i < len(src):
        if src.startswith("(*", i):
            depth += 1; i += 2
        elif src.startswith("*)", i) and depth > 0:
            depth -= 1; i += 2
        else:
            if depth == 0:
                out.append(src[i])
            i += 1
    return "".join(out)


def scan_forbidden():
    bad = []
    for f in glob.glob(os.path.join(COQ, "*", "*.v")):
        if "/cases/" in f:
            continue
        src = strip_comments(open(f).read())
        # Variable/Hypothesis are allowed only inside a Section
        depth = 0
        for ln, line in enumerate(src.split("\n"), 1):
            if re.match(r"\s*Section\b", line): depth += 1
            if re.match(r"\s*End\b", line) and depth > 0: depth -= 1
            if FORBIDDEN.search(line):
                bad.append("%s:%d: %s" % (os.path.relpath(f, V), ln, line.strip()[:80]))
            if depth == 0 and re.match(r"\s*(Variable|Variables|Hypothesis|Hypotheses|Context)\b", line):
                bad.append("%s:%d: %s outside a section" % (os.path.relpath(f, V), ln, line.strip()[:60]))
    return bad


def deps_of(prop_file):
    sys.path.insert(0, os.path.join(V, "lib"))
    import coqbuild
    return coqbuild.deps().get(prop_file.replace(".v", ".vo"), [])


def prove(prop_file, timeout):
    """Rebuild the property's theorem file (and whatever it depends on).  Returns dict."""
    res = {"ok": False, "theorems": [], "assumptions": {}, "log": "", "axioms": []}
    # dependencies first (only what is stale), then the theorem file itself is re-checked on
    # every run with its output (Print Assumptions) captured
    rc, out, dt = sh([os.path.join(V, "lib", "coqbuild.py")] + deps_of(prop_file), timeout=timeout)
    if rc == 0:
        rc, out2, dt2 = sh([os.path.join(V, "lib", "coqbuild.py"), "-f", prop_file.replace(".v", ".vo")], timeout=timeout)
        out = out2 if rc == 0 else out + out2
        dt += dt2
    res["log"] = out[-6000:]
    res["wall_s"] = dt
    src = strip_comments(open(os.path.join(COQ, prop_file)).read())
    res["theorems"] = re.findall(r"^\s*(?:Theorem|Corollary)\s+(\w+)", src, re.M)
    if rc != 0:
        m = re.search(r'File "\./([^"]+)", line (\d+).*?\n(Error:.*?)(?:\n\n|\nmake)', out, re.S)
        res["failed_at"] = (m.group(1) + ":" + m.group(2) + " " + " ".join(m.group(3).split())[:300]) if m else "build failed"
        return res
    # Print Assumptions output: "Closed under the global context" or "Axioms:\n name : type"
    closed = len(re.findall(r"Closed under the global context", out))
    axioms = sorted(set(re.findall(r"^([A-Za-z_][\w\.']*)\s*:\s", out.split("Axioms:", 1)[1], re.M))) if "Axioms:" in out else []
    res["closed"] = closed
    res["axioms"] = axioms
    res["ok"] = True
    return res


def regenerated(cfg):
    """definitions of coq/gen/*.v (translated from the Go source on this run) that the property's theorem file mentions"""
    out = []
    try:
        props = open(os.path.join(COQ, cfg["props"])).read()
        if cfg.get("gotrans"):
            gen = open(os.path.join(COQ, "gen", "Gen.v")).read()
            for m in re.finditer(r"\(\* ([^\n]*?) \*\)\nDefinition (gen_\w+)", gen):
                if re.search(r"\b" + m.group(2) + r"\b", props):
                    out.append(m.group(2) + "  <-  " + m.group(1).split("  [")[0])
        if cfg.get("lock_discipline"):
            gl = open(os.path.join(COQ, "gen", "GenLocks.v")).read()
            n = len(re.findall(r'^\s*\[?\("lk_\w+", lk_\w+\)', gl, re.M))
            out.append("lock/channel skeletons of %d functions of the core packages (coq/gen/GenLocks.v)" % n)
        if cfg.get("guarded_by"):
            gg = open(os.path.join(COQ, "gen", "GenGuard.v")).read()
            n = len(re.findall(r'^\s*\[?\("gb_\w+", gb_\w+\)', gg, re.M))
            out.append("lock + shared-variable access skeletons of %d functions of the core packages (coq/gen/GenGuard.v); rules %s* of proofs/GenGuardCheck.v" % (n, cfg["guarded_by"]))
        if cfg.get("call_order"):
            go = open(os.path.join(COQ, "gen", "GenOrder.v")).read()
            n = len(re.findall(r'^\s*\[?\("co_\w+", co_\w+\)', go, re.M))
            out.append("call-order skeletons of %d functions of the core packages (coq/gen/GenOrder.v); rules %s* of proofs/GenOrderCheck.v" % (n, cfg["call_order"]))
    except OSError:
        pass
    return out


def order_report(prefix):
    """The call-order obligations (proofs/GenOrderCheck.v: co_rules) evaluated on the regenerated skeletons
    (coq/gen/GenOrder.v): the rules of this property that have a problem.  Returns (list, error text)."""
    rc, out, _ = sh([os.path.join(V, "lib", "coqbuild.py"), "proofs/GenOrderCheck.vo"], timeout=900)
    if rc != 0:
        return [], "GenOrderCheck does not build: " + out[-600:]
    d = os.path.join(V, "work", "lockreport")
    os.makedirs(d, exist_ok=True)
    f = os.path.join(d, "order_%d.v" % os.getpid())
    open(f, "w").write("From Coq Require Import String List.\nImport ListNotations.\nFrom SigP Require Import GenOrderCheck.\nOpen Scope string_scope.\n"
                       "Definition R := Eval vm_compute in co_report.\nPrint R.\n")
    rc, out, _ = sh(["coqc", "-Q", os.path.join(COQ, "model"), "SigM", "-Q", os.path.join(COQ, "proofs"), "SigP",
                     "-Q", os.path.join(COQ, "gen"), "SigG", f], timeout=600, cwd=d)
    if rc != 0:
        return [], "call-order report did not evaluate: " + out[-600:]
    body = " ".join(out.split())
    items = []
    for m in re.finditer(r'\("([^"]+)",\s*\[([^\]]*)\]\)', body):
        if m.group(1).startswith(prefix):
            items.append({"rule": m.group(1), "problems": m.group(2).strip()})
    return items, ""


def guard_report(prefix):
    """The guarded-by obligations (proofs/GenGuardCheck.v: gb_rules) evaluated on the regenerated skeletons
    (coq/gen/GenGuard.v): rules of this property with functions that touch the variable without holding its lock."""
    rc, out, _ = sh([os.path.join(V, "lib", "coqbuild.py"), "proofs/GenGuardCheck.vo"], timeout=900)
    if rc != 0:
        return [], "GenGuardCheck does not build: " + out[-600:]
    d = os.path.join(V, "work", "lockreport")
    os.makedirs(d, exist_ok=True)
    f = os.path.join(d, "guard_%d.v" % os.getpid())
    open(f, "w").write("From Coq Require Import String List.\nImport ListNotations.\nFrom SigP Require Import GenGuardCheck.\nOpen Scope string_scope.\n"
                       "Definition R := Eval vm_compute in gb_report.\nPrint R.\n")
    rc, out, _ = sh(["coqc", "-Q", os.path.join(COQ, "model"), "SigM", "-Q", os.path.join(COQ, "proofs"), "SigP",
                     "-Q", os.path.join(COQ, "gen"), "SigG", f], timeout=600, cwd=d)
    if rc != 0:
        return [], "guarded-by report did not evaluate: " + out[-600:]
    body = " ".join(out.split())
    items = []
    for m in re.finditer(r'\("([^"]+)",\s*(None|Some\s*\[([^\]]*)\])\)', body):
        if m.group(1).startswith(prefix):
            fns = [x.strip().strip('"') for x in (m.group(3) or "").split(";") if x.strip()]
            items.append({"rule": m.group(1), "functions": fns, "missing": m.group(2) == "None"})
    return items, ""


def guard_rules():
    try:
        t = open(os.path.join(COQ, "proofs", "GenGuardCheck.v")).read()
    except OSError:
        return {}
    return {m.group(1): (m.group(2), m.group(3)) for m in re.finditer(r'mkG "([^"]+)"\s*"([^"]+)"\s*"([^"]+)"', t)}


def order_rules():
    """rule id -> (root, first, second) as written in proofs/GenOrderCheck.v (for messages only)"""
    try:
        t = open(os.path.join(COQ, "proofs", "GenOrderCheck.v")).read()
    except OSError:
        return {}
    return {m.group(1): (m.group(2), m.group(3), m.group(4))
            for m in re.finditer(r'mkRule "([^"]+)"\s*"([^"]+)"\s*"([^"]+)" "([^"]+)"', t)}


def lock_report():
    """The lock-discipline analysis run on the regenerated skeletons (coq/gen/GenLocks.v): functions of the core packages
    whose skeleton has a trace that re-acquires a held mutex or blocks on a channel under a lock, other than the listed
    exceptions, each with one offending trace.  Returns (list, error text)."""
    rc, out, _ = sh([os.path.join(V, "lib", "coqbuild.py"), "proofs/GenLocksCheck.vo"], timeout=900)
    if rc != 0:
        return [], "GenLocksCheck does not build: " + out[-600:]
    d = os.path.join(V, "work", "lockreport")
    os.makedirs(d, exist_ok=True)
    f = os.path.join(d, "report_%d.v" % os.getpid())
    open(f, "w").write("From Coq Require Import String List.\nImport ListNotations.\nFrom SigP Require Import GenLocksCheck.\nOpen Scope string_scope.\nDefinition R := Eval vm_compute in lk_report.\nPrint R.\n"
                       "Definition Q := Eval vm_compute in lk_order_report.\nPrint Q.\n")
    rc, out, _ = sh(["coqc", "-Q", os.path.join(COQ, "model"), "SigM", "-Q", os.path.join(COQ, "proofs"), "SigP",
                     "-Q", os.path.join(COQ, "gen"), "SigG", f], timeout=600, cwd=d)
    if rc != 0:
        return [], "lock report did not evaluate: " + out[-600:]
    body = " ".join(out.split())
    qbody = body[body.index("Q ="):] if "Q =" in body else ""
    body = body[:body.index("Q =")] if "Q =" in body else body
    items = []
    if qbody and not re.search(r"Q = (nil|\[\s*\])", qbody):
        for m in re.finditer(r'\("([^"]*)",\s*"([^"]*)",\s*\[([^\]]*)\]\)', qbody):
            items.append({"function": ", ".join(x.strip().strip('"') for x in m.group(3).split(";") if x.strip())[:300],
                          "objection": "lock order cycle: %s is acquired while %s is held, against the order of the other functions" % (m.group(2), m.group(1)),
                          "trace": ["Lock " + m.group(1), "Lock " + m.group(2)]})
    if re.search(r"R = (nil|\[\s*\])", body):
        return items, ""
    # ("lk_fn", [("signature", ["Lock x"; "send y"]); ...])
    for m in re.finditer(r'\("(lk_\w+)",\s*\[(.*?)\]\)\s*(?:;|\]\s*:)', body):
        fn, rest = m.group(1), m.group(2)
        for w in re.finditer(r'\("([^"]*)",\s*\[([^\]]*)\]\)', rest):
            items.append({"function": fn, "objection": w.group(1), "trace": [x.strip().strip('"') for x in w.group(2).split(";") if x.strip()]})
        if not items or items[-1]["function"] != fn:
            items.append({"function": fn, "objection": "?", "trace": []})
    if not items:
        items.append({"function": "?", "objection": body[:400], "trace": []})
    return items, ""


def build_harness(cmd, timeout=1500, race=False):
    rc, out, dt = sh([os.path.join(V, "lib", "build_harness.sh"), cmd], timeout=timeout)
    if rc == 0 and race:   # second binary built with the Go race detector (work/bin/<cmd>race)
        rc, out, dt = sh([os.path.join(V, "lib", "build_harness.sh"), cmd, "race"], timeout=timeout)
    return rc == 0, out[-4000:], dt


def run_cases(files, jobs=4, timeout=900):
    """coqc each generated cases file; returns (mismatches, errors, n)"""
    def one(f):
        rc, out, dt = sh(["coqc", "-Q", os.path.join(COQ, "model"), "SigM", "-w", "-abstract-large-number", f],
                         timeout=timeout, cwd=os.path.dirname(f))
        m = re.search(r"M\s*=\s*(.*?)\s*:\s*list", out, re.S)
        if rc != 0 or not m:
            return f, None, out[-1500:]
        body = " ".join(m.group(1).split())
        return f, body, ""
    mism, errs = [], []
    with ThreadPoolExecutor(max_workers=jobs) as ex:
        for f, body, err in ex.map(one, files):
            if body is None:
                errs.append({"file": os.path.relpath(f, V), "error": err})
            elif body != "[]":
                mism.append({"file": os.path.relpath(f, V), "mismatching_case_indices": body[:400]})
    return mism, errs


def load_known(prop):
    # known-findings files are committed under /verif/known/ (one per property) and never written at run time
    out = []
    for p in sorted(glob.glob(os.path.join(V, "known", "*.json"))):
        out += [k for k in json.load(open(p)).get("findings", []) if k.get("property") == prop]
    return out


def main(REG):
    ap = argparse.ArgumentParser()
    ap.add_argument("prop")
    ap.add_argument("--tier", default=os.environ.get("VERIF_TIER", "quick"))
    ap.add_argument("--seed", type=int, default=int(os.environ.get("VERIF_SEED", "1") or 1))
    ap.add_argument("--replay")
    a = ap.parse_args()
    prop = a.prop
    if prop not in REG:
        print("unknown property", prop); sys.exit(2)
    cfg = REG[prop]
    if a.replay:
        r = json.load(open(a.replay))
        a.tier, a.seed = r.get("tier", a.tier), r.get("seed", a.seed)
        print("replaying %s: tier=%s seed=%s expecting class=%s" % (a.replay, a.tier, a.seed, r.get("class")))
    tier = "thorough" if a.tier == "thorough" else "quick"
    t0 = time.time()
    os.makedirs(os.path.join(V, "evidence"), exist_ok=True)
    os.makedirs(os.path.join(V, "replays"), exist_ok=True)
    work = os.path.join(V, "work", prop)
    # two runs of the same property share work/<prop>: serialise them (a second run waits for the first)
    import fcntl
    os.makedirs(os.path.join(V, "work"), exist_ok=True)
    _lock = open(os.path.join(V, "work", prop + ".lock"), "w")
    fcntl.flock(_lock, fcntl.LOCK_EX)
    t0 = time.time()
    shutil.rmtree(work, ignore_errors=True)
    os.makedirs(work, exist_ok=True)

    problems = []       # broken proof / correspondence items (no concrete failing input)
    violations = []     # oracle failures with concrete input
    known_hits = {}

    # 1. theorems
    bad = scan_forbidden()
    gt_msg = None
    if cfg.get("gotrans"):
        # regenerate coq/gen/Gen.v from the current Go source; a function that left the translatable
        # subset (or disappeared) is a broken tie between code and model
        rc_g, out_g, _ = sh([os.path.join(V, "lib", "run_gotrans.sh")], timeout=600)
        if rc_g != 0:
            gt_msg = out_g[-800:]
        else:
            # targets that left the translatable subset are skipped one by one (their definition is missing from
            # coq/gen/Gen.v): only the properties whose proofs mention the target are concerned
            mine = ""
            for fn in [os.path.join(COQ, cfg["props"])] + sorted(glob.glob(os.path.join(COQ, "proofs", "Gen%s*.v" % prop))):
                try:
                    mine += open(fn).read()
                except OSError:
                    pass
            lost = [m for m in re.finditer(r"gotrans: target (\w+) not translated: ([^\n]*)", out_g) if re.search(r"\b" + m.group(1) + r"\b", mine)]
            if lost:
                gt_msg = "; ".join("%s: %s" % (m.group(1), m.group(2)) for m in lost)[:800]
    pr = prove(cfg["props"], timeout=cfg.get("proof_timeout", 2400))
    obligations = len(pr["theorems"])
    discharged = obligations if pr["ok"] and not bad else 0
    if bad:
        problems.append({"kind": "forbidden-construct", "what": bad[:10]})
    if gt_msg:
        problems.append({"kind": "translator", "what": "gotrans could not translate the current Go source: " + gt_msg})
    if not pr["ok"]:
        problems.append({"kind": "proof-obligation", "theorem_file": cfg["props"], "what": pr.get("failed_at"), "log_tail": pr["log"][-1500:]})
    if cfg.get("lock_discipline"):
        # which functions of the regenerated lock skeletons have an objectionable trace that is not a listed exception
        items, lerr = lock_report()
        if lerr:
            problems.append({"kind": "lock-discipline", "what": lerr})
        for it in items[:8]:
            problems.append({"kind": "lock-discipline", "what": "the lock skeleton of %s (regenerated from the source) has a trace on which the goroutine does: %s — %s" % (
                it["function"], " ; ".join(it["trace"]), it["objection"]), **it})
    if cfg.get("call_order"):
        # which store-before-drop obligations of this property fail on the regenerated call-order skeletons
        items, oerr = order_report(cfg["call_order"])
        if oerr:
            problems.append({"kind": "call-order", "what": oerr})
        rl = order_rules()
        for it in items[:8]:
            root, first, second = rl.get(it["rule"], ("?", "?", "?"))
            problems.append({"kind": "call-order", "what": "call-order obligation %s no longer holds on the skeleton of %s regenerated from the source: "
                             "a path exists on which %s is called without an earlier call of %s (or one of the calls / the function is gone): %s" % (
                                 it["rule"], root.replace("co_", ""), second, first, it["problems"]), **it})
    if cfg.get("guarded_by"):
        # which shared variables of this property are touched without their lock on the regenerated skeletons
        items, gerr = guard_report(cfg["guarded_by"])
        if gerr:
            problems.append({"kind": "guarded-by", "what": gerr})
        gr = guard_rules()
        for it in items[:8]:
            var, lock = gr.get(it["rule"], ("?", "?"))
            if it["missing"]:
                what = "guarded-by obligation %s: the variable %s or the lock %s no longer exists in the regenerated skeletons (renamed or removed)" % (it["rule"], var, lock)
            else:
                what = "guarded-by obligation %s no longer holds: the skeleton regenerated from the source of %s has a path on which %s is read or written while the goroutine does not hold %s" % (
                    it["rule"], ", ".join(x.replace("gb_", "") for x in it["functions"][:6]), var, lock)
            problems.append({"kind": "guarded-by", "what": what, **it})
    allowed_axioms = set(cfg.get("allowed_axioms", []))
    extra_ax = [x for x in pr.get("axioms", []) if x not in allowed_axioms]
    if extra_ax:
        problems.append({"kind": "unexpected-axioms", "what": extra_ax})

    # 2..4 harness + model
    summary = {}
    hb_ok, hb_log, _ = build_harness(cfg["harness"], race=bool(cfg.get("race")))
    mism, cerrs = [], []
    if not hb_ok:
        problems.append({"kind": "correspondence", "what": "harness does not build against the current tree", "log_tail": hb_log[-1500:]})
    else:
        hcmd = [os.path.join(V, "work", "bin", cfg["harness"]), "--tier", tier, "--seed", str(a.seed), "--out", work] + cfg.get("harness_args", [])
        ul = cfg.get("ulimit_kb", 24000000)   # 0 = no address-space limit (the race detector's shadow memory needs it)
        pre = ("ulimit -v %d; " % ul) if ul else ""
        rc, out, dt = sh(pre + " ".join(hcmd), timeout=cfg.get("harness_timeout", {"quick": 900, "thorough": 7200})[tier])
        sp = os.path.join(work, "summary.json")
        if rc != 0 or not os.path.exists(sp):
            problems.append({"kind": "correspondence", "what": "harness run failed rc=%d" % rc, "log_tail": out[-2000:]})
        else:
            summary = json.load(open(sp))
            for he in summary.get("harness_errors") or []:
                problems.append({"kind": "correspondence", "what": "harness error: " + he})
            files = summary.get("case_files") or []
            if files:
                lib_ok = sh([os.path.join(V, "lib", "coqbuild.py")] + cfg.get("model_vos", []), timeout=2400) if cfg.get("model_vos") else (0, "", 0)
                if lib_ok[0] != 0:
                    problems.append({"kind": "correspondence", "what": "model files do not compile", "log_tail": lib_ok[1][-1500:]})
                else:
                    mism, cerrs = run_cases(files, jobs=cfg.get("coq_jobs", 4))
                    for m_ in mism:
                        problems.append({"kind": "correspondence", "what": "model and implementation disagree", **m_})
                    for e in cerrs:
                        problems.append({"kind": "correspondence", "what": "cases file did not evaluate", **e})

    # 5. verdict
    known = load_known(prop)
    known_classes = {k["class"]: k for k in known if k.get("status") == "known"}
    for f in summary.get("oracle_failures") or []:
        if f["class"] in known_classes:
            known_hits.setdefault(f["class"], f)
        else:
            violations.append(f)

    lines = []
    rc_exit = 0
    for cls, k in known_classes.items():
        hit = known_hits.get(cls)
        lines.append("KNOWN-FINDING: property=%s %s [class=%s; %s]" % (prop, k.get("what", ""), cls,
                     "reproduced in this run: " + hit["detail"][:160] if hit else "not exercised in this run"))
    if violations:
        rc_exit = 1
        seen = set()
        for f in violations:
            if f["class"] in seen:
                continue
            seen.add(f["class"])
            rp = os.path.join("replays", "%s_%s_seed%d.json" % (prop, re.sub(r"[^A-Za-z0-9_.-]+", "_", f["class"])[:120], a.seed))
            json.dump({"property": prop, "tier": tier, "seed": a.seed, "class": f["class"], "detail": f["detail"], "case": f.get("case"),
                       "how": "./check %s --replay %s" % (prop, rp)}, open(os.path.join(V, rp), "w"), indent=1)
            lines.append("VIOLATION property=%s replay=%s" % (prop, rp))
            print("  failing input (%s): %s" % (f["class"], f["detail"][:300]))
    elif problems:
        rc_exit = 1
        rp = os.path.join("replays", "%s_unproved_seed%d.json" % (prop, a.seed))
        json.dump({"property": prop, "tier": tier, "seed": a.seed, "class": "no-failing-input-found",
                   "no_longer_checks": problems,
                   "note": "a proof obligation or the model/implementation correspondence no longer checks; the search over %d generated cases found no input on which the property itself fails" % (summary.get("evaluations", 0))},
                  open(os.path.join(V, rp), "w"), indent=1)
        for pb in problems[:5]:
            print("  broken: %s: %s" % (pb["kind"], str(pb.get("what"))[:300]))
        lines.append("VIOLATION property=%s replay=%s no-failing-input-found" % (prop, rp))

    wall = time.time() - t0
    tb = list(cfg.get("trusted_base", [])) + [
        "Coq 8.16.1 kernel (coqc; vm_compute used, native_compute not used)",
        "Print Assumptions of the property theorems: " + ("Closed under the global context (%d theorems)" % pr.get("closed", 0) if not pr.get("axioms") else "Axioms: " + ", ".join(pr["axioms"])),
        "Go harness (generators, canonicalisation, property oracle) and lib/vcheck.py",
    ]
    ev = {
        "property_id": prop, "tier": tier, "seed": a.seed,
        "level": cfg.get("level") if cfg.get("level") in ("exploration", "fault_enumeration", "model_checking", "proof", "translation_validation", "other") else "proof",
        "coverage": {
            "obligations": max(obligations, 1), "discharged": discharged,
            "theorems": pr["theorems"],
            "checker_cmd": "lib/coqbuild.py -f %s (coqc 8.16.1, full .vo compilation of the property file on every run, stale dependencies rebuilt first; setup builds everything through coq_makefile + make)" % cfg["props"].replace(".v", ".vo"),
            "trusted_base": tb,
            "evaluations": int(summary.get("evaluations", 0)),
            "distinct_nontrivial": int(summary.get("distinct_nontrivial", 0)),
            "rule": summary.get("rule", ""),
            "samples": summary.get("samples") or [{"theorems": pr["theorems"]}],
            "input_distribution": summary.get("distribution", {}),
            "cases_compared_with_model_in_coq": int(summary.get("cases_to_model", 0)),
            "model_impl_disagreements": len(mism), "case_files_failed": len(cerrs),
            "oracle_failures_total": len(summary.get("oracle_failures") or []),
            "known_findings_reproduced": sorted(known_hits.keys()),
            "proof_wall_s": round(pr.get("wall_s", 0), 1),
            "notes": summary.get("notes") or [],
            "regenerated_from_source": regenerated(cfg),
            "broken": problems[:5],
        },
        "assumptions": cfg.get("assumptions", []),
        "wall_s": round(wall, 1),
        "violations": len(violations) + (1 if (problems and not violations) else 0),
    }
    if a.replay:
        want = r.get("class")
        got = sorted(set([f["class"] for f in (summary.get("oracle_failures") or [])]))
        if want == "no-failing-input-found":
            print("replay: %s" % ("still unproved / disagreeing: " + "; ".join(str(pb.get("what"))[:120] for pb in problems[:3]) if problems else "everything checks now"))
        else:
            print("replay: class %s %s (classes seen in this run: %s)" % (want, "REPRODUCED" if want in got else "not reproduced", got))
    json.dump(ev, open(os.path.join(V, "evidence", prop + ".json"), "w"), indent=1)
    for l in lines:
        print(l)
    print("%s tier=%s seed=%d theorems=%d/%d cases=%d model-compared=%d disagreements=%d wall=%.0fs -> %s" % (
        prop, tier, a.seed, discharged, obligations, ev["coverage"]["evaluations"], ev["coverage"]["cases_compared_with_model_in_coq"],
        len(mism), wall, "FAIL" if rc_exit else "ok"))
    sys.exit(rc_exit)

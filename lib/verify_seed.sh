#!/bin/bash
# verify_seed.sh <ID> [<subdir>]: confirm a seeded change delivered in /tmp/seed_<ID>_out against the worktree /tmp/seed_<ID>:
#  demo fails with the change, passes without it, project builds and the full suite passes with it.
# Then store it under /verif/seeded/<ID>[_n]/.
set -u
ID=$1; DEST=${2:-$ID}
WT=/tmp/seed_$ID; OUT=/tmp/seed_${ID}_out
export GOFLAGS=-mod=mod GOPROXY=off GOSUMDB=off GOTOOLCHAIN=local
cd $WT || exit 1
DEMO=$(python3 -c "import json;print(json.load(open('$OUT/meta.json'))['demo_cmd'])")
echo "demo: $DEMO"
git stash -q -- $(git diff --name-only) 2>/dev/null   # remove the source change, keep the (untracked) demo file
git apply --check $OUT/patch.diff || { echo "PATCH DOES NOT APPLY"; exit 1; }
timeout 900 bash -c "$DEMO" > /tmp/seed_${ID}_without.log 2>&1; RC_WITHOUT=$?
git apply $OUT/patch.diff
timeout 900 go build ./... > /tmp/seed_${ID}_build.log 2>&1; RC_BUILD=$?
timeout 900 bash -c "$DEMO" > /tmp/seed_${ID}_with.log 2>&1; RC_WITH=$?
# full suite with the change (demo files moved aside)
mkdir -p /tmp/seed_${ID}_demo_aside; for f in $(git ls-files --others --exclude-standard); do mkdir -p /tmp/seed_${ID}_demo_aside/$(dirname $f); mv $f /tmp/seed_${ID}_demo_aside/$f; done
for try in 1 2 3; do   # known flaky under load: multiplexer, tagstree Test_ConcurrentReadWrite
  timeout 1700 go test -vet=off -count=1 -timeout 25m ./... 2>&1 | grep -v '^ok\|no test files' > /tmp/seed_${ID}_suite.log
  SUITE_LINES=$(wc -l < /tmp/seed_${ID}_suite.log)
  [ "$SUITE_LINES" -eq 0 ] && break
done
(cd /tmp/seed_${ID}_demo_aside && find . -type f | while read f; do mkdir -p $WT/$(dirname $f); mv $f $WT/$f; done)
echo "demo without change rc=$RC_WITHOUT (want 0); build rc=$RC_BUILD (want 0); demo with change rc=$RC_WITH (want !=0); suite failing lines=$SUITE_LINES (want 0)"
if [ $RC_WITHOUT -eq 0 ] && [ $RC_BUILD -eq 0 ] && [ $RC_WITH -ne 0 ] && [ $SUITE_LINES -eq 0 ]; then
  mkdir -p /verif/seeded/$DEST
  cp $OUT/patch.diff /verif/seeded/$DEST/
  for f in $(git ls-files --others --exclude-standard); do cp $f /verif/seeded/$DEST/; done
  python3 - "$OUT/meta.json" "/verif/seeded/$DEST/meta.json" "$DEMO" <<'PY'
import json,sys
m=json.load(open(sys.argv[1]))
m["confirmed_by_maintainer"]={"demo_without_change":"pass","demo_with_change":"fail","go_build":"ok","full_suite_with_change":"pass (go test -vet=off -count=1 ./... printed no failing package)","demo_cmd":sys.argv[3]}
json.dump(m,open(sys.argv[2],"w"),indent=1)
PY
  echo "CONFIRMED -> /verif/seeded/$DEST"
else
  echo "NOT CONFIRMED"; tail -n 5 /tmp/seed_${ID}_without.log /tmp/seed_${ID}_with.log /tmp/seed_${ID}_suite.log
fi

From Coq Require Import List Arith Lia Bool Sorting.Sorted Sorting.Permutation.
Import ListNotations.

Record block := { hi : nat; recs : list nat }.
Definition wf (b : block) : Prop := Forall (fun t => t <= hi b) (recs b).

Lemma firstn_In' {A} n (l : list A) x : In x (firstn n l) -> In x l.
Proof. intros H. rewrite <- (firstn_skipn n l). apply in_or_app. auto. Qed.
Lemma skipn_In' {A} n (l : list A) x : In x (skipn n l) -> In x l.
Proof. intros H. rewrite <- (firstn_skipn n l). apply in_or_app. auto. Qed.

Section SCHED.
(* the k-way merge of the real code is abstracted as any correct descending sort *)
Variable sortd : list nat -> list nat.
Hypothesis sortd_perm : forall l, Permutation (sortd l) l.
Hypothesis sortd_sorted : forall l, StronglySorted ge (sortd l).

Fixpoint takeW (e : nat) (l : list nat) : list nat :=
  match l with [] => [] | t :: r => if Nat.leb e t then t :: takeW e r else [] end.
Fixpoint dropW (e : nat) (l : list nat) : list nat :=
  match l with [] => [] | t :: r => if Nat.leb e t then dropW e r else l end.

Lemma take_drop e l : takeW e l ++ dropW e l = l.
Proof. induction l as [|t r IH]; simpl; auto. destruct (Nat.leb e t); simpl; [f_equal; exact IH|reflexivity]. Qed.

Lemma takeW_ge e l : Forall (fun t => e <= t) (takeW e l).
Proof. induction l as [|t r IH]; simpl; auto. destruct (Nat.leb_spec e t); auto. Qed.

Lemma dropW_lt e l : StronglySorted ge l -> Forall (fun t => t < e) (dropW e l).
Proof.
  induction 1 as [|t r Hs IH Hall]; simpl; auto.
  destruct (Nat.leb_spec e t) as [|Hlt]; auto.
  constructor; auto. eapply Forall_impl; [|exact Hall]. simpl. intros a Ha. unfold ge in Ha. lia.
Qed.

Definition end_time (rest : list block) : nat := match rest with [] => 0 | b :: _ => hi b end.

(* one Fetch: take the first n blocks (n >= 1 is chosen by getNextBlocks), merge, release *)
Definition fetch (n : nat) (rem : list block) (unsent : list nat) : list nat * list block * list nat :=
  let taken := firstn n rem in
  let rest := skipn n rem in
  let all := sortd (concat (map recs taken) ++ unsent) in
  let e := end_time rest in
  (takeW e all, rest, dropW e all).

Fixpoint run (ns : list nat) (rem : list block) (unsent out : list nat) : list nat * list block * list nat :=
  match ns with
  | [] => (out, rem, unsent)
  | n :: ns' => let '(rel, rem', unsent') := fetch n rem unsent in run ns' rem' unsent' (out ++ rel)
  end.

(* invariant *)
Definition Inv (rem : list block) (unsent out : list nat) : Prop :=
  StronglySorted ge out /\
  (forall o u, In o out -> In u unsent -> u <= o) /\
  (forall o b, In o out -> In b rem -> hi b <= o) /\
  Forall wf rem /\ StronglySorted (fun a b => hi b <= hi a) rem.

Lemma ss_app (a b : list nat) : StronglySorted ge a -> StronglySorted ge b ->
  (forall x y, In x a -> In y b -> y <= x) -> StronglySorted ge (a ++ b).
Proof.
  induction 1 as [|x a Hs IH Hall]; intros Hb H; simpl; auto.
  constructor.
  - apply IH; auto. intros; apply H; simpl; auto.
  - apply Forall_app. split; auto. apply Forall_forall. intros y Hy. unfold ge. apply H; simpl; auto.
Qed.

Lemma ss_prefix (a b : list nat) : StronglySorted ge (a ++ b) -> StronglySorted ge a.
Proof.
  induction a as [|x a IH]; simpl; intros H; [constructor|].
  inversion H as [|? ? Hs Hall]; subst. constructor; [apply IH; exact Hs|].
  apply Forall_app in Hall. tauto.
Qed.

Lemma in_concat_recs t bs : In t (concat (map recs bs)) -> exists b, In b bs /\ In t (recs b).
Proof.
  intros H. apply in_concat in H as [l [Hl Ht]]. apply in_map_iff in Hl as [b [<- Hb]]. eauto.
Qed.

Lemma rest_le_end rem n b :
  StronglySorted (fun a b => hi b <= hi a) rem -> In b (skipn n rem) -> hi b <= end_time (skipn n rem).
Proof.
  intros Hs Hb.
  assert (Hs' : StronglySorted (fun a b => hi b <= hi a) (skipn n rem)).
  { clear Hb. revert rem Hs; induction n as [|n IH]; intros rem Hs; simpl; auto.
    destruct rem as [|x rem]; [constructor|]. inversion Hs; subst. apply IH; assumption. }
  destruct (skipn n rem) as [|c r]; [destruct Hb|]. simpl.
  destruct Hb as [<-|Hb]; [lia|]. inversion Hs' as [|? ? _ Hall]; subst.
  rewrite Forall_forall in Hall. apply Hall; assumption.
Qed.

Lemma fetch_inv n rem unsent out rel rem' unsent' :
  Inv rem unsent out -> fetch n rem unsent = (rel, rem', unsent') -> Inv rem' unsent' (out ++ rel).
Proof.
  intros (Hso & Hou & Hob & Hwf & Hsr) E. unfold fetch in E. injection E as <- <- <-.
  set (all := sortd (concat (map recs (firstn n rem)) ++ unsent)).
  set (e := end_time (skipn n rem)).
  assert (Hall_le : forall o t, In o out -> In t all -> t <= o).
  { intros o t Ho Ht. unfold all in Ht. apply (Permutation_in _ (sortd_perm _)) in Ht.
    apply in_app_or in Ht as [Ht|Ht]; [|apply Hou; assumption].
    apply in_concat_recs in Ht as [b [Hb Htb]].
    assert (In b rem) by (eapply firstn_In'; eauto).
    rewrite Forall_forall in Hwf. specialize (Hwf b H). unfold wf in Hwf. rewrite Forall_forall in Hwf.
    specialize (Hwf t Htb). specialize (Hob o b Ho H). lia. }
  assert (Hin_take : forall t, In t (takeW e all) -> In t all) by (intros t Ht; rewrite <- (take_drop e all); apply in_or_app; auto).
  assert (Hin_drop : forall t, In t (dropW e all) -> In t all) by (intros t Ht; rewrite <- (take_drop e all); apply in_or_app; auto).
  pose proof (takeW_ge e all) as Hge. rewrite Forall_forall in Hge.
  pose proof (dropW_lt e all (sortd_sorted _)) as Hlt. rewrite Forall_forall in Hlt.
  repeat split.
  - apply ss_app; auto.
    apply (ss_prefix _ (dropW e all)). rewrite take_drop. apply sortd_sorted.
  - intros o u Ho Hu. apply in_app_or in Ho as [Ho|Ho].
    + apply Hall_le; auto.
    + specialize (Hge o Ho). specialize (Hlt u Hu). lia.
  - intros o b Ho Hb. apply in_app_or in Ho as [Ho|Ho].
    + apply Hob; auto. eapply skipn_In'; eauto.
    + specialize (Hge o Ho). pose proof (rest_le_end rem n b Hsr Hb). fold e in H. lia.
  - rewrite Forall_forall in *. intros b Hb. apply Hwf. eapply skipn_In'; eauto.
  - clear -Hsr. revert rem Hsr; induction n as [|n IH]; intros rem Hs; simpl; auto.
    destruct rem as [|x rem]; [constructor|]. inversion Hs; subst. apply IH; assumption.
Qed.

Lemma run_inv ns : forall rem unsent out, Inv rem unsent out ->
  let '(o, r, u) := run ns rem unsent out in Inv r u o.
Proof.
  induction ns as [|n ns IH]; intros rem unsent out H; cbn [run]; [exact H|].
  destruct (fetch n rem unsent) as [[rel rem'] unsent'] eqn:E.
  apply IH. eapply fetch_inv; eauto.
Qed.

(* every order of consumption yields a descending output *)
Theorem run_sorted ns bs :
  Forall wf bs -> StronglySorted (fun a b => hi b <= hi a) bs ->
  StronglySorted ge (fst (fst (run ns bs [] []))).
Proof.
  intros Hwf Hs. pose proof (run_inv ns bs [] []) as H.
  destruct (run ns bs [] []) as [[o r] u]. simpl.
  apply H. repeat split; auto; try constructor; intros ? ? [].
Qed.

(* nothing is lost or duplicated *)
Lemma dropW_0 l : dropW 0 l = [].
Proof. induction l; simpl; auto. Qed.

Lemma fetch_perm n rem unsent rel rem' unsent' :
  fetch n rem unsent = (rel, rem', unsent') ->
  Permutation (rel ++ unsent' ++ concat (map recs rem')) (unsent ++ concat (map recs rem)).
Proof.
  unfold fetch. intros E. injection E as <- <- <-.
  rewrite app_assoc, take_drop.
  rewrite (sortd_perm _).
  rewrite <- (firstn_skipn n rem) at 3. rewrite map_app, concat_app.
  rewrite <- app_assoc. rewrite Permutation_app_comm. rewrite <- !app_assoc.
  apply Permutation_app_head. apply Permutation_app_comm.
Qed.

Lemma run_perm ns : forall rem unsent out,
  let '(o, r, u) := run ns rem unsent out in
  Permutation (o ++ u ++ concat (map recs r)) (out ++ unsent ++ concat (map recs rem)).
Proof.
  induction ns as [|n ns IH]; intros rem unsent out; cbn [run]; [reflexivity|].
  destruct (fetch n rem unsent) as [[rel rem'] unsent'] eqn:E.
  specialize (IH rem' unsent' (out ++ rel)).
  destruct (run ns rem' unsent' (out ++ rel)) as [[o r] u].
  rewrite IH. rewrite <- app_assoc. apply Permutation_app_head.
  eapply fetch_perm; eassumption.
Qed.

(* once the last block has been taken, everything has been released *)
Lemma fetch_last n rem unsent rel unsent' :
  fetch n rem unsent = (rel, [], unsent') -> unsent' = [].
Proof. unfold fetch. intros E. injection E as _ Hr <-. rewrite Hr. simpl. apply dropW_0. Qed.
End SCHED.
Print Assumptions run_sorted.


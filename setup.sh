#!/bin/bash
# Offline setup: full Coq build of the development, warm Go build cache for the harness commands.
set -e
cd "$(dirname "$0")"
export GOFLAGS=-mod=mod GOPROXY=off GOSUMDB=off GOTOOLCHAIN=local
mkdir -p work evidence replays
lib/build_coq.sh || echo "setup: some Coq files failed to build (each property's check re-builds and reports its own)"
for d in harness/cmd/*/; do
  c=$(basename "$d")
  lib/build_harness.sh "$c" || echo "setup: harness $c failed to build (reported again by its check)"
done
echo setup done
